/-
C06 (generator side) — "For every emitted function, method and constructor the stub parameter list
equals the Python parameter list with the implicit receiver (self/cls) removed: same length, same
order, same Python names.  Literal defaults (int, float, str, bool, None, signed numbers) are
reproduced with the same value and a parameter is optional exactly when Python gives it such a
default."

Property theorems about `createParameterString` / `createParameters` / `createParameter`
(`_create_parameter_string`).  Specification vocabulary: `Spec/Params.lean`; helper lemmas:
`Proofs/Params.lean`.  API invariants used as hypotheses (established by the analyser, checked on
the real API by the harness): `Spec.WFReceiver` (the receiver is the first parameter of an
instance/class method and the only implicit one) and `Spec.optionalIsTyped`.
-/
import StubGen.Proofs.Params
import StubGen.Theorems.C09

namespace StubGen.C06

open StubGen

/-- (1) Same length, same order, same names.  A successful `createParameterString` on a well-formed
    parameter list is a successful `createParameters` on the list without the receiver, with the same
    final state; there is exactly one output per remaining parameter, the `i`-th output carries the
    rendered name of the `i`-th parameter and the `@PythonName` annotation exactly when the rendered
    name differs, and the text is the outputs one per line. -/
theorem params_length_order_names (env : Env) (ps : List Parameter) (indent : String) (isInst : Bool)
    (st st' : St) (text : String)
    (h : createParameterString env ps indent isInst st = .ok (text, st'))
    (hwf : Spec.WFReceiver ps isInst) :
    ∃ outs : List ParamOut,
      createParameters env (Spec.receiverRemoved ps) st = .ok (outs, st') ∧
      outs.length = (Spec.receiverRemoved ps).length ∧
      (∀ i (ho : i < outs.length) (hp : i < (Spec.receiverRemoved ps).length),
        outs[i].name = escapeKeyword (convertName (Spec.receiverRemoved ps)[i].name env.safe) ∧
        outs[i].annotation =
          (if convertName (Spec.receiverRemoved ps)[i].name env.safe ≠ (Spec.receiverRemoved ps)[i].name
           then nameAnnotation (Spec.receiverRemoved ps)[i].name ++ " " else "")) ∧
      (outs = [] → text = "") ∧
      (outs ≠ [] → text = "\n" ++ indent ++ indentation
          ++ joinWith (",\n" ++ indent ++ indentation) (outs.map ParamOut.render) ++ "\n" ++ indent) := by
  rw [createParameterString_eq, receiverRemoved_of_wf hwf] at h
  cases hc : createParameters env (Spec.receiverRemoved ps) st with
  | error e => rw [hc] at h; cases h
  | ok x =>
    obtain ⟨outs, st₁⟩ := x
    rw [hc] at h
    cases h
    obtain ⟨hl, hi⟩ := createParameters_ok hc
    refine ⟨outs, rfl, hl, ?_, ?_, ?_⟩
    · intro i ho hp
      obtain ⟨s, s', hcp⟩ := hi i hp ho
      obtain ⟨ha, hn⟩ := createParameter_name hcp
      exact ⟨hn, ha⟩
    · rintro rfl
      rfl
    · intro hne
      cases outs with
      | nil => exact absurd rfl hne
      | cons o os => simp [Spec.paramListText]

/-- (1, specification form) the same statement against `Spec`: the (annotation, name) pairs of the
    outputs are those the specification prescribes for the receiver-free list, and the text is
    `Spec.paramListText` of the rendered outputs. -/
theorem params_match_spec (env : Env) (ps : List Parameter) (indent : String) (isInst : Bool)
    (st st' : St) (text : String)
    (h : createParameterString env ps indent isInst st = .ok (text, st'))
    (hwf : Spec.WFReceiver ps isInst) :
    ∃ outs : List ParamOut,
      createParameters env (Spec.receiverRemoved ps) st = .ok (outs, st') ∧
      outs.map (fun o => (o.annotation, o.name))
        = (Spec.receiverRemoved ps).map (fun p => (Spec.paramAnnotation env.safe p, Spec.paramName env.safe p)) ∧
      text = Spec.paramListText indent indentation (outs.map ParamOut.render) := by
  rw [createParameterString_eq, receiverRemoved_of_wf hwf] at h
  cases hc : createParameters env (Spec.receiverRemoved ps) st with
  | error e => rw [hc] at h; cases h
  | ok x =>
    obtain ⟨outs, st₁⟩ := x
    rw [hc] at h
    cases h
    exact ⟨outs, rfl, createParameters_names hc, rfl⟩

/-- (1, C09 form) the Python name of every stub parameter is recoverable: annotation and rendered name
    are exactly the `C09.emitName` pair of the Python name, on which `C09.recover` is the identity. -/
theorem params_names_recoverable (env : Env) (ps : List Parameter) (indent : String) (isInst : Bool)
    (st st' : St) (text : String) (outs : List ParamOut)
    (h : createParameterString env ps indent isInst st = .ok (text, st'))
    (hwf : Spec.WFReceiver ps isInst)
    (houts : createParameters env (Spec.receiverRemoved ps) st = .ok (outs, st')) :
    ∀ i (ho : i < outs.length) (hp : i < (Spec.receiverRemoved ps).length),
      let n := (Spec.receiverRemoved ps)[i].name
      outs[i].name = escapeKeyword (C09.emitName n env.safe false).2 ∧
      outs[i].annotation = (match (C09.emitName n env.safe false).1 with
        | some py => nameAnnotation py ++ " "
        | none => "") ∧
      C09.recover (C09.emitName n env.safe false) = n := by
  intro i ho hp
  obtain ⟨outs', h1, _, h3, _⟩ := params_length_order_names env ps indent isInst st st' text h hwf
  rw [houts] at h1
  cases h1
  obtain ⟨hn, ha⟩ := h3 i ho hp
  refine ⟨hn, ?_, C09.recover_eq _ _ _⟩
  rw [ha]
  unfold C09.emitName
  by_cases hd : convertName (Spec.receiverRemoved ps)[i].name env.safe = (Spec.receiverRemoved ps)[i].name
    <;> simp [hd]

/-- (2) Optional in the stub exactly when optional in the API, with the same literal. -/
theorem params_defaults (env : Env) (p : Parameter) (st st' : St) (out : ParamOut)
    (htyped : Spec.optionalIsTyped p = true)
    (h : createParameter env p st = .ok (out, st')) :
    out.value = if p.isOptional then " = " ++ Spec.defaultText p.assignedBy p.default else "" := by
  cases ht : p.type with
  | none =>
    have hopt : p.isOptional = false := by
      simpa [Spec.optionalIsTyped, ht] using htyped
    rw [createParameter_none env p st ht] at h
    cases h
    simp [hopt]
  | some t =>
    rw [createParameter_some env p st ht (shownParamType_of_some ht)] at h
    split at h
    · cases h
    · cases h
      rfl

/-- (2, consequence) the stub parameter has a default value iff the Python parameter has one -/
theorem params_optional_iff (env : Env) (p : Parameter) (st st' : St) (out : ParamOut)
    (htyped : Spec.optionalIsTyped p = true)
    (h : createParameter env p st = .ok (out, st')) :
    out.value ≠ "" ↔ p.isOptional = true := by
  rw [params_defaults env p st st' out htyped h]
  cases p.isOptional with
  | false => simp
  | true =>
    simp only [if_true, ne_eq, iff_true]
    intro e
    have := congrArg String.length e
    simp [String.length_append] at this

/-- (2, the dropped default) without `optionalIsTyped` the default value is lost: an optional
    parameter without a type is emitted as a required one, whatever its default. -/
theorem untyped_default_dropped (env : Env) (p : Parameter) (st : St) (h : p.type = none) :
    ∃ out st', createParameter env p st = .ok (out, st') ∧ out.value = "" :=
  ⟨_, _, createParameter_none env p st h, rfl⟩

/-- (3) The type shown is the rendering (`typeStr`) of the parameter's shown type (`*args: tuple[T]`
    is shown as a list), prefixed by `: ` unless it is empty; a parameter without type gets no type,
    except the variadic ones, which get their collection type.  `afterDefault` / `paramTail` are the
    marker updates (C20) before and after the type is rendered. -/
theorem params_type (env : Env) (p : Parameter) (st st' : St) (out : ParamOut)
    (h : createParameter env p st = .ok (out, st')) :
    match Spec.shownParamType p with
    | some t' => ∃ s st₂, typeStr env t' (afterDefault p st) = .ok (s, st₂) ∧ st' = paramTail p st₂ ∧
        out.typeString = if s ≠ "" then ": " ++ s else ""
    | none => out.typeString = (match p.assignedBy with
        | .positionalVararg => ": List<Any>"
        | .namedVararg => ": Map<String, Any>"
        | _ => "") := by
  cases ht : p.type with
  | none =>
    rw [shownParamType_none ht]
    rw [createParameter_none env p st ht] at h
    cases h
    rfl
  | some t =>
    rw [shownParamType_of_some ht]
    rw [createParameter_some env p st ht (shownParamType_of_some ht)] at h
    simp only
    split at h
    · cases h
    · rename_i s st₂ hs
      cases h
      exact ⟨s, st₂, hs, rfl, rfl⟩

/-- (3, untyped variadics) -/
theorem params_type_untyped_varargs (env : Env) (p : Parameter) (st st' : St) (out : ParamOut)
    (hnone : p.type = none) (h : createParameter env p st = .ok (out, st')) :
    (p.assignedBy = .positionalVararg → out.typeString = ": List<Any>") ∧
    (p.assignedBy = .namedVararg → out.typeString = ": Map<String, Any>") ∧
    (p.assignedBy ≠ .positionalVararg → p.assignedBy ≠ .namedVararg → out.typeString = "") := by
  rw [createParameter_none env p st hnone] at h
  cases h
  simp only [Spec.untypedParamType]
  cases p.assignedBy <;> simp

/-- (1-3 together) a typed parameter is rendered as the specification's `specParam` of the rendering
    of its shown type -/
theorem param_matches_spec (env : Env) (p : Parameter) (st st' : St) (out : ParamOut) (t' : AType)
    (hs : Spec.shownParamType p = some t')
    (h : createParameter env p st = .ok (out, st')) :
    ∃ s st₂, typeStr env t' (afterDefault p st) = .ok (s, st₂) ∧
      ({ annotation := out.annotation, name := out.name, typeString := out.typeString, value := out.value }
        : Spec.ParamText) = Spec.specParam env.safe p s ∧
      out.render = (Spec.specParam env.safe p s).render := by
  cases ht : p.type with
  | none => rw [shownParamType_none ht] at hs; cases hs
  | some t =>
    rw [createParameter_some env p st ht hs] at h
    split at h
    · cases h
    · rename_i s st₂ hts
      cases h
      exact ⟨s, st₂, hts, rfl, rfl⟩

/-- (4) On a well-formed list, skipping the first parameter of an instance/class method is removing
    the receiver, and nothing is removed from a function or static method. -/
theorem receiver_skip_is_drop (ps : List Parameter) :
    (Spec.WFReceiver ps true → ps.drop 1 = Spec.receiverRemoved ps) ∧
    (Spec.WFReceiver ps false → ps = Spec.receiverRemoved ps) :=
  ⟨fun h => receiverRemoved_of_wf (b := true) h, fun h => receiverRemoved_of_wf (b := false) h⟩

/-! ### Non-vacuity and counterexamples -/

section Examples

private def env0 : Env := { api := {}, safe := true }
private def tInt : AType := .named "int" "builtins.int"
private def tStr : AType := .named "str" "builtins.str"
private def tBool : AType := .named "bool" "builtins.bool"
private def tFloat : AType := .named "float" "builtins.float"
private def mk (name : String) (a : Assign) (opt : Bool) (d : DefaultVal) (t : Option AType) : Parameter :=
  { id := "m/C/f/" ++ name, name := name, isOptional := opt, default := d, assignedBy := a, type := t }

/-- `def f(self, in_, /, ...)`-like method: the receiver, all five kinds, a keyword name (`in`), a
    snake_case name, and int / float / str / signed / bool / None defaults -/
private def demo : List Parameter :=
  [ mk "self" .implicit false .none none,
    mk "in" .positionOnly false .none (some tInt),
    mk "max_depth" .positionOnly true (.int 3) (some tInt),
    mk "ratio" .positionOrName true (.float "1.5") (some tFloat),
    mk "label" .positionOrName true (.str "\"a\"") (some tStr),
    mk "offset" .positionOrName true (.int (-2)) (some tInt),
    mk "args" .positionalVararg false .none (some (.tuple [tInt])),
    mk "verbose" .nameOnly true (.bool true) (some tBool),
    mk "callback" .nameOnly true .none (some (.union [tStr, .named "None" "builtins.None"])),
    mk "kwargs" .namedVararg false .none none ]

/-- the hypotheses of (1) and (2) hold for `demo` -/
example : Spec.WFReceiver demo true := by decide
example : demo.all Spec.optionalIsTyped = true := by decide
example : (Spec.receiverRemoved demo).length = 9 ∧ (Spec.receiverRemoved demo).map (·.name)
    = ["in", "max_depth", "ratio", "label", "offset", "args", "verbose", "callback", "kwargs"] := by decide

set_option maxRecDepth 4000 in
/-- … and `createParameterString` succeeds on it, with this text -/
example : (createParameterString env0 demo "" true {}).toOption.map (·.1) = some
    ("\n    `in`: Int,\n    @PythonName(\"max_depth\") maxDepth: Int = 3,\n    ratio: Float = 1.5,\n"
     ++ "    label: String = \"a\",\n    offset: Int = -2,\n    args: List<Int>,\n    verbose: Boolean = true,\n"
     ++ "    callback: String? = null,\n    kwargs: Map<String, Any>\n") := by decide

set_option maxRecDepth 4000 in
/-- the outputs, piecewise: keyword escaped, annotation iff renamed, defaults verbatim -/
example : (createParameters env0 (Spec.receiverRemoved demo) {}).toOption.map
      (fun r => r.1.map (fun o => (o.annotation, o.name, o.typeString, o.value))) = some
    [ ("", "`in`", ": Int", ""),
      ("@PythonName(\"max_depth\") ", "maxDepth", ": Int", " = 3"),
      ("", "ratio", ": Float", " = 1.5"),
      ("", "label", ": String", " = \"a\""),
      ("", "offset", ": Int", " = -2"),
      ("", "args", ": List<Int>", ""),
      ("", "verbose", ": Boolean", " = true"),
      ("", "callback", ": String?", " = null"),
      ("", "kwargs", ": Map<String, Any>", "") ] := by decide

/-- with the naming flag off nothing is renamed, nothing annotated (the keyword is still escaped) -/
example : (createParameterString { env0 with safe := false } (demo.take 3) "" true {}).toOption.map (·.1)
    = some "\n    `in`: Int,\n    max_depth: Int = 3\n" := by decide

/-- nested declaration: the indentation of the declaration is prepended -/
example : (createParameterString env0 (demo.take 2) "    " true {}).toOption.map (·.1)
    = some "\n        `in`: Int\n    " := by decide

/-- no parameters besides the receiver: empty text -/
example : (createParameterString env0 (demo.take 1) "" true {}).toOption.map (·.1) = some "" := by decide

/-- the empty-collection defaults of variadic parameters -/
example : (createParameterString env0
      [ mk "args" .positionalVararg true (.str "()") (some (.tuple [tInt])),
        mk "kw" .namedVararg true (.str "{}") (some (.dict tStr tInt)) ] "" false {}).toOption.map (·.1)
    = some "\n    args: List<Int> = [],\n    kw: Map<String, Int> = {}\n" := by decide

/-- the remaining literal kinds of `Spec.defaultText` -/
example : Spec.defaultText .positionOrName (.bool false) = "false" ∧ Spec.defaultText .nameOnly .unknown = "unknown"
    ∧ Spec.defaultText .positionOrName (.str "()") = "()" ∧ Spec.defaultText .positionOrName (.float "-1e-3") = "-1e-3"
    ∧ Spec.defaultText .positionOrName (.int (-17)) = "-17" := by decide

/-- (2) needs `optionalIsTyped`: `def f(x=3)` whose parameter carries no type loses its default … -/
example : Spec.optionalIsTyped (mk "x" .positionOrName true (.int 3) none) = false
    ∧ (createParameterString env0 [mk "x" .positionOrName true (.int 3) none] "" false {}).toOption.map (·.1)
      = some "\n    x\n" := by decide
/-- … while the same parameter with its inferred type keeps it -/
example : (createParameterString env0 [mk "x" .positionOrName true (.int 3) (some tInt)] "" false {}).toOption.map (·.1)
    = some "\n    x: Int = 3\n" := by decide

/-- (4) needs `WFReceiver`: a parameter list without receiver passed as an instance method (what a
    mis-classified static method would be) loses its first real parameter … -/
example : ¬ Spec.WFReceiver [mk "x" .positionOrName false .none (some tInt)] true := by decide
example : (createParameterString env0 [mk "x" .positionOrName false .none (some tInt)] "" true {}).toOption.map (·.1)
    = some "" := by decide
example : (Spec.receiverRemoved [mk "x" .positionOrName false .none (some tInt)]).length = 1 ∧
    ([mk "x" .positionOrName false .none (some tInt)].drop 1).length = 0 := by decide
/-- … and a receiver passed with `isInstanceMethod = false` is emitted as an ordinary parameter -/
example : ¬ Spec.WFReceiver (demo.take 2) false := by decide
example : (createParameterString env0 (demo.take 2) "" false {}).toOption.map (·.1)
    = some "\n    self,\n    `in`: Int\n" := by decide

end Examples

end StubGen.C06
