/-
C03 (analyser half) — "each public declaration of the analysed package appears … nothing public is dropped", as far
as the ANALYSER is concerned, plus the re-export bookkeeping C03/C04/C11 rest on.

 1. `module_imports_spec`     : the module record `enter_moduledef` pushes (imports, id, name)
 2. `addReexports_spec` …     : the re-export map after `_add_reexports` of a package `__init__`
 3. `getReexportedBy_spec_partial` …  : which modules re-export a declaration (`ReexportKeyMatches`), first-by-id, sorted
 4. `enum_members_recorded`, `nested_enum_dropped`
 5. `walk_visits`             : the walker as the sequence of visitor calls; what is visited per container
 6. non-vacuity examples

Helper lemmas: `Proofs/Reexports.lean` (prefix `w03_`).
-/
import StubGen.Proofs.Reexports
import StubGen.Theorems.C12

namespace StubGen.C03a
open StubGen

/-! ### 3. `_get_reexported_by` -/

/-- the keys looked up for a qualified name with segments `path`, round `i` (`i = 0 … n-1`):
    `path[:i+1]`, `path[n-(i+1):]` and `path[:-1][-(i+1):] ++ ".*"`, each joined with dots -/
abbrev fwdKey := w03_fwdKey
abbrev bwdKey := w03_bwdKey
abbrev wildKey := w03_wildKey

/-- all keys `_get_reexported_by(qname)` looks up, in look-up order -/
abbrev probeKeys := w03_probeKeys

/-- THE MATCHING CONDITION between a key of the re-export map and the qualified name of a declaration: the key is
    EQUAL to one of the strings built in some round `i < n` — a dotted PREFIX of the name (`fwdKey`), a dotted
    SUFFIX of the name (`bwdKey`), or a dotted suffix of the name without its last segment followed by `.*`
    (`wildKey`).  The code does dictionary look-ups: no `endswith`, no prefix test on characters. -/
abbrev ReexportKeyMatches (key qname : String) : Prop := w03_KeyMatches key qname

theorem reexportKeyMatches_iff (key qname : String) :
    ReexportKeyMatches key qname ↔
      ∃ i, i < (splitDot qname).length ∧
        (key = joinWith "." ((splitDot qname).take (i + 1)) ∨
         key = joinWith "." ((splitDot qname).drop ((splitDot qname).length - (i + 1))) ∨
         key = joinWith "." (((splitDot qname).take ((splitDot qname).length - 1)).drop
                 ((splitDot qname).length - 1 - min ((splitDot qname).length - 1) (i + 1))) ++ ".*") := Iff.rfl

theorem reexportKeyMatches_iff_probed (key qname : String) : ReexportKeyMatches key qname ↔ key ∈ probeKeys qname :=
  w03_keyMatches_iff_mem key qname

/-- the same condition read on the dotted segments of the name: the key is a non-empty dotted PREFIX of the name, a
    non-empty dotted SUFFIX of the name, or `<suffix of the name without its last segment>.*` (a non-empty suffix — or
    the empty one, key `.*`, when the name has a single segment) -/
theorem reexportKeyMatches_iff_segments (key qname : String) :
    ReexportKeyMatches key qname ↔
      (∃ a b, splitDot qname = a ++ b ∧ a ≠ [] ∧ key = joinWith "." a) ∨
      (∃ a b, splitDot qname = a ++ b ∧ b ≠ [] ∧ key = joinWith "." b) ∨
      (∃ a b l, splitDot qname = a ++ b ++ [l] ∧ (b ≠ [] ∨ a = []) ∧ key = joinWith "." b ++ ".*") :=
  w03_keyMatches_iff_segments key qname

/-- the module list stored under a key (the FIRST entry with that key; `[]` if there is none) -/
abbrev lookD := p08_lookD

/-- keep the first module per id, in order -/
abbrev firstById := w03_firstById

/-- 3a. EXACTLY: the look-ups of the probed keys are concatenated in look-up order and the first module per id is kept -/
theorem getReexportedBy_exact (s : VSt) (qname : String) :
    getReexportedBy s qname = firstById ((probeKeys qname).flatMap (lookD s.api.reexportMap)) :=
  w03_getReexportedBy_eq s qname

/-- 3b. membership, without any hypothesis on the map: `m` is returned iff it is the first module with its id among
    the concatenated look-ups -/
theorem getReexportedBy_first (s : VSt) (qname : String) (m : ModRef) :
    m ∈ getReexportedBy s qname ↔
      ((probeKeys qname).flatMap (lookD s.api.reexportMap)).find? (fun x => x.id == m.id) = some m := by
  rw [getReexportedBy_exact]
  exact w03_mem_firstById m _

/-- 3c. soundness, without any hypothesis on the map -/
theorem getReexportedBy_sound (s : VSt) (qname : String) (m : ModRef) (h : m ∈ getReexportedBy s qname) :
    ∃ key ms, (key, ms) ∈ s.api.reexportMap ∧ m ∈ ms ∧ ReexportKeyMatches key qname := by
  rw [getReexportedBy_first] at h
  have hm := List.mem_of_find?_eq_some h
  obtain ⟨key, hkey, hmk⟩ := List.mem_flatMap.1 hm
  obtain ⟨ms, h1, h2⟩ := p08_pairMem_of_mem_lookD hmk
  exact ⟨key, ms, h1, h2, (reexportKeyMatches_iff_probed key qname).2 hkey⟩

/-- 3d. THE SPECIFICATION (`_partial`: the iff without hypotheses is FALSE — two records with one id under two
    matching keys, or one key twice in the map: see the two counterexamples in section 6; `getReexportedBy_first` is
    the exact unconditional statement).  For a map with pairwise different keys in which a module id determines the module
    record (both hold for every map the analyser builds from `__init__` modules with pairwise different ids:
    `C08.reexport_map_wf`, `reexport_map_ids_determine` below): `m` re-exports the declaration `qname` iff it is
    stored under a key that matches `qname`. -/
theorem getReexportedBy_spec_partial (s : VSt) (qname : String) (m : ModRef)
    (hkeys : (s.api.reexportMap.map (·.1)).Nodup)
    (hid : ∀ kv ∈ s.api.reexportMap, ∀ kv' ∈ s.api.reexportMap, ∀ a ∈ kv.2, ∀ b ∈ kv'.2, a.id = b.id → a = b) :
    m ∈ getReexportedBy s qname ↔
      ∃ key ms, (key, ms) ∈ s.api.reexportMap ∧ m ∈ ms ∧ ReexportKeyMatches key qname := by
  refine ⟨getReexportedBy_sound s qname m, ?_⟩
  rintro ⟨key, ms, h1, h2, h3⟩
  rw [getReexportedBy_first]
  refine w03_find?_eq_some_of_unique ?_ ?_
  · refine List.mem_flatMap.2 ⟨key, (reexportKeyMatches_iff_probed key qname).1 h3, ?_⟩
    show m ∈ p08_lookD _ key
    rw [p08_mem_lookD_of_pairMem hkeys h1]
    exact h2
  · intro x hx hxm
    obtain ⟨key', _, hxk⟩ := List.mem_flatMap.1 hx
    obtain ⟨ms', h1', h2'⟩ := p08_pairMem_of_mem_lookD hxk
    exact hid (key', ms') h1' (key, ms) h1 x h2' m h2 hxm

/-- 3e. on the level of module IDS no hypothesis on the module records is needed -/
theorem getReexportedBy_ids (s : VSt) (qname : String) (i : String)
    (hkeys : (s.api.reexportMap.map (·.1)).Nodup) :
    i ∈ (getReexportedBy s qname).map (·.id) ↔
      ∃ key ms m, (key, ms) ∈ s.api.reexportMap ∧ m ∈ ms ∧ m.id = i ∧ ReexportKeyMatches key qname := by
  rw [getReexportedBy_exact]
  show i ∈ (w03_firstById _).map (·.id) ↔ _
  rw [w03_ids_firstById]
  simp only [List.mem_map, List.mem_flatMap]
  constructor
  · rintro ⟨m, ⟨key, hkey, hmk⟩, rfl⟩
    obtain ⟨ms, h1, h2⟩ := p08_pairMem_of_mem_lookD hmk
    exact ⟨key, ms, m, h1, h2, rfl, (reexportKeyMatches_iff_probed key qname).2 hkey⟩
  · rintro ⟨key, ms, m, h1, h2, rfl, h3⟩
    refine ⟨m, ⟨key, (reexportKeyMatches_iff_probed key qname).1 h3, ?_⟩, rfl⟩
    show m ∈ p08_lookD _ key
    rw [p08_mem_lookD_of_pairMem hkeys h1]
    exact h2

/-- 3f. the result has pairwise distinct ids (no hypothesis) -/
theorem getReexportedBy_ids_nodup (s : VSt) (qname : String) : ((getReexportedBy s qname).map (·.id)).Nodup := by
  rw [getReexportedBy_exact]
  exact w03_firstById_nodup _

/-- 3g. `reexported_by` as the visitor stores it (`sortModRefs (getReexportedBy …)`) holds the same modules, strictly
    increasing in the id -/
theorem reexportedBy_sorted (s : VSt) (qname : String) :
    (sortModRefs (getReexportedBy s qname)).Pairwise (fun a b => a.id < b.id) ∧
    (∀ m, m ∈ sortModRefs (getReexportedBy s qname) ↔ m ∈ getReexportedBy s qname) :=
  ⟨w03_sortModRefs_strict (getReexportedBy_ids_nodup s qname), fun _ => (w03_sortModRefs_perm _).mem_iff⟩

/-- 3h. what the visitor stores: the function record pushed by `enter_funcdef` and the class record pushed by
    `enter_classdef` carry `reexported_by = sorted(_get_reexported_by(<full name>))`, computed on the re-export map
    of the state in which the definition is entered -/
theorem function_reexportedBy_spec {env : AEnv} {f : FuncDef} {s s' : VSt} {u : Unit}
    (h : enterFuncdef env f s = .ok (u, s')) :
    ∃ fn, s'.stack = .fn fn :: s.stack ∧ fn.reexportedBy = sortModRefs (getReexportedBy s f.fullname) ∧
      fn.reexportedBy.Pairwise (fun a b => a.id < b.id) ∧
      ∀ m, m ∈ fn.reexportedBy ↔ m ∈ getReexportedBy s f.fullname := by
  obtain ⟨fn, h1, h2⟩ := w03_enterFuncdef_reexportedBy h
  refine ⟨fn, h1, h2, ?_, ?_⟩ <;> rw [h2]
  · exact (reexportedBy_sorted s f.fullname).1
  · exact (reexportedBy_sorted s f.fullname).2

theorem class_reexportedBy_spec {env : AEnv} {name fullname : String} {bases removed : List BaseExpr}
    {defs : List Def} {s s' : VSt} {u : Unit} (h : enterClassdef env name fullname bases removed defs s = .ok (u, s')) :
    ∃ c, s'.stack = .cls c :: s.stack ∧ c.reexportedBy = sortModRefs (getReexportedBy s fullname) ∧
      c.reexportedBy.Pairwise (fun a b => a.id < b.id) ∧
      ∀ m, m ∈ c.reexportedBy ↔ m ∈ getReexportedBy s fullname := by
  obtain ⟨c, h1, h2⟩ := w03_enterClassdef_reexportedBy h
  refine ⟨c, h1, h2, ?_, ?_⟩ <;> rw [h2]
  · exact (reexportedBy_sorted s fullname).1
  · exact (reexportedBy_sorted s fullname).2

/-- `_get_reexported_by` reads nothing but the re-export map -/
theorem getReexportedBy_congr {s t : VSt} (h : t.api.reexportMap = s.api.reexportMap) (qname : String) :
    getReexportedBy t qname = getReexportedBy s qname := by
  rw [getReexportedBy_exact, getReexportedBy_exact, h]

/-- `sortModRefs` alone: a permutation, non-decreasing in the id -/
theorem sortModRefs_spec (l : List ModRef) :
    (sortModRefs l).Perm l ∧ (sortModRefs l).Pairwise (fun a b => a.id ≤ b.id) :=
  ⟨w03_sortModRefs_perm l, w03_sortModRefs_sorted l⟩

/-! ### 2. `_add_reexports` -/

/-- THE KEYS a package module adds itself to: the QUALIFIED NAME of every qualified import (the alias plays no
    role) and `<module>.*` for every wildcard import -/
abbrev importKeys := p08_importKeys

theorem importKeys_eq (m : Module) :
    importKeys m = m.qualifiedImports.map (·.qualifiedName) ++ m.wildcardImports.map (· ++ ".*") := rfl

/-- what happens to an existing entry `(key, modules)` -/
abbrev updEntry := w03_upd

theorem updEntry_eq (r : ModRef) (ks : List String) (kv : String × List ModRef) :
    updEntry r ks kv = if kv.1 ∈ ks then (kv.1, addToSetById kv.2 r) else kv := rfl

/-- first occurrences of the keys of `ks` that are not in `seen` -/
abbrev freshKeys := w03_fresh

theorem mem_freshKeys (k : String) (ks seen : List String) : k ∈ freshKeys seen ks ↔ k ∈ ks ∧ k ∉ seen :=
  w03_mem_fresh k ks seen

theorem freshKeys_nodup (ks seen : List String) : (freshKeys seen ks).Nodup := w03_fresh_nodup ks seen

/-- 2a. EXACT description of the map after `_add_reexports(m)`: every existing entry stays at its place, its module
    set takes `m` (set semantics BY MODULE ID: `addToSetById`) iff its key is an import key of `m`; the import keys
    that were not there are appended, in import order, each with the set `{m}`.  No other table changes. -/
theorem addReexports_spec (api : AnaResult) (m : Module) :
    (addReexports api m).reexportMap =
      api.reexportMap.map (updEntry m.ref (importKeys m)) ++
        (freshKeys (api.reexportMap.map (·.1)) (importKeys m)).map (fun k => (k, [m.ref])) ∧
    (addReexports api m).modules = api.modules ∧ (addReexports api m).classes = api.classes ∧
    (addReexports api m).functions = api.functions ∧ (addReexports api m).results = api.results ∧
    (addReexports api m).enums = api.enums ∧ (addReexports api m).enumInstances = api.enumInstances ∧
    (addReexports api m).attributes = api.attributes ∧ (addReexports api m).parameters = api.parameters :=
  ⟨w03_addReexports_eq api m, w03_addReexports_others api m⟩

/-- 2b. the keys afterwards -/
theorem addReexports_keys (api : AnaResult) (m : Module) :
    (addReexports api m).reexportMap.map (·.1) =
      api.reexportMap.map (·.1) ++ freshKeys (api.reexportMap.map (·.1)) (importKeys m) ∧
    ∀ k, k ∈ (addReexports api m).reexportMap.map (·.1) ↔ k ∈ api.reexportMap.map (·.1) ∨ k ∈ importKeys m := by
  refine ⟨w03_addReexports_keys api m, fun k => ?_⟩
  rw [w03_addReexports_keys, List.mem_append, w03_mem_fresh]
  constructor
  · rintro (h | h)
    · exact Or.inl h
    · exact Or.inr h.1
  · rintro (h | h)
    · exact Or.inl h
    · by_cases h' : k ∈ api.reexportMap.map (·.1)
      · exact Or.inl h'
      · exact Or.inr ⟨h, h'⟩

/-- 2c. the contents afterwards, key by key (look-up = first entry with the key) -/
theorem addReexports_lookup (api : AnaResult) (m : Module) (k : String) :
    lookD (addReexports api m).reexportMap k =
      if k ∈ importKeys m then addToSetById (lookD api.reexportMap k) m.ref else lookD api.reexportMap k :=
  p08_lookD_addReexports api m k

/-- `set.add` by id -/
theorem addToSetById_spec (l : List ModRef) (r : ModRef) :
    addToSetById l r = if r.id ∈ l.map (·.id) then l else l ++ [r] := by
  rw [p08_addToSetById_eq]
  by_cases h : p08_hasId l r.id = true
  · rw [if_pos h, if_pos ((p08_hasId_iff l r.id).1 h)]
  · rw [if_neg h, if_neg (fun h' => h ((p08_hasId_iff l r.id).2 h'))]

/-- 2d. adding is idempotent — exact equality of maps -/
theorem addReexports_idempotent (api : AnaResult) (m : Module) :
    (addReexports (addReexports api m) m).reexportMap = (addReexports api m).reexportMap :=
  w03_addReexports_idem api m

/-- 2e. adding only adds: the old entries stay where they are, with their key and with their modules in the same
    order (the new module may be appended at the end); what is appended to the map are entries `(k, [m])` for import
    keys `k` of `m` that were no keys before -/
theorem addReexports_only_adds (api : AnaResult) (m : Module) :
    ∃ old' added, (addReexports api m).reexportMap = old' ++ added ∧
      List.Forall₂ (fun kv kv' => kv'.1 = kv.1 ∧ (kv'.2 = kv.2 ∨ kv'.2 = kv.2 ++ [m.ref])) api.reexportMap old' ∧
      ∀ kv ∈ added, kv.2 = [m.ref] ∧ kv.1 ∈ importKeys m ∧ kv.1 ∉ api.reexportMap.map (·.1) := by
  obtain ⟨added, h1, h2, h3⟩ := w03_addReexports_only_adds api m
  refine ⟨_, added, h1, ?_, h2⟩
  rw [List.forall₂_map_right_iff]
  exact List.forall₂_same.2 (fun kv _ => h3 kv)

/-- 2f. well-formedness (distinct keys, distinct ids per set) is kept; with C08: commutation up to the order of the
    keys (`C08.reexport_map_add_commutes`) -/
theorem addReexports_wf (api : AnaResult) (m : Module) (w : p08_RmWf api.reexportMap) :
    p08_RmWf (addReexports api m).reexportMap := p08_wf_addReexports api m w

/-- 2g. for `__init__` modules with pairwise different ids, the two hypotheses of `getReexportedBy_spec_partial` hold for the
    map the packages phase builds -/
theorem reexport_map_ids_determine (ms : List Module) (hnd : (ms.map (·.id)).Nodup) :
    ((ms.foldl addReexports {}).reexportMap.map (·.1)).Nodup ∧
    ∀ kv ∈ (ms.foldl addReexports {}).reexportMap, ∀ kv' ∈ (ms.foldl addReexports {}).reexportMap,
      ∀ a ∈ kv.2, ∀ b ∈ kv'.2, a.id = b.id → a = b := by
  refine ⟨?_, w03_ids_determine ms hnd⟩
  have : ∀ (api : AnaResult), p08_RmWf api.reexportMap → p08_RmWf (ms.foldl addReexports api).reexportMap := by
    induction ms with
    | nil => intro api w; exact w
    | cons m ms ih =>
      intro api w
      rw [List.map_cons, List.nodup_cons] at hnd
      exact ih hnd.2 _ (p08_wf_addReexports api m w)
  exact (this {} p08_wf_nil).keys

/-! ### 1. `enter_moduledef` -/

/-- HOW THE MODEL KNOWS A PACKAGE: the file's PATH ends in the characters `__init__.py` -/
abbrev isPackageFile := w03_isPackageFile

theorem isPackageFile_eq (m : SrcModule) : isPackageFile m = pyEndsWith m.path "__init__.py" := rfl

/-- the qualified imports of one import statement -/
abbrev importEntries := w03_importEntries

/-- `import a as b` ↦ `(a, b)`; `from x import n as k` ↦ `(x.n, k)`, or `(n, k)` when `x` is empty (`from . import n`);
    `from x import *` contributes no qualified import -/
theorem importEntries_spec :
    (∀ ids, importEntries (.import_ ids) = ids.map (fun p => (⟨p.1, p.2⟩ : QImport))) ∧
    (∀ x names, importEntries (.from_ x names) =
        names.map (fun p => (⟨if x = "" then p.1 else x ++ "." ++ p.1, p.2⟩ : QImport))) ∧
    (∀ x, importEntries (.all x) = []) :=
  ⟨fun _ => rfl, w03_importEntries_from, fun _ => rfl⟩

/-- the wildcard import of one import statement -/
abbrev wildcardOf := w03_wildcardOf

theorem wildcardOf_spec :
    (∀ x, wildcardOf (.all x) = some x) ∧ (∀ ids, wildcardOf (.import_ ids) = none) ∧
    (∀ x names, wildcardOf (.from_ x names) = none) := ⟨fun _ => rfl, fun _ => rfl, fun _ _ => rfl⟩

/-- the `Module` record of a source file -/
abbrev moduleRecord := w03_moduleRecord

/-- 1. `enter_moduledef` never fails; it pushes the module record: qualified imports = one entry per imported name, in
    source order; wildcard imports = one per `from x import *`; id = the qualified name with dots replaced by `/`;
    name = `__init__` if the file is a package file, else the module's name; docstring = the first string expression
    statement; no members yet.  It records the file's names and — for a package file — adds the module to the
    re-export map.  Nothing else changes. -/
theorem module_imports_spec (m : SrcModule) (s : VSt) :
    ∃ s', enterModuledef m s = .ok ((), s') ∧ ∃ md, s'.stack = .module md :: s.stack ∧
      md.qualifiedImports = m.imports.flatMap importEntries ∧
      md.wildcardImports = m.imports.filterMap wildcardOf ∧
      md.id = replaceChar m.fullname '.' "/" ∧
      md.name = (if isPackageFile m then "__init__" else m.name) ∧
      md.docstring = firstModuleDoc m.defs ∧ md.classes = [] ∧ md.functions = [] ∧ md.enums = [] ∧
      md = moduleRecord m ∧
      s'.api = (if isPackageFile m then addReexports s.api md else s.api) ∧
      s'.fileFullname = m.fullname ∧ s'.fileName = m.name ∧
      s'.typeVars = s.typeVars ∧ s'.doc = s.doc ∧ s'.warnings = s.warnings ∧ s'.seenNone = s.seenNone :=
  ⟨_, w03_enterModuledef_eq m s, _, rfl, rfl, rfl, rfl, rfl, rfl, rfl, rfl, rfl, rfl, rfl, rfl, rfl, rfl, rfl, rfl, rfl⟩

/-- FINDING: the package test is a test on the characters of the path, so a plain module file `pkg/my__init__.py` is
    taken for a package: its record is named `__init__` and its imports go into the re-export map -/
example :
    let m : SrcModule := { path := "pkg/my__init__.py", fullname := "pkg.my__init__", name := "my__init__",
                           imports := [.from_ "pkg.impl" [("f", none)]], defs := [] }
    isPackageFile m = true ∧ (moduleRecord m).name = "__init__" ∧
      (addReexports {} (moduleRecord m)).reexportMap.map (·.1) = ["pkg.impl.f"] := by decide +kernel

/-- the re-export map of a whole analysis: the package files, in analysis order, each added with `_add_reexports`;
    nothing else ever writes to the map -/
theorem reexport_map_of_analysis {env : AEnv} {root : GNode} {mods : List SrcModule} {r : AnaResult}
    {warnings : List String} (h : analyze env root mods = .ok (r, warnings)) :
    r.reexportMap = (((mods.filter isPackageFile).map moduleRecord).foldl addReexports {}).reexportMap := by
  rw [← w03_foldl_addPkg_eq]
  exact (w03_analyze_enums h).2.1

/-- hence the map of every successful analysis is well-formed (distinct keys, distinct ids per set) -/
theorem reexport_map_of_analysis_wf {env : AEnv} {root : GNode} {mods : List SrcModule} {r : AnaResult}
    {warnings : List String} (h : analyze env root mods = .ok (r, warnings)) : p08_RmWf r.reexportMap := by
  rw [reexport_map_of_analysis h]
  generalize (mods.filter isPackageFile).map moduleRecord = ms
  have : ∀ (api : AnaResult), p08_RmWf api.reexportMap → p08_RmWf (ms.foldl addReexports api).reexportMap := by
    induction ms with
    | nil => intro api w; exact w
    | cons m ms ih => intro api w; exact ih _ (p08_wf_addReexports api m w)
  exact this {} p08_wf_nil

/-! ### 4. enums -/

/-- the id of a module: its qualified name with `/` for `.` -/
abbrev modId := w03_modId

/-- the names an assignment target contributes: a name or member target its name, a tuple target the names of its
    name/member items (nested tuples and other items contribute nothing) -/
abbrev targetNames := w03_targetNames

/-- the member names of an enum body IN SOURCE ORDER: for every assignment statement of the body, in order, the
    names of its targets in order.  Everything else in the body (methods, nested classes, …) contributes nothing. -/
abbrev enumMemberNames := w03_enumBodyNames

theorem enumMemberNames_spec :
    enumMemberNames [] = [] ∧
    (∀ a ds, enumMemberNames (.assign a :: ds) = a.lvalues.flatMap targetNames ++ enumMemberNames ds) ∧
    (∀ d ds, (∀ a, d ≠ .assign a) → enumMemberNames (d :: ds) = enumMemberNames ds) :=
  ⟨rfl, fun _ _ => rfl, fun _ ds hd => w03_enumBodyNames_skip ds hd⟩

/-- `(id, name, member names)` of every enum class DIRECTLY BELOW A MODULE, in analysis order -/
abbrev srcEnums := w03_srcEnums

/-- an enum record matches a source entry: id, name, and the instances `⟨id/<member>, <member>⟩` in source order -/
abbrev EnumMatch := w03_EnumMatch

theorem enumMatch_iff (p : String × String × List String) (e : Enum) :
    EnumMatch p e ↔ e.id = p.1 ∧ e.name = p.2.1 ∧
      e.instances = p.2.2.map (fun n => ({ id := e.id ++ "/" ++ n, name := n } : EnumInstance)) := Iff.rfl

theorem mem_srcEnums_iff (mods : List SrcModule) (p : String × String × List String) :
    p ∈ srcEnums mods ↔ ∃ m ∈ mods, ∃ name fullname bases removed defs,
      Def.cls name fullname bases removed defs ∈ m.defs ∧ isEnumClass bases = true ∧
      p = (modId m ++ "/" ++ name, name, enumMemberNames defs) := by
  constructor
  · exact w03_srcEnums_inv
  · rintro ⟨m, hm, name, fullname, bases, removed, defs, hc, he, rfl⟩
    exact w03_toplevel_enum_mem hm hc he

/-- 4a. THE `enums` TABLE, EXACTLY: the module-level enum classes of the analysed files are stored one after the
    other with `table[id] = enum` (a later enum with the same id overwrites an earlier one in place); each stored
    record matches its class.  Nothing else is ever stored in `enums`. -/
theorem enums_table_exact {env : AEnv} {root : GNode} {mods : List SrcModule} {r : AnaResult} {warnings : List String}
    (h : analyze env root mods = .ok (r, warnings)) :
    ∃ es, List.Forall₂ EnumMatch (srcEnums mods) es ∧ r.enums = es.foldl (dictSet (·.id)) [] :=
  (w03_analyze_enums h).1

/-- 4b. general form: the LAST source entry with a given id is in the table -/
theorem enum_recorded_last {env : AEnv} {root : GNode} {mods : List SrcModule} {r : AnaResult} {warnings : List String}
    (h : analyze env root mods = .ok (r, warnings)) {l1 l2 : List (String × String × List String)}
    {p : String × String × List String} (hsplit : srcEnums mods = l1 ++ p :: l2) (hlast : ∀ q ∈ l2, q.1 ≠ p.1) :
    ∃ e ∈ r.enums, EnumMatch p e :=
  w03_analyze_enum_last h hsplit hlast

/-- 4c. `enum_members_recorded` (the unconditional statement is FALSE: `enum_overwritten_counterexample` below): a module-level enum class (`isEnumClass`: a base with the full name `enum.Enum` or
    `enum.IntEnum`) whose id is not given to a DIFFERENT enum class of the analysed files has an entry in `r.enums`:
    id `<module id>/<name>`, the instances' names are the assignment targets of the class body IN SOURCE ORDER (tuple
    targets contribute each name), each instance has the id `<enum id>/<name>` and an entry in `r.enumInstances`. -/
theorem enum_members_recorded_partial {env : AEnv} {root : GNode} {mods : List SrcModule} {r : AnaResult} {warnings : List String}
    (h : analyze env root mods = .ok (r, warnings)) {m : SrcModule} {name fullname : String}
    {bases removed : List BaseExpr} {defs : List Def} (hm : m ∈ mods)
    (hc : Def.cls name fullname bases removed defs ∈ m.defs) (he : isEnumClass bases = true)
    (huniq : ∀ p ∈ srcEnums mods, p.1 = modId m ++ "/" ++ name →
      p = (modId m ++ "/" ++ name, name, enumMemberNames defs)) :
    ∃ e ∈ r.enums, e.id = modId m ++ "/" ++ name ∧ e.name = name ∧
      e.instances.map (·.name) = enumMemberNames defs ∧
      (∀ i ∈ e.instances, i.id = e.id ++ "/" ++ i.name) ∧
      (∀ i ∈ e.instances, ∃ i' ∈ r.enumInstances, i'.id = i.id) := by
  have hmem := w03_toplevel_enum_mem hm hc he
  obtain ⟨l1, p, l2, hsplit, hp, hlast⟩ :=
    w03_last_occurrence (fun q : String × String × List String => q.1) _ _ ⟨_, hmem, rfl⟩
  have hpm : p ∈ w03_srcEnums mods := by rw [hsplit]; simp
  have hpe := huniq p hpm hp
  subst hpe
  obtain ⟨e, hemem, hid, hname, hinst⟩ := w03_analyze_enum_last h hsplit hlast
  dsimp only at hid hname hinst
  refine ⟨e, hemem, hid, hname, ?_, ?_, ?_⟩
  · rw [hinst, List.map_map]
    exact List.map_id _
  · intro i hi
    rw [hinst] at hi
    obtain ⟨n, _, rfl⟩ := List.mem_map.1 hi
    rfl
  · intro i hi
    rw [hinst] at hi
    obtain ⟨n, hn, rfl⟩ := List.mem_map.1 hi
    have := (w03_analyze_enums h).2.2 _ (w03_toplevel_enum_insts_mem hm hc he hn)
    obtain ⟨i', hi', he'⟩ := List.mem_map.1 this
    refine ⟨i', hi', ?_⟩
    rw [he']
    show _ = e.id ++ "/" ++ n
    rw [hid]

/-- 4d. every entry of `r.enums` is a module-level enum class of an analysed file -/
theorem enums_only_toplevel {env : AEnv} {root : GNode} {mods : List SrcModule} {r : AnaResult} {warnings : List String}
    (h : analyze env root mods = .ok (r, warnings)) {e : Enum} (he : e ∈ r.enums) :
    ∃ m ∈ mods, ∃ name fullname bases removed defs, Def.cls name fullname bases removed defs ∈ m.defs ∧
      isEnumClass bases = true ∧ e.id = modId m ++ "/" ++ name ∧ e.name = name ∧
      e.instances.map (·.name) = enumMemberNames defs := by
  obtain ⟨es, hm, hr⟩ := (w03_analyze_enums h).1
  rw [hr] at he
  rcases k12_mem_foldl_dictSet (·.id) es he with he | he
  · obtain ⟨p, hp, hpe⟩ := w03_forall₂_mem_right hm he
    obtain ⟨m, hmm, name, fullname, bases, removed, defs, hc, hen, rfl⟩ := w03_srcEnums_inv hp
    obtain ⟨hid, hname, hinst⟩ := hpe
    refine ⟨m, hmm, name, fullname, bases, removed, defs, hc, hen, hid, hname, ?_⟩
    dsimp only at hinst
    rw [hinst, List.map_map]
    exact List.map_id _
  · simp at he

/-- 4e. every enum member the walk meets — in an enum class below a module OR below a class, at any depth — gets an
    entry in `r.enumInstances` (`srcInstIds`: the ids, by structural recursion over the source) -/
abbrev srcInstIds := w03_srcInsts

theorem enum_instances_recorded {env : AEnv} {root : GNode} {mods : List SrcModule} {r : AnaResult}
    {warnings : List String} (h : analyze env root mods = .ok (r, warnings)) {i : String} (hi : i ∈ srcInstIds mods) :
    ∃ x ∈ r.enumInstances, x.id = i := by
  obtain ⟨x, hx, he⟩ := List.mem_map.1 ((w03_analyze_enums h).2.2 i hi)
  exact ⟨x, hx, he⟩

/-- 4f. THE KNOWN GAP, `nested_enum_dropped` (without `hfresh` FALSE: `nested_enum_id_clash_counterexample`): an enum class nested in a (non-enum) module-level class is entered and
    left, but `leave_enumdef` stores an enum only below a module: unless a module-level enum of the analysed files
    happens to get the same id, NO entry with the id `<module id>/<class>/<enum>` appears in `r.enums`, while
    every member of the nested enum appears in `r.enumInstances` (an instance without owner). -/
theorem nested_enum_dropped_partial {env : AEnv} {root : GNode} {mods : List SrcModule} {r : AnaResult} {warnings : List String}
    (h : analyze env root mods = .ok (r, warnings)) {m : SrcModule} {cname cfull : String}
    {cbases cremoved : List BaseExpr} {cdefs : List Def} {ename efull : String} {ebases eremoved : List BaseExpr}
    {edefs : List Def} (hm : m ∈ mods) (hc : Def.cls cname cfull cbases cremoved cdefs ∈ m.defs)
    (hce : isEnumClass cbases = false) (he : Def.cls ename efull ebases eremoved edefs ∈ cdefs)
    (hee : isEnumClass ebases = true)
    (hfresh : ∀ p ∈ srcEnums mods, p.1 ≠ modId m ++ "/" ++ cname ++ "/" ++ ename) :
    (∀ e ∈ r.enums, e.id ≠ modId m ++ "/" ++ cname ++ "/" ++ ename) ∧
    (∀ n ∈ enumMemberNames edefs, ∃ i ∈ r.enumInstances, i.id = modId m ++ "/" ++ cname ++ "/" ++ ename ++ "/" ++ n) := by
  constructor
  · intro e hemem hid
    obtain ⟨es, hm', hr⟩ := (w03_analyze_enums h).1
    rw [hr] at hemem
    rcases k12_mem_foldl_dictSet (·.id) es hemem with hemem | hemem
    · obtain ⟨p, hp, hpe⟩ := w03_forall₂_mem_right hm' hemem
      exact hfresh p hp (hpe.1.symm.trans hid)
    · simp at hemem
  · intro n hn
    exact enum_instances_recorded h (w03_nested_enum_insts_mem hm hc hce he hee hn)

/-- the instance record of a member -/
abbrev mkInstance := w03_mkInst

theorem mkInstance_eq (enumId n : String) : mkInstance enumId n = { id := enumId ++ "/" ++ n, name := n } := rfl

/-- 4g. what IS visited inside an enum body: only its assignment statements.  The walk of the body of an enum record
    `en` on top of the stack appends the instances `mkInstance en.id <member>` to the record, writes them to the
    `enumInstances` table, and changes nothing else of the tables; functions, classes and every other statement of
    the body are skipped (the result does not depend on them). -/
theorem enum_body_walk (env : AEnv) (defs : List Def) {s s' : VSt} {u : Unit} {en : Enum} {rest : List Frame}
    (h : walkDefs env .enum defs s = .ok (u, s')) (hstk : s.stack = .enum en :: rest) :
    s'.stack = .enum { en with instances := en.instances ++ (enumMemberNames defs).map (mkInstance en.id) } :: rest ∧
    s'.api = { s.api with
      enumInstances := ((enumMemberNames defs).map (mkInstance en.id)).foldl (dictSet (·.id)) s.api.enumInstances } :=
  w03_walkDefs_enum env defs h hstk

/-! ### 5. walker completeness per container -/

/-- the calls the walker makes on the visitor -/
abbrev Call := w03_Call

/-- one call, as a computation of the analyser monad -/
abbrev execCall := w03_exec

theorem execCall_eq (env : AEnv) :
    (∀ f, execCall env (.enterFunc f) = enterFuncdef env f) ∧ execCall env .leaveFunc = leaveFuncdef ∧
    (∀ n q b r d, execCall env (.enterClass n q b r d) = enterClassdef env n q b r d) ∧
    execCall env .leaveClass = leaveClassdef ∧
    (∀ n q d, execCall env (.enterEnum n q d) = enterEnumdef env n q d) ∧ execCall env .leaveEnum = leaveEnumdef ∧
    (∀ a, execCall env (.enterAssign a) = enterAssignment env a) ∧ execCall env .leaveAssign = leaveAssignment ∧
    execCall env .visitNone = walkNone :=
  ⟨fun _ => rfl, rfl, fun _ _ _ _ _ => rfl, rfl, fun _ _ _ => rfl, rfl, fun _ => rfl, rfl, rfl⟩

/-- a list of calls, one after the other -/
abbrev runCalls := w03_run

theorem runCalls_eq (env : AEnv) :
    runCalls env [] = pure () ∧ ∀ c cs, runCalls env (c :: cs) = (do execCall env c; runCalls env cs) :=
  ⟨rfl, fun _ _ => rfl⟩

/-- the calls for a list of definitions in a mode (`module`: the body of a file, `cls`: a class body, `enum`: an enum
    body), by structural recursion over the source -/
abbrev callsOf := w03_defsCalls

/-- `(kind, name)` of an `enter_*` call (`leave_*` calls and the `None` node have none); an assignment is named by its
    target names, comma-separated -/
abbrev enterLabel := w03_enterLabel

/-- an assignment statement is named by its target names, comma-separated: `("assignment", "B,C")` -/
abbrev assignLabel := w03_assignLabel

theorem assignLabel_eq (a : Assignment) :
    assignLabel a = ("assignment", joinWith "," (a.lvalues.flatMap targetNames)) := rfl

/-- `(kind, name)` of the definitions the walker ENTERS for one definition in a given mode, in order -/
abbrev visited := w03_visited

/-- a function definition: the function, then — for a constructor only — the assignment statements at the top level of
    its body (`initAssignments`) -/
abbrev visitedFunc := w03_visitedFunc

/-- what is visited, constructor by constructor.  An overloaded function WITH an implementation is visited (as its
    implementation) at module level as well as in a class body.  NOT visited: every definition in an enum body except
    assignments; module-level assignments; an overload without implementation (the node `None`: no `enter` call, the
    walker only marks `None` as seen, see `overload_without_implementation`); string expression statements; every other
    statement (`Def.other`: imports, `if`, `try`, expressions, …); the bodies of functions other than `__init__`, and of
    `__init__` everything but its top-level assignment statements. -/
theorem visited_spec (mode : WalkMode) :
    (∀ f, visited mode (.func f) = if mode == .enum then [] else visitedFunc f) ∧
    (∀ f, visited mode (.decorator f) = if mode == .enum then [] else visitedFunc f) ∧
    (∀ impl, visited mode (.overloaded impl) =
      if mode == .enum then [] else (match impl with | some f => visitedFunc f | none => [])) ∧
    (∀ name fullname bases removed defs, visited mode (.cls name fullname bases removed defs) =
      if mode == .enum then []
      else if isEnumClass bases then ("enum", name) :: defs.flatMap (visited .enum)
      else ("class", name) :: defs.flatMap (visited .cls)) ∧
    (∀ a, visited mode (.assign a) = if mode == .module then [] else [assignLabel a]) ∧
    (∀ raw cleaned, visited mode (.docExpr raw cleaned) = []) ∧
    (∀ k, visited mode (.other k) = []) ∧
    (∀ f, visitedFunc f = ("function", f.name) ::
      (if f.name == "__init__" then (initAssignments f.body).map assignLabel else [])) := by
  refine ⟨fun f => by rw [visited, w03_visited], fun f => by rw [visited, w03_visited],
    fun impl => by cases impl <;> rw [visited, w03_visited], fun name fullname bases removed defs => ?_,
    fun a => by rw [visited, w03_visited], fun _ _ => by rw [visited, w03_visited], fun _ => by rw [visited, w03_visited],
    fun _ => rfl⟩
  rw [visited, w03_visited, w03_visitedDefs_eq_flatMap, w03_visitedDefs_eq_flatMap]

/-- 5a. `walk_visits`: THE WALK OF A BODY IS — as a computation, whether it succeeds or fails — the sequence of visitor
    calls `callsOf mode defs`, and the `enter_*` calls of that sequence are exactly `defs.flatMap (visited mode)`, in
    order.  So nothing the source defines at module or class level is skipped except the forms named in
    `visited_spec`. -/
theorem walk_visits (env : AEnv) (mode : WalkMode) (defs : List Def) :
    walkDefs env mode defs = runCalls env (callsOf mode defs) ∧
    (callsOf mode defs).filterMap enterLabel = defs.flatMap (visited mode) :=
  ⟨w03_walkDefs_eq env mode defs, by rw [← w03_visitedDefs_eq_flatMap]; exact w03_labels_defs mode defs⟩

/-- 5b. a whole file -/
theorem walkModule_is_call_sequence (env : AEnv) (m : SrcModule) :
    walkModule env m = (do
      modify fun s => { s with seenNone := false }
      enterModuledef m
      runCalls env (callsOf .module m.defs)
      leaveModuledef) := by
  unfold walkModule
  rw [w03_walkDefs_eq]

/-- the names of the functions among visited definitions -/
abbrev functionNames := w03_functionNames

/-- 5c. the semantic side (with the transition system of C12): a SUCCESSFUL walk of a body directly below a frame of
    the matching kind is a sequence of `k12_Step`s that writes to the `functions` table exactly the visited function
    definitions, in order, with their names (and flags: `C12.flags_copied`), and to the `classes` table the visited
    non-enum classes -/
theorem walk_visits_functions {env : AEnv} {mode : WalkMode} {defs : List Def} {s s' : VSt} {u : Unit}
    (h : walkDefs env mode defs s = .ok (u, s')) (hne : s.stack ≠ []) (hmt : k12_ModeTop mode s.stack) :
    ∃ evs cs, k12_Steps s.api s.stack evs cs s'.api s'.stack ∧
      evs.map (·.name) = functionNames (defs.flatMap (visited mode)) ∧
      cs.map (·.id) = k12_defsClasses (k12_segs s.stack) mode defs := by
  obtain ⟨evs, cs, hsteps, _, hm, hcs⟩ := k12_walkDefs_ok env mode defs h hne hmt
  refine ⟨evs, cs, hsteps, ?_, hcs⟩
  have := w03_functionNames_defs (k12_segs s.stack) mode defs
  rw [w03_visitedDefs_eq_flatMap] at this
  rw [w03_evs_names hm]
  exact this.symm

/-- 5d. completeness, member by member: functions, decorated functions, implemented overloads, classes and enums of a
    module or class body and assignments of a class or enum body are all entered -/
theorem nothing_skipped {mode : WalkMode} {defs : List Def} {d : Def} (hd : d ∈ defs) :
    (∀ f, d = .func f ∨ d = .decorator f → mode ≠ .enum → ("function", f.name) ∈ defs.flatMap (visited mode)) ∧
    (∀ f, d = .overloaded (some f) → mode ≠ .enum → ("function", f.name) ∈ defs.flatMap (visited mode)) ∧
    (∀ name fullname bases removed ds, d = .cls name fullname bases removed ds → mode ≠ .enum →
      (if isEnumClass bases then ("enum", name) else ("class", name)) ∈ defs.flatMap (visited mode)) ∧
    (∀ a, d = .assign a → mode ≠ .module → assignLabel a ∈ defs.flatMap (visited mode)) := by
  have key : ∀ x, x ∈ visited mode d → x ∈ defs.flatMap (visited mode) := fun x hx => List.mem_flatMap.2 ⟨d, hd, hx⟩
  refine ⟨?_, ?_, ?_, ?_⟩
  · intro f hf hm
    have hm' : ¬ (mode == WalkMode.enum) = true := by simpa using hm
    apply key
    rcases hf with rfl | rfl <;> rw [visited, w03_visited, if_neg hm'] <;> exact List.mem_cons_self
  · intro f hf hm
    have hm' : ¬ (mode == WalkMode.enum) = true := by simpa using hm
    subst hf
    apply key
    rw [visited, w03_visited, if_neg hm']
    exact List.mem_cons_self
  · intro name fullname bases removed ds hdd hm
    have hm' : ¬ (mode == WalkMode.enum) = true := by simpa using hm
    subst hdd
    apply key
    rw [visited, w03_visited, if_neg hm']
    split <;> exact List.mem_cons_self
  · intro a ha hm
    have hm' : ¬ (mode == WalkMode.module) = true := by simpa using hm
    subst ha
    apply key
    rw [visited, w03_visited, if_neg hm']
    exact List.mem_singleton.2 rfl

/-- 5e. an overload WITHOUT implementation (`Def.overloaded none`, the node `None`) in a module or class body: the
    walker makes no `enter_*` call, its only call is `visitNone` = `walkNone`, which fails with an `AssertionError`
    ("Node visited twice") when `None` was seen before in this file and otherwise only sets the flag `seenNone` (the
    flag is reset at the start of every file, `walkModule_is_call_sequence`).  In an enum body nothing happens. -/
theorem overload_without_implementation (env : AEnv) (mode : WalkMode) :
    callsOf mode [.overloaded none] = (if mode == .enum then [] else [.visitNone]) ∧
    visited mode (.overloaded none) = [] ∧
    (∀ s : VSt, execCall env .visitNone s =
      if s.seenNone then .error .assertionError else .ok ((), { s with seenNone := true })) := by
  refine ⟨by cases mode <;> rfl, by cases mode <;> rfl, fun s => ?_⟩
  show walkNone s = _
  unfold walkNone
  show (if s.seenNone = true then (throwV .assertionError : V Unit) else set { s with seenNone := true }) s = _
  by_cases h : s.seenNone = true
  · rw [if_pos h, if_pos h]; rfl
  · rw [if_neg h, if_neg h]; rfl

/-! ### 6. non-vacuity -/

/-- `pkg/__init__.py` with the four re-export forms:
    `from pkg.mod import C` (name), `from pkg.mod import D as E` (alias), `from pkg.sub import *` (star),
    `from pkg import helpers` and `import pkg.tools as t` (module) -/
def exInit : SrcModule :=
  { path := "pkg/__init__.py", fullname := "pkg", name := "pkg",
    imports := [ .from_ "pkg.mod" [("C", none), ("D", some "E")], .all "pkg.sub", .from_ "pkg" [("helpers", none)],
                 .import_ [("pkg.tools", some "t")] ],
    defs := [ .docExpr "Package." "Package." ] }

/-- the module record: imports in source order; a package file is named `__init__` -/
example :
    ((moduleRecord exInit).id, (moduleRecord exInit).name, (moduleRecord exInit).docstring,
     (moduleRecord exInit).qualifiedImports, (moduleRecord exInit).wildcardImports) =
    ("pkg", "__init__", "Package.",
     [⟨"pkg.mod.C", none⟩, ⟨"pkg.mod.D", some "E"⟩, ⟨"pkg.helpers", none⟩, ⟨"pkg.tools", some "t"⟩], ["pkg.sub"]) := by
  decide +kernel

/-- the keys: qualified names (never the alias), wildcard keys last -/
example : (addReexports {} (moduleRecord exInit)).reexportMap.map (fun kv => (kv.1, kv.2.map (·.id))) =
    [("pkg.mod.C", ["pkg"]), ("pkg.mod.D", ["pkg"]), ("pkg.helpers", ["pkg"]), ("pkg.tools", ["pkg"]),
     ("pkg.sub.*", ["pkg"])] := by decide +kernel

def exState : VSt :=
  { doc := { root := { name := "pkg" }, style := .numpy }, api := addReexports {} (moduleRecord exInit) }

/-- name, alias, star, module (twice); a declaration of a module that is not imported is re-exported by nobody -/
example :
    (getReexportedBy exState "pkg.mod.C").map (·.id) = ["pkg"] ∧
    (getReexportedBy exState "pkg.mod.D").map (·.id) = ["pkg"] ∧
    (getReexportedBy exState "pkg.sub.inner.X").map (·.id) = [] ∧
    (getReexportedBy exState "pkg.sub.X").map (·.id) = ["pkg"] ∧
    (getReexportedBy exState "pkg.helpers.f").map (·.id) = ["pkg"] ∧
    (getReexportedBy exState "pkg.tools.Tool.run").map (·.id) = ["pkg"] ∧
    (getReexportedBy exState "pkg.other.Z").map (·.id) = [] := by decide +kernel

/-- the matching condition on the four forms, and its limits: the key `pkg.sub.*` does not reach into `pkg.sub.inner`;
    a SUFFIX key (a relative import recorded as `mod.C`) matches; the bare module name `mod` (from `from . import mod`)
    matches no declaration of `pkg.mod` -/
example :
    ReexportKeyMatches "pkg.mod.C" "pkg.mod.C" ∧ ReexportKeyMatches "pkg.sub.*" "pkg.sub.X" ∧
    ¬ ReexportKeyMatches "pkg.sub.*" "pkg.sub.inner.X" ∧ ReexportKeyMatches "pkg.helpers" "pkg.helpers.f" ∧
    ReexportKeyMatches "mod.C" "pkg.mod.C" ∧ ReexportKeyMatches "mod.*" "pkg.mod.C" ∧
    ¬ ReexportKeyMatches "mod" "pkg.mod.C" ∧ ReexportKeyMatches ".*" "f" := by decide +kernel

/-- the keys probed for `pkg.mod.C`, in look-up order -/
example : probeKeys "pkg.mod.C" =
    ["pkg", "C", "mod.*", "pkg.mod", "mod.C", "pkg.mod.*", "pkg.mod.C", "pkg.mod.C", "pkg.mod.*"] := by decide +kernel

/-- the hypothesis `hid` of `getReexportedBy_spec_partial` is needed: two records with one id under two matching keys — the
    one met first wins, the other is stored under a matching key and not returned -/
example :
    let a1 : ModRef := { id := "p", qualifiedImports := [⟨"p.m.f", none⟩] }
    let a2 : ModRef := { id := "p", qualifiedImports := [⟨"p.m.f", some "g"⟩] }
    let s : VSt := { doc := { root := { name := "p" }, style := .numpy },
                     api := { reexportMap := [("p.m.f", [a1]), ("f", [a2])] } }
    ReexportKeyMatches "p.m.f" "p.m.f" ∧ getReexportedBy s "p.m.f" = [a2] := by decide +kernel

/-- … and so is `hkeys`: the look-up takes the FIRST entry with a key, a second entry with the same key is dead -/
example :
    let a : ModRef := { id := "p" }
    let b : ModRef := { id := "q" }
    let s : VSt := { doc := { root := { name := "p" }, style := .numpy },
                     api := { reexportMap := [("p.m.f", [a]), ("p.m.f", [b])] } }
    ReexportKeyMatches "p.m.f" "p.m.f" ∧ getReexportedBy s "p.m.f" = [a] := by decide +kernel

/-- enums: the example of C12 — one module-level enum `Color` with the members `RED`, `GREEN` -/
example : srcEnums C12.exMods = [("pkg/mod/Color", "Color", ["RED", "GREEN"])] ∧
    srcInstIds C12.exMods = ["pkg/mod/Color/RED", "pkg/mod/Color/GREEN"] := by decide +kernel

/-- an enum body with a method, a tuple target and a nested class: members in source order, nothing else recorded -/
def exEnumMods : List SrcModule :=
  [ { path := "m.py", fullname := "m", name := "m", imports := [],
      defs := [ .cls "E" "m.E" [C12.exEnumBase] []
                  [ .assign { lvalues := [ .name "A" "m.E.A" true none ], unanalyzedType := none },
                    .func C12.exF,
                    .assign { lvalues := [ .tuple [ .name "B" "m.E.B" true none, .name "C" "m.E.C" true none ] ],
                              unanalyzedType := none },
                    .cls "Inner" "m.E.Inner" [] [] [],
                    .assign { lvalues := [ .name "D" "m.E.D" true none ], unanalyzedType := none } ] ] } ]

example :
    (match analyze C12.cexEnv C12.cexRoot exEnumMods with
     | .ok (r, _) => some (r.enums.map (fun (e : Enum) => (e.id, e.instances.map (·.id), e.instances.map (·.name))))
     | .error _ => none) =
    some [("m/E", ["m/E/A", "m/E/B", "m/E/C", "m/E/D"], ["A", "B", "C", "D"])] := by decide +kernel

/-- … the instance table holds the four members; no function, no class; no warning -/
example :
    (match analyze C12.cexEnv C12.cexRoot exEnumMods with
     | .ok (r, w) => some (r.enumInstances.map (·.id), r.functions.map (·.id), r.classes.map (·.id), w)
     | .error _ => none) =
    some (["m/E/A", "m/E/B", "m/E/C", "m/E/D"], [], [], []) := by decide +kernel

example : srcEnums exEnumMods = [("m/E", "E", ["A", "B", "C", "D"])] := by decide +kernel

/-- `enum_members_recorded_partial` applies to it (its hypotheses are satisfiable) -/
example {r : AnaResult} {w : List String} (h : analyze C12.cexEnv C12.cexRoot exEnumMods = .ok (r, w)) :
    ∃ e ∈ r.enums, e.id = "m/E" ∧ e.instances.map (·.name) = ["A", "B", "C", "D"] := by
  have hm : exEnumMods[0] ∈ exEnumMods := List.getElem_mem _
  obtain ⟨e, he, hid, _, hn, _⟩ := enum_members_recorded_partial (m := exEnumMods[0]) (name := "E") h hm
    (List.mem_singleton.2 rfl) (by decide +kernel) (by decide +kernel)
  refine ⟨e, he, ?_, ?_⟩
  · rw [hid]; decide +kernel
  · rw [hn]; decide +kernel

/-- `enum_members_recorded` without the side condition is FALSE: `class E(Enum): A = 1` followed by
    `class E(Enum): B = 2` in one module — `table[id] = enum` overwrites, the entry `m/E` lists `B` only, and the
    instance `m/E/A` stays in `enumInstances`, listed by no enum -/
def enumA (n : String) : Def :=
  .cls "E" "m.E" [C12.exEnumBase] [] [ .assign { lvalues := [ .name n ("m.E." ++ n) true none ], unanalyzedType := none } ]

theorem enum_overwritten_counterexample :
    (match analyze C12.cexEnv C12.cexRoot
        [ { path := "m.py", fullname := "m", name := "m", imports := [], defs := [ enumA "A", enumA "B" ] } ] with
     | .ok (r, _) => some (r.enums.map (fun (e : Enum) => (e.id, e.instances.map (·.name))), r.enumInstances.map (·.id))
     | .error _ => none) = some ([("m/E", ["B"])], ["m/E/A", "m/E/B"]) := by decide +kernel

/-- `nested_enum_dropped` without `hfresh` is FALSE: the enum `E` nested in class `C` of module `m` gets the id `m/C/E`,
    and so does the module-level enum `E` of the module `m.C`; the table then has an entry with that id (the other
    enum's: members `B`), while `m/C/E/A` is an instance without owner -/
theorem nested_enum_id_clash_counterexample :
    (match analyze C12.cexEnv C12.cexRoot
        [ { path := "m/__init__.py", fullname := "m", name := "m", imports := [],
            defs := [ .cls "C" "m.C" [] [] [ enumA "A" ] ] },
          { path := "m/C.py", fullname := "m.C", name := "C", imports := [], defs := [ enumA "B" ] } ] with
     | .ok (r, _) => some (r.enums.map (fun (e : Enum) => (e.id, e.instances.map (·.name))), r.enumInstances.map (·.id))
     | .error _ => none) = some ([("m/C/E", ["B"])], ["m/C/E/A", "m/C/E/B"]) := by decide +kernel

/-- the known gap on the example of C12 (`class C: class E(Enum): A = 1`): `nested_enum_dropped_partial` applies -/
example {r : AnaResult} {w : List String} (h : analyze C12.cexEnv C12.cexRoot C12.nestedEnumMods = .ok (r, w)) :
    (∀ e ∈ r.enums, e.id ≠ "m/C/E") ∧ ∃ i ∈ r.enumInstances, i.id = "m/C/E/A" := by
  have hm : C12.nestedEnumMods[0] ∈ C12.nestedEnumMods := List.getElem_mem _
  obtain ⟨h1, h2⟩ := nested_enum_dropped_partial (m := C12.nestedEnumMods[0]) (cname := "C") (ename := "E") h hm
    (List.mem_singleton.2 rfl) (by decide +kernel) (List.mem_singleton.2 rfl) (by decide +kernel) (by decide +kernel)
  have e1 : modId C12.nestedEnumMods[0] ++ "/" ++ "C" ++ "/" ++ "E" = "m/C/E" := by decide +kernel
  rw [e1] at h1 h2
  refine ⟨h1, ?_⟩
  obtain ⟨i, hi, hid⟩ := h2 "A" (by decide +kernel)
  exact ⟨i, hi, hid.trans (by decide +kernel)⟩

example : srcEnums C12.nestedEnumMods = [] ∧ srcInstIds C12.nestedEnumMods = ["m/C/E/A"] := by decide +kernel

/-- what the walker enters in `pkg/mod.py` of the example of C12: the class with its constructor (and the constructor's
    assignment), its decorated method and its nested class; the enum with its two assignments; the function -/
example :
    (match C12.exMods with
     | [_, m] => m.defs.flatMap (visited .module)
     | _ => []) =
    [("class", "C"), ("function", "__init__"), ("assignment", "x"), ("function", "make"), ("class", "Inner"),
     ("enum", "Color"), ("assignment", "RED"), ("assignment", "GREEN"), ("function", "f")] := by decide +kernel

/-- in the enum body of `exEnumMods` only the three assignments are entered (not the method, not the nested class) -/
example :
    (match exEnumMods with
     | [m] => m.defs.flatMap (visited .module)
     | _ => []) = [("enum", "E"), ("assignment", "A"), ("assignment", "B,C"), ("assignment", "D")] := by decide +kernel

/-- a module-level overloaded function with an implementation (`@overload def f(a: int) …; def f(a=3): …` in `m.py`):
    the walker enters the implementation … -/
def exOverloadMods : List SrcModule :=
  [ { path := "m.py", fullname := "m", name := "m", imports := [], defs := [ .overloaded (some C12.exF) ] } ]

example :
    (match exOverloadMods with
     | [m] => m.defs.flatMap (visited .module)
     | _ => []) = [("function", "f")] := by decide +kernel

/-- … and `analyze` records the function `m/f` in the `functions` table and in the `functions` of the module `m`
    (with its parameter); no warning -/
example :
    (match analyze C12.cexEnv C12.cexRoot exOverloadMods with
     | .ok (r, w) =>
       some (r.functions.map (fun (f : Function) => (f.id, f.name, f.params.map (·.id))),
             r.modules.map (fun (m : Module) => (m.id, m.functions.map (·.id))), w)
     | .error _ => none) = some ([("m/f", "f", ["m/f/a"])], [("m", ["m/f"])], []) := by decide +kernel

/-- it is in the source-side list of C12, so `C12.flags_copied_toplevel_overloaded` applies -/
example : (k12_srcFuncs exOverloadMods).map (·.1) = ["m/f"] := by decide +kernel

example {r : AnaResult} {w : List String} (h : analyze C12.cexEnv C12.cexRoot exOverloadMods = .ok (r, w)) :
    ∃ fn ∈ r.functions, fn.id = "m/f" ∧ fn.params.map (·.name) = ["a"] := by
  have hm : exOverloadMods[0] ∈ exOverloadMods := List.getElem_mem _
  obtain ⟨fn, hfn, hid, _, _, _, _, hp⟩ := C12.flags_copied_toplevel_overloaded (m := exOverloadMods[0]) (f := C12.exF) h hm
    (List.mem_singleton.2 rfl) (by
      intro p hp _
      obtain ⟨i, hs⟩ : ∃ i, k12_srcFuncs exOverloadMods = [(i, C12.exF)] := ⟨_, rfl⟩
      rw [hs] at hp
      rw [List.mem_singleton.1 hp])
  exact ⟨fn, hfn, hid.trans (by decide +kernel), hp.trans (by decide +kernel)⟩

/-- overloads without implementation at module level: one is fine (nothing recorded), the second one in the same file
    is the node `None` visited twice — the analysis fails; in two different files both are fine -/
example :
    (match analyze C12.cexEnv C12.cexRoot
        [ { path := "m.py", fullname := "m", name := "m", imports := [], defs := [ .overloaded none ] } ] with
     | .ok (r, w) => some (r.functions.map (·.id), r.modules.map (·.id), w)
     | .error _ => none) = some ([], ["m"], []) ∧
    (match analyze C12.cexEnv C12.cexRoot
        [ { path := "m.py", fullname := "m", name := "m", imports := [], defs := [ .overloaded none, .overloaded none ] } ] with
     | .ok _ => false
     | .error e => e == .assertionError) = true ∧
    (match analyze C12.cexEnv C12.cexRoot
        [ { path := "m.py", fullname := "m", name := "m", imports := [], defs := [ .overloaded none ] },
          { path := "n.py", fullname := "n", name := "n", imports := [], defs := [ .overloaded none ] } ] with
     | .ok (r, _) => some (r.modules.map (·.id))
     | .error _ => none) = some ["m", "n"] := by decide +kernel

end StubGen.C03a
