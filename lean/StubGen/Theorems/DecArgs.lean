/-
T2 obligations (argument kinds, variance, TypeOfAny): the model's finite decision functions agree, on EVERY point of their domain, with the table that
`tie/tabulate.py` computes by calling the real function of /repo's working tree (`Generated/DecArgs.lean`).  A change of
behaviour changes a row and breaks the kernel-checked `decide` here; one module per table, so that a changed table breaks the
obligations of the properties it belongs to and no others.
-/
import StubGen.Generated.DecArgs
import StubGen.Theorems.DecCommon

namespace StubGen.Decisions

open StubGen

def outcomeName {α : Type} (name : α → String) : Except PyErr α → String
  | .ok a => name a
  | .error e => "!" ++ e.name

def argOf (k : Nat) (posOnly isSelf isCls : Bool) : Arg :=
  { name := "a", isSelf := isSelf, isCls := isCls, kind := k, posOnly := posOnly, varType := none, annotation := none, init := none }

/-- `get_argument_kind` on all 6 × 2 × 2 × 2 arguments -/
theorem argument_kind_table :
    Generated.argumentKindTable.all (fun r =>
      outcomeName Assign.name (argumentKind (argOf r.1.1 r.1.2.1 r.1.2.2.1 r.1.2.2.2)) == r.2) = true := by
  decide +kernel

/-- `mypy_variance_parser` on 0 … 4 (3 and 4 raise `ValueError`) -/
theorem variance_table :
    Generated.varianceTable.all (fun r => outcomeName Variance.name (varianceOf r.1) == r.2) = true := by
  decide +kernel

/-- `has_correct_type_of_any` on `TypeOfAny` 0 … 12 -/
theorem type_of_any_table :
    Generated.typeOfAnyTable.all (fun r => correctTypeOfAny r.1 == r.2) = true := by
  decide +kernel

end StubGen.Decisions
