/-
C10 — whole-tool part: the name of the API file, and which root names the package.
-/
import StubGen.Proofs.Pipeline

namespace StubGen.C10b

open StubGen

/-- END TO END: the API inventory is named after the REQUESTED source directory (`src_dir_path.stem`), whatever root the
    discovery adjusts to; the package name inside it is the stem of the adjusted root. -/
theorem api_file_name {i : ToolInput} {o : ToolOutput} (h : runTool i = .ok o) :
    o.apiFileName = pathStem i.srcDir ++ "__api.json" ∧
    o.packageName = pathStem (adjustRoot i.srcDir i.files) := by
  obtain ⟨root, d, r, ws, text, gen, hd, _, _, _, ho⟩ := pl_runTool_ok h
  subst ho
  refine ⟨rfl, ?_⟩
  unfold discoverSorted discoverFrom at hd
  dsimp only at hd
  split at hd
  · cases hd
  · simp only [Except.ok.injEq, Prod.mk.injEq] at hd
    simp only
    rw [← hd.1, pl_adjustRoot_sortPaths]

/-- `PurePath.stem` drops the last suffix only: examples (a leading dot and a trailing dot are no suffix separators) -/
example : pyStemOfName "pkg" = "pkg" ∧ pyStemOfName "pkg.v2" = "pkg" ∧ pyStemOfName "a.b.c" = "a.b"
    ∧ pyStemOfName ".hidden" = ".hidden" ∧ pyStemOfName "name." = "name." := by decide

/-- the source directory above the package: the file is named after the directory, the package after the package -/
example : pathStem ["/", "work", "src"] ++ "__api.json" = "src__api.json"
    ∧ pathStem (adjustRoot ["/", "work", "src"] [["/", "work", "src", "pkg", "__init__.py"], ["/", "work", "src", "pkg", "m.py"]]) = "pkg" := by
  decide

end StubGen.C10b
