/-
C01, analyser half — "Every analysable package is processed to completion": the visitor never trips over its own guards.

`_ast_visitor.py` keeps a stack of the declarations it is inside of and protects it with `assert`s and
"unexpected parent" `AssertionError`s (eight sites; the site inventory T3 lists them).  The theorems here say that none of
them can fire, for EVERY package: they are statements about the walk over an arbitrary list of modules with arbitrary
definitions, nested to any depth.  (Helper lemmas: `Proofs/StackDiscipline.lean`.)  The other errors of the analysis
(`ValueError`, `TypeError`, `AttributeError`, `IndexError` on the inputs DESIGN §4/C01 lists) are not excluded here.
-/
import StubGen.Proofs.StackDiscipline
import StubGen.Model.Pipeline

namespace StubGen.C01a

open StubGen

/-- every `enter_*` raises no `AssertionError` and pushes exactly one frame, of its own kind, whatever the stack is -/
theorem enter_pushes_one_frame (env : AEnv) :
    (∀ f, sd_Push (fun _ => True) .fn (enterFuncdef env f)) ∧
    (∀ a, sd_Push (fun _ => True) .assigns (enterAssignment env a)) ∧
    (∀ n fq bases removed defs, sd_Push (fun _ => True) .cls (enterClassdef env n fq bases removed defs)) ∧
    (∀ n fq defs, sd_Push (fun _ => True) .enum (enterEnumdef env n fq defs)) ∧
    (∀ m, sd_Push (fun _ => True) .module (enterModuledef m)) :=
  ⟨fun f => sd_enterFuncdef env f, fun a => sd_enterAssignment env a,
   fun n fq b r d => sd_enterClassdef env n fq b r d, fun n fq d => sd_enterEnumdef env n fq d,
   fun m => sd_enterModuledef m⟩

/-- every `leave_*`, called with the frame of its kind on top (an assignment frame: on top of a class, a function or an
    enum), raises no `AssertionError`, pops that frame and keeps the kinds of the frames below -/
theorem leave_pops_its_frame :
    sd_Pop sd_TopFn leaveFuncdef ∧ sd_Pop sd_TopAssign leaveAssignment ∧ sd_Pop sd_TopCls leaveClassdef ∧
    sd_Pop sd_TopEnum leaveEnumdef ∧ sd_Pop sd_TopModule leaveModuledef :=
  ⟨sd_leaveFuncdef, sd_leaveAssignment, sd_leaveClassdef, sd_leaveEnumdef, sd_leaveModuledef⟩

/-- `_create_attribute` is only guarded by "the parent is a class, or the constructor of a class"; under that guard it
    raises no `AssertionError` and leaves the stack alone -/
theorem create_attribute_guard (env : AEnv) (isMember : Bool) (name fullname : String) (isVar : Bool)
    (var : Option VarInfo) (un : Option MType) (isStatic : Bool) :
    sd_Q sd_AttrCtx (createAttributeV env isMember name fullname isVar var un isStatic) :=
  sd_createAttributeV env isMember name fullname isVar var un isStatic

/-- THE WALK IS BALANCED: run from any state, the walk over any list of modules (definitions nested to any depth)
    raises no `AssertionError`, and when it completes the declaration stack has the kinds it started with -/
theorem walk_balanced (env : AEnv) (ms : List SrcModule) (h : ∀ m ∈ ms, sd_noNoneL m.defs = true) (s : VSt) :
    match walkModules env ms s with
    | .error e => e ≠ PyErr.assertionError
    | .ok (_, t) => sd_shape t.stack = sd_shape s.stack := by
  have h1 := (sd_walkModules env (P := fun _ => True) ms h).run s trivial
  cases hw : walkModules env ms s with
  | error e => rw [hw] at h1; exact h1
  | ok r => obtain ⟨u, t⟩ := r; rw [hw] at h1; exact h1

/-- … in particular the analysis of a package never ends in an `AssertionError` -/
theorem analysis_never_asserts (env : AEnv) (docRoot : GNode) (ms : List SrcModule)
    (h : ∀ m ∈ ms, sd_noNoneL m.defs = true) :
    analyze env docRoot ms ≠ .error .assertionError :=
  sd_analyze_no_assertion env docRoot ms h

/-- … and when it completes, the stack is empty again: every declaration that was entered has been left and recorded -/
theorem analysis_leaves_empty_stack (env : AEnv) (docRoot : GNode) (ms : List SrcModule)
    (h : ∀ m ∈ ms, sd_noNoneL m.defs = true) (t : VSt)
    (ht : walkModules env ms { doc := { root := docRoot, style := env.opts.style } } = .ok ((), t)) :
    t.stack = [] := by
  have := walk_balanced env ms h { doc := { root := docRoot, style := env.opts.style } }
  rw [ht] at this
  simpa [sd_shape] using this

/-- `get_api` as a whole (discovery, alias table, walk): no `AssertionError` for any directory listing, mypy graph,
    expression-type dict and docstring tree -/
theorem get_api_never_asserts (i : ToolInput) (h : ∀ m ∈ i.graph, sd_noNoneL m.defs = true) :
    getApi i ≠ .error .assertionError := by
  unfold getApi
  cases hd : discoverSorted i.srcDir i.files i.isTestRun with
  | error e =>
    intro he
    injection he with he
    subst he
    unfold discoverSorted discoverFrom discover at hd
    dsimp only at hd
    split at hd
    · rename_i e' h'
      split at h' <;> cases h'
      cases hd
    · cases hd
  | ok r =>
    obtain ⟨root, d⟩ := r
    dsimp only
    have hsel : ∀ m ∈ selectModules i.graph d, sd_noNoneL m.defs = true := by
      intro m hm
      unfold selectModules at hm
      rcases List.mem_append.mp hm with hm | hm
      · exact h m (List.mem_filter.mp hm).1
      · exact h m (List.mem_filter.mp hm).1
    have := analysis_never_asserts
      { opts := i.opts, aliases := getAliases (pathStem root) i.aliasFacts, infoBases := i.infoBases } i.docRoot _ hsel
    revert this
    cases analyze { opts := i.opts, aliases := getAliases (pathStem root) i.aliasFacts, infoBases := i.infoBases } i.docRoot
        (selectModules i.graph d) with
    | error e => intro h1 h2; injection h2 with h2; exact h1 (by rw [h2])
    | ok r => intro _ h2; cases h2

/-! Non-vacuity and sharpness. -/

/-- definitions as they come out of mypy satisfy the hypothesis: a class with a method, an overload with implementation,
    a nested class -/
example : sd_noNoneL [.cls "A" "m.A" [] [] [.other "PassStmt", .cls "B" "m.A.B" [] [] []], .docExpr "d" "d"] = true := by
  decide

/-- the hypothesis is needed: the model's stand-in for an `OverloadedFuncDef` without items (a node `None`) trips the
    walker's "Node visited twice" guard the second time -/
theorem none_twice_asserts :
    (do walkNone; walkNone : V Unit) { doc := { root := { name := "m" }, style := .numpy } } = .error .assertionError := rfl

end StubGen.C01a
