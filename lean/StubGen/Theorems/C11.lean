/-
C11 — "Every class name used as a type or as a superclass in a stub file is either one of the built-in Safe-DS
mappings, declared in that same file, or imported in that file.  Every import names a package and a
declaration that exist in the generated stub set, including the placeholder stubs created for classes of other
libraries."

The property as quoted is FALSE of the tool and of the model (counterexamples in the last section).  What holds,
for ALL inputs, is what the generator's bookkeeping function `addToImports` implements; this file states it
exactly.  Model: `StubGen.Model.Gen` (`addToImports`, `typeStr`, `superclassesG`, `createImportsString`,
`callGenerator`, `createReexportElements`), `StubGen.Model.Files` (`createStubFiles`,
`createOutsidePackageClass`).  Proof machinery: `StubGen.Proofs.Imports` (names `q11_…`).

NOTE on the model: `St.imports` is a duplicate-free list of dotted class paths (`"pkg.mod.C"`), not of
`(path, name)` pairs; the pair is formed when the import block is printed (`import_line_form`).

Vocabulary (definitions in `StubGen.Proofs.Imports`, restated by the `…_def` theorems below):
* `q11_exempt q`     — `addToImports` ignores the path `q` without looking at the state;
* `q11_sameModule st q` — the same-module test: a SUBSTRING test on strings;
* `q11_found env q`  — the class of the package the path is resolved to (first match in table order);
* `q11_target env q` — the path that gets registered (below the shortest public re-export of that class);
* `q11_Ext s s'`     — `s'` has at least the imports / placeholder classes of `s`, same module identity;
* `q11_RegQ env st q` — "`q` is registered or exempt in `st`" (the disjunction (b1)-(d) of `addToImports_spec`).
-/
import StubGen.Proofs.Imports
import StubGen.Proofs.PathConv
import StubGen.Proofs.Emission

namespace StubGen.C11

open StubGen

/-! ### 0. vocabulary -/

theorem exempt_def (q : String) :
    q11_exempt q = (((splitDot q).head? == some "builtins" && (splitDot q).length == 2) || q == "typing.Any"
      || (splitDot q).length == 1) := rfl

/-- the same-module test compares STRINGS: the id of the module being generated (`St.moduleId`, with `/`
    replaced by `.`) occurs somewhere inside the class path -/
theorem sameModule_def (st : St) (q : String) :
    q11_sameModule st q = pyIn (replaceChar st.moduleId '/' ".") q := rfl

theorem found_def (env : Env) (q : String) :
    q11_found env q
      = env.api.classes.find? fun c => isPathConnectedToClass env.api.reexportMap (replaceChar q '.' "/") c.id := rfl

theorem target_def (env : Env) (q : String) :
    q11_target env q =
      match q11_found env q with
      | some c =>
        let cq := replaceChar c.id '/' "."
        let name := lastD "" (splitDot cq)
        let sh := (shortestPublicReexport env.api.reexportMap name cq false).1
        let t := if sh != "" then sh ++ "." ++ name else cq
        if t != "" then t else q
      | none => q := rfl

theorem Ext_def (s s' : St) :
    q11_Ext s s' ↔ s.imports ⊆ s'.imports ∧ s.outside ⊆ s'.outside ∧ s'.moduleId = s.moduleId
      ∧ s'.reexportModuleId = s.reexportModuleId ∧ s'.creatingReexport = s.creatingReexport :=
  ⟨fun h => ⟨h.1, h.2, h.3, h.4, h.5⟩, fun h => ⟨h.1, h.2.1, h.2.2.1, h.2.2.2.1, h.2.2.2.2⟩⟩

theorem RegQ_def (env : Env) (st : St) (q : String) :
    q11_RegQ env st q ↔
      (q11_exempt q = true
      ∨ q11_sameModule st q = true
      ∨ ((q11_found env q).isSome = true ∧
          (q11_target env q ∈ st.imports ∨ replaceChar (q11_target env q) '.' "/" = getModuleId st))
      ∨ (q11_found env q = none ∧ q ∈ st.outside ∧
          (q ∈ st.imports ∨ replaceChar q '.' "/" = getModuleId st))) := Iff.rfl

/-! ### 1. `addToImports`: complete characterisation -/

/-- `addToImports env q` from state `st`:
    * `q = ""`: `ValueError`;
    * otherwise it succeeds, and changes nothing but `imports` and `outside`:
      (b1) `q` is `builtins.X`, `typing.Any` or has no dot: no change;
      (b2) the dotted id of the module being generated is a substring of `q`: no change;
      otherwise
      (d) `q` resolves to no class of the package: `q` is added to `outside` (placeholder stub queued);
      (c)/(d) the target path (`q` itself in case (d)) is added to `imports`, unless it spells the id of the stub
          being written (`getModuleId st`: the module id, or the id of the re-export stub). -/
theorem addToImports_spec (env : Env) (q : String) (st : St) :
    (q = "" → addToImports env q st = .error .valueError)
    ∧ (q ≠ "" → ∃ st', addToImports env q st = .ok ((), st') ∧ OnlyIO st st'
        ∧ ((q11_exempt q = true ∨ q11_sameModule st q = true) → st' = st)
        ∧ ((q11_exempt q = false ∧ q11_sameModule st q = false) →
            st'.outside = (if q11_found env q = none then insertSet q st.outside else st.outside)
            ∧ st'.imports = (if replaceChar (q11_target env q) '.' "/" = getModuleId st then st.imports
                             else insertSet (q11_target env q) st.imports))) := by
  refine ⟨fun h => by rw [q11_addToImports_eq, if_pos h], fun h => ?_⟩
  refine ⟨q11_effect env q st, by rw [q11_addToImports_eq, if_neg h], q11_effect_onlyIO env q st,
    fun hs => q11_effect_skip hs, fun hs => ⟨q11_effect_outside hs.1 hs.2, q11_effect_imports hs.1 hs.2⟩⟩

/-- as an equation: `addToImports` is the pure state transformer `q11_effect` (or `ValueError`) -/
theorem addToImports_closed_form (env : Env) (q : String) (st : St) :
    addToImports env q st = if q = "" then .error .valueError else .ok ((), q11_effect env q st) :=
  q11_addToImports_eq env q st

/-- after a successful `addToImports env q`, the path is registered or exempt: the four-way disjunction -/
theorem addToImports_registers (env : Env) (q : String) (st st' : St) (u : Unit)
    (h : addToImports env q st = .ok (u, st')) :
    q11_exempt q = true
    ∨ q11_sameModule st' q = true
    ∨ ((q11_found env q).isSome = true ∧
        (q11_target env q ∈ st'.imports ∨ replaceChar (q11_target env q) '.' "/" = getModuleId st'))
    ∨ (q11_found env q = none ∧ q ∈ st'.outside ∧
        (q ∈ st'.imports ∨ replaceChar q '.' "/" = getModuleId st')) := by
  obtain ⟨_, rfl⟩ := q11_addToImports_ok h
  exact q11_effect_reg env q st

/-- a placeholder is only queued for class paths with a module part (so `createOutsidePackageClass` never
    raises on it, cf. `C01.placeholder_stubs_never_raise`) -/
theorem queued_paths_are_dotted (env : Env) (q : String) (st st' : St) (u : Unit)
    (h : addToImports env q st = .ok (u, st')) :
    ∀ c ∈ st'.outside, c ∈ st.outside ∨ (c = q ∧ '.' ∈ q.toList) := by
  obtain ⟨_, rfl⟩ := q11_addToImports_ok h
  exact fun c hc => q11_effect_outside_dotted c hc

/-! ### 1b. a `NamedType` / `NamedSequenceType` is registered -/

/-- A successfully rendered `NamedType`:
    (a) its NAME is in the table of built-in mappings (`Generated.builtinTypeNames`: int, str, bool, float,
        None): the text is the mapped name, the state is untouched — the qualified name is not looked at;
    otherwise the text is the (keyword-escaped) name, and for the qualified name
    (b1) it is ignored, (b2) it passes the same-module substring test, (c) it resolves to a class of the
    package whose target path is now imported (or is the stub being written), (d) it resolves to nothing: it is
    queued for a placeholder stub and imported (or is the stub being written). -/
theorem named_type_registered (env : Env) (name qname : String) (st st' : St) (text : String)
    (h : typeStr env (.named name qname) st = .ok (text, st')) :
    (∃ b, assocGet? Generated.builtinTypeNames name = some b ∧ text = b ∧ st' = st)
    ∨ (assocGet? Generated.builtinTypeNames name = none ∧ text = escapeKeyword name ∧ qname ≠ "" ∧ name ≠ ""
        ∧ q11_Ext st st'
        ∧ ( q11_exempt qname = true
          ∨ q11_sameModule st' qname = true
          ∨ ((q11_found env qname).isSome = true ∧
              (q11_target env qname ∈ st'.imports ∨ replaceChar (q11_target env qname) '.' "/" = getModuleId st'))
          ∨ (q11_found env qname = none ∧ qname ∈ st'.outside ∧
              (qname ∈ st'.imports ∨ replaceChar qname '.' "/" = getModuleId st')))) := by
  rcases q11_typeStr_named_ok h with ha | ⟨hb, hq, hn, ht, td, rfl⟩
  · exact Or.inl ha
  · right
    have he : q11_Ext (q11_effect env qname st) { q11_effect env qname st with todos := td } :=
      q11_Ext.of_eq rfl rfl rfl rfl rfl
    exact ⟨hb, ht, hq, hn, (q11_effect_ext env qname st).trans he, (q11_effect_reg env qname st).mono he⟩

/-- the exact state after rendering a non-built-in `NamedType`: `q11_effect` (and possibly a pending marker) -/
theorem named_type_state (env : Env) (name qname : String) (st st' : St) (text : String)
    (h : typeStr env (.named name qname) st = .ok (text, st'))
    (hb : assocGet? Generated.builtinTypeNames name = none) :
    st'.imports = (q11_effect env qname st).imports ∧ st'.outside = (q11_effect env qname st).outside := by
  rcases q11_typeStr_named_ok h with ⟨b, hb', _⟩ | ⟨_, _, _, _, td, rfl⟩
  · rw [show builtinName name = assocGet? Generated.builtinTypeNames name from rfl, hb] at hb'
    exact absurd hb' (by simp)
  · exact ⟨rfl, rfl⟩

/-- the head of a `NamedSequenceType` is never looked up in the built-in table: its qualified name is always
    handed to `addToImports` -/
theorem namedSeq_type_registered (env : Env) (name qname : String) (ts : List AType) (st st' : St) (text : String)
    (h : typeStr env (.namedSeq name qname ts) st = .ok (text, st')) :
    q11_Ext st st' ∧ q11_RegQ env st' qname := by
  have := q11_typeStr_rg env (.namedSeq name qname ts) st text st' h
  refine ⟨this.ext, ?_⟩
  rcases this.reg (.seq name qname) (by simp [q11_leaves]) with hb | hr
  · exact absurd hb (by simp [q11_Leaf.builtin])
  · exact hr

/-- `q11_leaves t`: the `NamedType`s and `NamedSequenceType` heads occurring anywhere in `t` (not inside the
    stored upper bound of a type-variable type, which `typeStr` does not print) -/
theorem leaves_def :
    (∀ n q, q11_leaves (.named n q) = [.named n q])
    ∧ (∀ n q ts, q11_leaves (.namedSeq n q ts) = q11_leavesL ts ++ [.seq n q])
    ∧ (∀ t, q11_leaves (.final t) = q11_leaves t)
    ∧ (∀ ps r, q11_leaves (.callable ps r) = q11_leavesL ps ++ q11_leaves r)
    ∧ (∀ ts, q11_leaves (.set ts) = q11_leavesL ts ∧ q11_leaves (.list ts) = q11_leavesL ts
          ∧ q11_leaves (.union ts) = q11_leavesL ts ∧ q11_leaves (.tuple ts) = q11_leavesL ts)
    ∧ (∀ k v, q11_leaves (.dict k v) = q11_leaves k ++ q11_leaves v)
    ∧ q11_leavesL [] = [] ∧ (∀ t ts, q11_leavesL (t :: ts) = q11_leaves t ++ q11_leavesL ts) := by
  refine ⟨?_, ?_, ?_, ?_, ?_, ?_, ?_, ?_⟩ <;> intros <;> simp [q11_leaves, q11_leavesL]

/-- EVERY class name occurring anywhere inside a successfully rendered type is a built-in name (for a
    `NamedType`) or registered / exempt in the final state; and the state only grew. -/
theorem type_leaves_registered (env : Env) (t : AType) (st st' : St) (text : String)
    (h : typeStr env t st = .ok (text, st')) :
    q11_Ext st st' ∧ ∀ l ∈ q11_leaves t,
      (match l with
        | .named n _ => (assocGet? Generated.builtinTypeNames n).isSome = true
        | _ => False)
      ∨ q11_RegQ env st' l.qname := by
  have := q11_typeStr_rg env t st text st' h
  refine ⟨this.ext, fun l hl => ?_⟩
  rcases this.reg l hl with hb | hr
  · left
    cases l with
    | named n q => exact hb
    | seq n q => simp [q11_Leaf.builtin] at hb
    | super n q => simp [q11_Leaf.builtin] at hb
  · exact Or.inr hr

/-! ### 2. imports only grow; the import block is computed from the final `imports` of the file -/

/-- being registered is stable under growth -/
theorem registered_stays_registered (env : Env) (s s' : St) (q : String) (he : q11_Ext s s')
    (h : q11_RegQ env s q) : q11_RegQ env s' q := h.mono he

/-- No function that renders part of a stub removes an import or a queued placeholder class, nor changes
    which module is being generated. -/
theorem imports_only_grow (env : Env) :
    (∀ t st r st', typeStr env t st = .ok (r, st') → q11_Ext st st')
    ∧ (∀ ps indent im st r st', createParameterString env ps indent im st = .ok (r, st') → q11_Ext st st')
    ∧ (∀ rs st r st', createResultString env rs st = .ok (r, st') → q11_Ext st st')
    ∧ (∀ b tvs st r st', typeVarStrings env b tvs st = .ok (r, st') → q11_Ext st st')
    ∧ (∀ tps st r st', typeParamStrings env tps st = .ok (r, st') → q11_Ext st st')
    ∧ (∀ a inner st r st', createAttribute env a inner st = .ok (r, st') → q11_Ext st st')
    ∧ (∀ f indent b1 b2 st r st', createFunctionString env f indent b1 b2 st = .ok (r, st') → q11_Ext st st')
    ∧ (∀ f indent st r st', createPropertyFunctionString env f indent st = .ok (r, st') → q11_Ext st st')
    ∧ (∀ fuel c indent b st r st', createClassString env fuel c indent b st = .ok (r, st') → q11_Ext st st')
    ∧ (∀ fuel sc inner ad st r st', createInternalClassString env fuel sc inner ad st = .ok (r, st') → q11_Ext st st')
    ∧ (∀ b fs st r st', createFunctions env b fs st = .ok (r, st') → q11_Ext st st')
    ∧ (∀ b cs st r st', createClasses env b cs st = .ok (r, st') → q11_Ext st st')
    ∧ (∀ m st r st', createModuleString env m st = .ok (r, st') → q11_Ext st st') :=
  ⟨fun t _ _ _ h => q11_mono_of_at (fun s0 => q11_typeStr_mono s0 env t) h,
   fun ps i b _ _ _ h => q11_mono_of_at (fun s0 => q11_createParameterString_mono s0 env ps i b) h,
   fun rs _ _ _ h => q11_mono_of_at (fun s0 => q11_createResultString_mono s0 env rs) h,
   fun b tvs _ _ _ h => q11_mono_of_at (fun s0 => q11_typeVarStrings_mono s0 env b tvs) h,
   fun tps _ _ _ h => q11_mono_of_at (fun s0 => q11_typeParamStrings_mono s0 env tps) h,
   fun a i _ _ _ h => q11_mono_of_at (fun s0 => q11_createAttribute_mono s0 env a i) h,
   fun f i b1 b2 _ _ _ h => q11_mono_of_at (fun s0 => q11_createFunctionString_mono s0 env f i b1 b2) h,
   fun f i _ _ _ h => q11_mono_of_at (fun s0 => q11_createPropertyFunctionString_mono s0 env f i) h,
   fun fuel c i b _ _ _ h => q11_mono_of_at (fun s0 => q11_createClassString_mono s0 env fuel c i b) h,
   fun fuel sc i ad _ _ _ h => q11_mono_of_at (fun s0 => q11_createInternalClassString_mono s0 env fuel sc i ad) h,
   fun b fs _ _ _ h => q11_mono_of_at (fun s0 => q11_createFunctions_mono s0 env b fs) h,
   fun b cs _ _ _ h => q11_mono_of_at (fun s0 => q11_createClasses_mono s0 env b cs) h,
   fun m _ _ _ h => q11_mono_of_at (fun s0 => q11_createModuleString_mono s0 env m) h⟩

/-- the superclass loop too, for any monotone inlining function -/
theorem superclassesG_only_grows (env : Env) (inline : String → G String)
    (hin : ∀ sc st r st', inline sc st = .ok (r, st') → q11_Ext st st')
    (scs : List String) (st st' : St) (r : List String × String)
    (h : superclassesG env inline scs st = .ok (r, st')) : q11_Ext st st' :=
  q11_mono_of_at (fun s0 => q11_superclassesG_mono s0 env inline
    (fun sc => ⟨fun s a s' hs hr => hs.trans (hin sc s a s' hr)⟩) scs) h

/-- `imports` is emptied exactly at the start of a file: `callGenerator` runs `createModuleString` from the
    state `q11_moduleStart m st`, whose `imports` are `[]`, whose `outside` is that of `st`, and which generates
    module `m.id` (outside the re-export phase) -/
theorem module_file_start (env : Env) (m : Module) (st : St) :
    callGenerator env m st = createModuleString env m (q11_moduleStart m st)
    ∧ (q11_moduleStart m st).imports = []
    ∧ (q11_moduleStart m st).outside = st.outside
    ∧ (st.creatingReexport = false → (q11_moduleStart m st).moduleId = m.id
        ∧ getModuleId (q11_moduleStart m st) = m.id) := by
  refine ⟨rfl, ?_, ?_, ?_⟩
  · rfl
  · unfold q11_moduleStart; dsimp only; split <;> rfl
  · intro h
    unfold q11_moduleStart getModuleId
    simp [h]

/-- MODULE STUB: the body (functions, then classes) runs from a state with no imports; the import block in the
    text is `q11_importBlock` of the `imports` at the END of the body (`sB`); all states in between are ordered by
    `q11_Ext` (with `imports_only_grow` for every sub-computation), so every registration made while the body
    was generated is still in `sB.imports` (`registered_stays_registered`). -/
theorem file_imports_complete (env : Env) (m : Module) (st st' : St) (text pkg : String)
    (h : callGenerator env m st = .ok ((text, pkg), st')) :
    ∃ sA sB t1 t2,
      (q11_moduleStart m st).imports = []
      ∧ createFunctions env (q11_modInRe env m) m.functions (q11_moduleStart m st) = .ok (t1, sA)
      ∧ createClasses env (q11_modInRe env m) m.classes sA = .ok (t2, sB)
      ∧ q11_Ext (q11_moduleStart m st) sA ∧ q11_Ext sA sB
      ∧ st'.imports = sB.imports ∧ st'.outside = sB.outside
      ∧ text = moduleDoc m ++ packageHeader env pkg ++ q11_importBlock env.safe sB.imports ++ t1 ++ t2
          ++ q11_enumText env m := by
  rw [q11_callGenerator_eq] at h
  obtain ⟨sA, sB, t1, t2, h1, h2, e1, e2, hi, ho, _, _, ht⟩ := q11_createModuleString_decomp h
  exact ⟨sA, sB, t1, t2, (module_file_start env m st).2.1, h1, h2, e1, e2, hi, ho, ht⟩

/-- RE-EXPORT STUB (one per re-exported declaration): the same, with the declaration's class / function text
    as the body.  `q11_reexportStart` empties `imports` (and `classGenerics`), sets the id of the re-export stub
    and logs it. -/
theorem reexport_file_imports_complete (env : Env) (moduleId : String) (el : Node) (els : List Node)
    (st st' : St) (ds : List StubData)
    (h : createReexportElements env moduleId (el :: els) st = .ok (ds, st')) :
    ∃ body sB rest,
      (q11_reexportStart moduleId el st).imports = []
      ∧ (q11_reexportStart moduleId el st).outside = st.outside
      ∧ (match el with
          | .cls c => createClassString env (classFuel env) c "" true
          | .fn f => createFunctionString env f "" false true) (q11_reexportStart moduleId el st) = .ok (body, sB)
      ∧ q11_Ext (q11_reexportStart moduleId el st) sB
      ∧ createReexportElements env moduleId els sB = .ok (rest, st')
      ∧ ds = { dir := getModuleId sB, name := el.name,
               text := packageHeader env (joinWith "." (dropLast' (splitSlash (getModuleId sB))))
                 ++ q11_importBlock env.safe sB.imports ++ "\n" ++ body ++ "\n",
               isPackageModule := true } :: rest := by
  obtain ⟨body, sB, rest, h0, hb, he, hr, hd⟩ := q11_createReexportElements_cons h
  refine ⟨body, sB, rest, h0, ?_, ?_, he, hr, hd⟩
  · unfold q11_reexportStart; dsimp only; split <;> rfl
  · cases el <;> exact hb

/-- a path that is registered through `imports` at some point of the body has its line in the import block
    printed from any later state -/
theorem registered_import_printed (safe : Bool) (s sB : St) (p : String) (he : q11_Ext s sB)
    (h : p ∈ s.imports) : q11_importLine safe p ∈ q11_importLines safe sB.imports :=
  (q11_mem_importLines safe sB.imports _).2 ⟨p, he.imports h, rfl⟩

/-! ### 2b. end to end: the class names in the declarations of a stub file -/

/-- `q11_RegLeaf`: an occurrence is fine if it is a `NamedType` whose name is in the built-in table, or if its
    qualified name is registered or exempt -/
theorem RegLeaf_def (env : Env) (st : St) (l : q11_Leaf) :
    q11_RegLeaf env st l ↔
      ((match l with
        | .named n _ => (assocGet? Generated.builtinTypeNames n).isSome = true
        | _ => False)
      ∨ q11_RegQ env st l.qname) := by
  unfold q11_RegLeaf
  cases l <;> simp [q11_Leaf.builtin, builtinName]

/-- the occurrences tracked for a function: the types of the printed parameters (all but `self` for an instance
    method) and of the results (NOT tracked: the upper bounds of its type variables) -/
theorem funLeaves_def (f : Function) (isMethod : Bool) :
    q11_funLeaves f isMethod =
      ((if (!f.isStatic && isMethod) = true then f.params.drop 1 else f.params).flatMap fun p =>
        match p.type with
        | some t => q11_leaves t
        | none => [])
      ++ f.results.flatMap fun r => match r.type with
        | some t => q11_leaves t
        | none => [] := by
  unfold q11_funLeaves q11_paramsLeaves q11_shownParams q11_resultLeaves q11_paramLeaves
  rfl

/-- the occurrences tracked for a class block: constructor parameters, bounds of the type parameters, types of
    the public attributes, the blocks of the public inner classes, signatures of the printed methods (properties:
    their result types), the public superclasses.  NOT tracked: the methods inlined from private
    superclasses (for them only `imports_only_grow`). -/
theorem classLeaves_def (fuel : Nat) (c : Class) :
    q11_classLeaves (fuel + 1) c =
      q11_ctorLeaves c ++ (if !c.typeParams.isEmpty || !(match c.ctor with
          | some ctor => ctor.typeVars
          | none => []).isEmpty then q11_typeParamLeaves c.typeParams else [])
        ++ q11_attrsLeaves c.attributes
        ++ (c.classes.filter (·.isPublic)).flatMap (q11_classLeaves fuel)
        ++ q11_methodsLeaves false [] c.methods
        ++ (if !c.renderedSupers.isEmpty && !c.isAbstract then q11_superLeaves c.renderedSupers else []) := by
  rw [q11_classLeaves]
  rfl

/-- MODULE STUB, end to end.  The text contains the import block computed from the FINAL `imports`; for every
    public function and every public non-exception class of the module that is not moved to a re-export stub,
    every tracked class-name occurrence is a built-in name or registered / exempt in the final state. -/
theorem module_stub_names_registered (env : Env) (m : Module) (st st' : St) (text pkg : String)
    (hcr : st.creatingReexport = false)
    (h : callGenerator env m st = .ok ((text, pkg), st')) :
    (∃ pre post, text = pre ++ q11_importBlock env.safe st'.imports ++ post)
    ∧ (∀ f ∈ m.functions, f.isPublic = true →
        n03_movedB m.id false (q11_modInRe env m) f.reexportedBy = false →
        ∀ l ∈ q11_funLeaves f false, q11_RegLeaf env st' l)
    ∧ (∀ c ∈ m.classes, c.isPublic = true → c.inheritsFromException = false →
        n03_movedB m.id false (q11_modInRe env m) c.reexportedBy = false →
        ∀ l ∈ q11_classLeaves (classFuel env) c, q11_RegLeaf env st' l) := by
  rw [q11_callGenerator_eq] at h
  obtain ⟨sA, sB, t1, t2, h1, h2, e1, e2, hi, ho, e3, _, ht⟩ := q11_createModuleString_decomp h
  have hid : getModuleId (q11_moduleStart m st) = m.id := ((module_file_start env m st).2.2.2 hcr).2
  obtain ⟨_, hf⟩ := q11_createFunctions_reg env _ m.functions _ t1 sA h1
  obtain ⟨_, hc⟩ := q11_createClasses_reg env _ m.classes _ t2 sB h2
  refine ⟨⟨moduleDoc m ++ packageHeader env pkg, t1 ++ t2 ++ q11_enumText env m, ?_⟩, ?_, ?_⟩
  · rw [ht, hi]; simp only [String.append_assoc]
  · intro f hfm hp hmv l hl
    exact (hf f hfm hp (by rw [hid]; exact hmv) l hl).mono (e2.trans e3)
  · intro c hcm hp hex hmv l hl
    exact (hc c hcm hp hex (by rw [e1.getModuleId, hid]; exact hmv) l hl).mono e3

/-- RE-EXPORT STUB, end to end: in the state `sB` from whose `imports` the block of the stub is printed, every
    tracked occurrence of the re-exported class / function is a built-in name or registered / exempt.  (In such a
    stub the same-module branch (b2) is very wide: `sB.moduleId` is the id of the re-exporting PACKAGE, see the
    counterexample (i).) -/
theorem reexport_stub_names_registered (env : Env) (moduleId : String) (el : Node) (els : List Node)
    (st st' : St) (ds : List StubData)
    (h : createReexportElements env moduleId (el :: els) st = .ok (ds, st')) :
    ∃ sB d rest, ds = d :: rest
      ∧ (∃ pre post, d.text = pre ++ q11_importBlock env.safe sB.imports ++ post)
      ∧ ∀ l ∈ (match el with
                | .cls c => q11_classLeaves (classFuel env) c
                | .fn f => q11_funLeaves f false), q11_RegLeaf env sB l := by
  obtain ⟨body, sB, rest, _, hb, _, _, hd⟩ := q11_createReexportElements_cons h
  refine ⟨sB, _, rest, hd,
    ⟨packageHeader env (joinWith "." (dropLast' (splitSlash (getModuleId sB)))), "\n" ++ body ++ "\n", ?_⟩, ?_⟩
  · dsimp only; simp only [String.append_assoc]
  · cases el with
    | cls c => exact ((q11_createClassString_regs env _ c "").run _ _ _ hb).reg
    | fn f =>
      exact (q11_createFunctionString_reg env f "" false true _ _ _ hb).2 (by simp [n03_movedB])

/-! ### 3. the import block -/

/-- `createImportsString` never fails, does not change the state, and prints: nothing for no imports; else an
    empty line, the sorted lines, a line break -/
theorem import_block_text (env : Env) (st : St) :
    createImportsString env st = .ok (q11_importBlock env.safe st.imports, st)
    ∧ q11_importBlock env.safe st.imports =
        (if st.imports.isEmpty then ""
         else "\n" ++ joinWith "\n" (sortStrings (st.imports.map (q11_importLine env.safe))) ++ "\n") :=
  ⟨q11_createImportsString_eq env st, rfl⟩

/-- each line is `from <package> import <name>` for a registered dotted path `imp`: `<package>` is `imp`
    without its last dot-segment, converted to the naming convention segment by segment (`convertPath`, repair 8e9a214)
    and then keyword-escaped segment by segment (`escapePath`); `<name>` is the last dot-segment, converted (as a
    non-class name) and keyword-escaped.  The model never prints an `as` clause.  The lines of the block are
    exactly the lines of the registered paths. -/
theorem import_line_form (safe : Bool) (imports : List String) :
    (∀ imp, q11_importLine safe imp =
        "from " ++ escapePath (convertPath (joinWith "." (dropLast' (splitDot imp))) safe) ++ " import "
          ++ escapeKeyword (convertName (lastD "" (splitDot imp)) safe))
    ∧ (∀ line, line ∈ q11_importLines safe imports ↔ ∃ imp ∈ imports, line = q11_importLine safe imp)
    ∧ (q11_importLines safe imports).length = imports.length := by
  refine ⟨fun _ => rfl, q11_mem_importLines safe imports, ?_⟩
  unfold q11_importLines sortStrings
  rw [(sortBy_perm_mk strLe _).length_eq, List.length_map]

/-- without the Safe-DS naming convention: the path verbatim, keywords back-quoted -/
theorem import_line_without_convention (imp : String) :
    q11_importLine false imp =
      "from " ++ escapePath (joinWith "." (dropLast' (splitDot imp))) ++ " import "
        ++ escapeKeyword (lastD "" (splitDot imp)) := by
  simp [q11_importLine, convertName, pc_convertPath_off]

/-! ### 4. foreign classes: the placeholder stub and the import line -/

/-- For every class path `c` in `outside`, `createStubFiles` performs an operation on the placeholder file
    `outsideFile c` (`a/b/<b without leading underscores>.sdsstub` for `a.b.C`: `a/b/b.sdsstub`, and
    `a/_b/b.sdsstub` for `a._b.C`; see `C10.placeholder_path_spells_package`): it writes the
    package header and the class, or appends the class to the file written earlier in the same loop. -/
theorem foreign_placeholder_exists (safe : Bool) (stubs : List StubData) (outside pre : List String)
    (ops : List WriteOp) (h : createStubFiles safe stubs outside pre = .ok ops) :
    ∀ c ∈ outside, ∃ op ∈ ops, op.path = outsideFile c
      ∧ ((op.mode = .append ∧ op.text = outsideClassText (lastD "" (splitDot c)) safe)
         ∨ (op.mode = .write ∧ op.text = outsideHeader safe c ++ outsideClassText (lastD "" (splitDot c)) safe)) :=
  q11_createStubFiles_placeholder h

/-- the placeholder file: the directory spells the module path, the file name is the module name without its
    leading underscores -/
example : outsideFile "a.b.C" = "a/b/b.sdsstub" ∧ outsideFile "a._b.C" = "a/_b/b.sdsstub"
    ∧ outsideFile "other_lib._impl.Thing" = "other_lib/_impl/impl.sdsstub" := by decide +kernel

/-- … for a whole run of the generator -/
theorem foreign_placeholder_exists_run (api : API) (safe : Bool) (pre : List String) (r : GenResult)
    (h : runGenerator api safe pre = .ok r) :
    ∀ c ∈ r.outside, ∃ op ∈ r.ops, op.path = outsideFile c
      ∧ ((op.mode = .append ∧ op.text = outsideClassText (lastD "" (splitDot c)) safe)
         ∨ (op.mode = .write ∧ op.text = outsideHeader safe c ++ outsideClassText (lastD "" (splitDot c)) safe)) := by
  unfold runGenerator at h
  dsimp only at h
  cases hg : (generateStubData { api := api, safe := safe }).run {} with
  | error e => rw [hg] at h; exact absurd h (by simp)
  | ok p =>
    obtain ⟨stubs, st⟩ := p
    rw [hg] at h
    dsimp only at h
    cases hc : createStubFiles safe stubs st.outside pre with
    | error e => rw [hc] at h; exact absurd h (by simp)
    | ok ops =>
      rw [hc] at h
      simp only [Except.ok.injEq] at h
      subst h
      exact q11_createStubFiles_placeholder hc

/-- The import registered for a foreign class (branch (d)) is the class path `c` itself.  Its import line and
    its placeholder stub name the SAME package text; the class NAME agrees iff converting the last segment as a
    class name and as an ordinary name give the same result.  (`…_partial`: the unconditional agreement is false,
    see `foreign_name_mismatch`.) -/
theorem foreign_import_matches_placeholder_partial (safe : Bool) (c : String) :
    q11_importLine safe c = "from " ++ q11_packageText safe c ++ " import " ++ q11_importedName safe c
    ∧ (∃ ann, outsideHeader safe c = ann ++ "package " ++ q11_packageText safe c ++ "\n"
        ∧ (ann = "" ∨ ann = "@PythonModule(\"" ++ joinWith "." (dropLast' (splitDot c)) ++ "\")\n"))
    ∧ (∃ ann, outsideClassText (lastD "" (splitDot c)) safe
          = ann ++ "\nclass " ++ q11_placeholderClassName safe c ++ "\n"
        ∧ (ann = "" ∨ ann = "\n" ++ nameAnnotation (lastD "" (splitDot c))))
    ∧ (convertName (lastD "" (splitDot c)) safe true = convertName (lastD "" (splitDot c)) safe →
        q11_placeholderClassName safe c = q11_importedName safe c)
    ∧ (safe = false → q11_placeholderClassName safe c = q11_importedName safe c) := by
  refine ⟨rfl, q11_outsideHeader_eq safe c, q11_outsideClassText_eq safe c, fun h => ?_, fun h => ?_⟩
  · unfold q11_placeholderClassName q11_importedName; rw [h]
  · subst h; simp [q11_placeholderClassName, q11_importedName, convertName]

/-- COUNTEREXAMPLE (name mismatch): for `numpy.ndarray` the import line names `ndarray`, the placeholder stub
    declares `Ndarray` (the class-name convention capitalises; the import conversion does not). -/
theorem foreign_name_mismatch :
    q11_importLine true "numpy.ndarray" = "from numpy import ndarray"
    ∧ outsideHeader true "numpy.ndarray" ++ outsideClassText "ndarray" true
        = "package numpy\n\n@PythonName(\"ndarray\")\nclass Ndarray\n"
    ∧ q11_placeholderClassName true "numpy.ndarray" ≠ q11_importedName true "numpy.ndarray" := by
  decide +kernel

/-! ### 5. superclasses -/

/-- After the superclass loop (for ANY monotone inlining function; in `createClassString` it is
    `createInternalClassString`, see `imports_only_grow`): the names listed after `sub` are the last segments
    of the public superclasses, and the path of every one of them went through `addToImports`: it is registered
    or exempt in the resulting state. -/
theorem superclass_registered (env : Env) (inline : String → G String)
    (hin : ∀ sc st r st', inline sc st = .ok (r, st') → q11_Ext st st')
    (scs : List String) (st st' : St) (names : List String) (text : String)
    (h : superclassesG env inline scs st = .ok ((names, text), st')) :
    names = (scs.filter fun s => !isInternal (lastD "" (splitDot s))).map
              (fun s => escapeKeyword (lastD "" (splitDot s)))
    ∧ q11_Ext st st'
    ∧ ∀ sc ∈ scs, isInternal (lastD "" (splitDot sc)) = false →
        ( q11_exempt sc = true
        ∨ q11_sameModule st' sc = true
        ∨ ((q11_found env sc).isSome = true ∧
            (q11_target env sc ∈ st'.imports ∨ replaceChar (q11_target env sc) '.' "/" = getModuleId st'))
        ∨ (q11_found env sc = none ∧ sc ∈ st'.outside ∧
            (sc ∈ st'.imports ∨ replaceChar sc '.' "/" = getModuleId st'))) := by
  have hin' : ∀ sc s0, q11_MonoAt s0 (inline sc) :=
    fun sc s0 => ⟨fun s a s' hs hr => hs.trans (hin sc s a s' hr)⟩
  obtain ⟨he, hr⟩ := q11_superclassesG_reg env inline hin' scs st (names, text) st' h
  exact ⟨n03_superclassesG_names env inline scs st (names, text) st' h, he, hr⟩

/-- the instance used by `createClassString` -/
theorem superclass_registered_class (env : Env) (fuel : Nat) (inner : String) (ad : List String)
    (scs : List String) (st st' : St) (names : List String) (text : String)
    (h : superclassesG env (fun sc => createInternalClassString env fuel sc inner ad) scs st
      = .ok ((names, text), st')) :
    q11_Ext st st' ∧ ∀ sc ∈ scs, isInternal (lastD "" (splitDot sc)) = false → q11_RegQ env st' sc :=
  (superclass_registered env _ (fun sc _ _ _ hr =>
    q11_mono_of_at (fun s0 => q11_createInternalClassString_mono s0 env fuel sc inner ad) hr) scs st st' names text h).2

/-! ### 6. non-vacuity: cross-module reference, foreign classes, same-module reference -/

private def par (n : String) (t : AType) : Parameter :=
  { id := "x/" ++ n, name := n, isOptional := false, default := .none, assignedBy := .positionOrName, type := some t }
private def res (t : AType) : Result := { id := "r", name := "r", type := some t }

/-- what a run writes: `(path, text)` of every operation, and the placeholder classes -/
private def files (api : API) (safe : Bool) : Option (List (String × String) × List String) :=
  (runGenerator api safe).toOption.map fun r => (r.ops.map fun o => (o.path, o.text), r.outside)

private def cA : Class := { id := "pkg/a/A", name := "A", isPublic := true }
private def fBparams : List Parameter :=
  [par "x" (.named "A" "pkg.a.A"), par "y" (.named "Thing" "other.lib.Thing"), par "z" (.named "B" "pkg.b.B"),
   par "w" (.list [.named "int" "builtins.int"])]
private def fB : Function :=
  { id := "pkg/b/f", name := "f", isPublic := true, params := fBparams, results := [res (.named "ndarray" "numpy.ndarray")] }
private def cB : Class := { id := "pkg/b/B", name := "B", isPublic := true, superclasses := ["pkg.a.A"] }
private def mA : Module := { id := "pkg/a", name := "a", classes := [cA] }
private def mB : Module := { id := "pkg/b", name := "b", classes := [cB], functions := [fB] }
private def api1 : API := { package := "pkg", modules := [mA, mB], classes := [cA, cB] }
private def env1 : Env := { api := api1, safe := true }

/-- module `pkg.b`: `A` (other module: imported), `Thing` and `ndarray` (other libraries: imported and queued),
    `B` (same module: nothing), `int` (built-in: nothing), superclass `A`.  State and text after
    `callGenerator`: -/
example : (callGenerator env1 mB {}).toOption.map (fun r => (r.2.imports, r.2.outside, r.1.1)) =
    some (["pkg.a.A", "other.lib.Thing", "numpy.ndarray"], ["other.lib.Thing", "numpy.ndarray"],
      "package pkg.b\n\nfrom numpy import ndarray\nfrom other.lib import Thing\nfrom pkg.a import A\n\n@Pure\nfun f(\n    x: A,\n    y: Thing,\n    z: B,\n    w: List<Int>\n) -> r: ndarray\n\nclass B() sub A\n") := by
  decide +kernel

/-- the branches of `addToImports_spec` on this API (module `pkg/b` being generated) -/
example :
    let st : St := { moduleId := "pkg/b" }
    q11_exempt "builtins.int" = true ∧ q11_exempt "B" = true ∧ q11_exempt "pkg.a.A" = false
    ∧ q11_sameModule st "pkg.b.B" = true ∧ q11_sameModule st "pkg.a.A" = false
    ∧ (q11_found env1 "pkg.a.A").map (·.id) = some "pkg/a/A" ∧ q11_target env1 "pkg.a.A" = "pkg.a.A"
    ∧ (q11_found env1 "other.lib.Thing").isNone = true ∧ q11_target env1 "other.lib.Thing" = "other.lib.Thing"
    ∧ (q11_effect env1 "pkg.a.A" st).imports = ["pkg.a.A"] ∧ (q11_effect env1 "pkg.a.A" st).outside = []
    ∧ (q11_effect env1 "other.lib.Thing" st).imports = ["other.lib.Thing"]
    ∧ (q11_effect env1 "other.lib.Thing" st).outside = ["other.lib.Thing"]
    ∧ (q11_effect env1 "pkg.b.B" st).imports = [] := by
  decide +kernel

/-- the files of the run: two module stubs and two placeholder stubs -/
example : files api1 true = some (
    [("pkg/a/a.sdsstub", "package pkg.a\n\nclass A()\n"),
     ("pkg/b/b.sdsstub", "package pkg.b\n\nfrom numpy import ndarray\nfrom other.lib import Thing\nfrom pkg.a import A\n\n@Pure\nfun f(\n    x: A,\n    y: Thing,\n    z: B,\n    w: List<Int>\n) -> r: ndarray\n\nclass B() sub A\n"),
     ("numpy/numpy.sdsstub", "package numpy\n\n@PythonName(\"ndarray\")\nclass Ndarray\n"),
     ("other/lib/lib.sdsstub", "package other.lib\n\nclass Thing\n")],
    ["other.lib.Thing", "numpy.ndarray"]) := by
  decide +kernel

/-- the leaves of a nested type -/
example : q11_leaves (.dict (.named "str" "builtins.str") (.namedSeq "Sequence" "typing.Sequence" [.named "A" "pkg.a.A"]))
    = [.named "str" "builtins.str", .named "A" "pkg.a.A", .seq "Sequence" "typing.Sequence"] := rfl

/-! ### 7. COUNTEREXAMPLES: where the quoted property fails (all on the model, evaluated by the kernel) -/

/-- (i) RE-EXPORT STUB WITHOUT IMPORT OF A SIBLING.  `pkg/__init__.py` re-exports `pkg.mod.C`; `C.m` has a
    parameter of the sibling class `pkg.mod.S`.  The re-export stub `pkg/C.sdsstub` (package `pkg`) uses `S`
    without importing it: while re-export stubs are written, `St.moduleId` is the id of the re-exporting package
    (`pkg`), and the same-module test `"pkg" in "pkg.mod.S"` succeeds — for EVERY class of the package.  The
    foreign class `other.lib.Thing` is still imported. -/
private def initRef : ModRef := { id := "pkg", qualifiedImports := [⟨"pkg.mod.C", none⟩] }
private def cS : Class := { id := "pkg/mod/S", name := "S", isPublic := true }
private def mC : Function :=
  { id := "pkg/mod/C/m", name := "m", isPublic := true,
    params := [par "self" (.named "C" "pkg.mod.C"), par "s" (.named "S" "pkg.mod.S")],
    results := [res (.named "Thing" "other.lib.Thing")] }
private def cC : Class := { id := "pkg/mod/C", name := "C", isPublic := true, reexportedBy := [initRef], methods := [mC] }
private def mMod : Module := { id := "pkg/mod", name := "mod", classes := [cS, cC] }
private def mInit : Module := { id := "pkg/__init__", name := "__init__", qualifiedImports := [⟨"pkg.mod.C", none⟩] }
private def fU : Function := { id := "pkg/use/u", name := "u", isPublic := true, results := [res (.named "C" "pkg.mod.C")] }
private def api2 : API :=
  { package := "pkg", modules := [mInit, mMod, { id := "pkg/use", name := "use", functions := [fU] }],
    classes := [cS, cC], reexportMap := [("pkg.mod.C", [initRef])] }

example : files api2 true = some (
    [("pkg/mod/mod.sdsstub", "package pkg.mod\n\nclass S()\n"),
     ("pkg/use/use.sdsstub", "package pkg.use\n\nfrom pkg import C\n\n@Pure\nfun u() -> r: C\n"),
     ("pkg/C.sdsstub",
       "package pkg\n\nfrom other.lib import Thing\n\nclass C() {\n    @Pure\n    fun m(\n        s: S\n    ) -> r: Thing\n}\n"),
     ("other/lib/lib.sdsstub", "package other.lib\n\nclass Thing\n")],
    ["other.lib.Thing"]) := by
  decide +kernel

/-- the state in which the re-export stub is generated has `moduleId = "pkg"`: branch (b2) for `pkg.mod.S` -/
example : q11_sameModule { moduleId := "pkg", reexportModuleId := "pkg/C", creatingReexport := true } "pkg.mod.S" = true := by
  decide +kernel

/-- (ii) PRIVATE CLASS AS A TYPE.  A public function returns the private class `pkg.m._P`.  The stub of `pkg.n`
    uses the name `_P`, but the import line names `P` (the naming convention strips the underscore) from package
    `pkg.m` — and no stub for `pkg.m` is written at all (the module has nothing public).  Without the
    convention the line is `from pkg.m import _P`, still from a stub that does not exist. -/
private def cP : Class := { id := "pkg/m/_P", name := "_P", isPublic := false }
private def fQ : Function := { id := "pkg/n/g", name := "g", isPublic := true, results := [res (.named "_P" "pkg.m._P")] }
private def api3 : API :=
  { package := "pkg", modules := [{ id := "pkg/m", name := "m", classes := [cP] }, { id := "pkg/n", name := "n", functions := [fQ] }],
    classes := [cP] }

example : files api3 true
    = some ([("pkg/n/n.sdsstub", "package pkg.n\n\nfrom pkg.m import P\n\n@Pure\nfun g() -> r: _P\n")], [])
    ∧ files api3 false
    = some ([("pkg/n/n.sdsstub", "package pkg.n\n\nfrom pkg.m import _P\n\n@Pure\nfun g() -> r: _P\n")], []) := by
  decide +kernel

/-- (iii) THE SAME-MODULE TEST IS A SUBSTRING TEST.  While `pkg/mod` is generated, the foreign class
    `xpkg.model.Thing` is taken for a class of the module (`"pkg.mod" in "xpkg.model.Thing"`): no import, no
    placeholder. -/
private def fS : Function := { id := "pkg/mod/h", name := "h", isPublic := true, results := [res (.named "Thing" "xpkg.model.Thing")] }
private def api4 : API := { package := "pkg", modules := [{ id := "pkg/mod", name := "mod", functions := [fS] }] }

example : files api4 true = some ([("pkg/mod/mod.sdsstub", "package pkg.mod\n\n@Pure\nfun h() -> r: Thing\n")], []) := by
  decide +kernel

/-- (iv) AMBIGUITY BETWEEN SAME-NAMED CLASSES.  The class `mod.C` of another library is resolved to the package's
    own class `pkg/mod/C` (`"pkg/mod/C".endswith("mod/C")`): imported from `pkg.mod`, no placeholder. -/
private def fT : Function := { id := "pkg/use/h", name := "h", isPublic := true, results := [res (.named "C" "mod.C")] }
private def cM : Class := { id := "pkg/mod/C", name := "C", isPublic := true }
private def api5 : API :=
  { package := "pkg", modules := [{ id := "pkg/use", name := "use", functions := [fT] }, { id := "pkg/mod", name := "mod", classes := [cM] }],
    classes := [cM] }

example : files api5 true = some (
    [("pkg/use/use.sdsstub", "package pkg.use\n\nfrom pkg.mod import C\n\n@Pure\nfun h() -> r: C\n"),
     ("pkg/mod/mod.sdsstub", "package pkg.mod\n\nclass C()\n")], []) := by
  decide +kernel

/-- (v) the name mismatch of `foreign_name_mismatch` in a run: `from numpy import ndarray` vs `class Ndarray` -/
private def fN : Function := { id := "pkg/use/h", name := "h", isPublic := true, results := [res (.named "ndarray" "numpy.ndarray")] }
private def api6 : API := { package := "pkg", modules := [{ id := "pkg/use", name := "use", functions := [fN] }] }

example : files api6 true = some (
    [("pkg/use/use.sdsstub", "package pkg.use\n\nfrom numpy import ndarray\n\n@Pure\nfun h() -> r: ndarray\n"),
     ("numpy/numpy.sdsstub", "package numpy\n\n@PythonName(\"ndarray\")\nclass Ndarray\n")],
    ["numpy.ndarray"]) := by
  decide +kernel

/-! ### the implicit base `object` (repair: `class A(object)` gave `class A() sub object`, a name no stub declares) -/

/-- `object` is never among the superclasses the generator names or inlines … -/
theorem object_base_not_rendered (c : Class) : "builtins.object" ∉ c.renderedSupers := by
  simp [Class.renderedSupers]

/-- … every other superclass is, in declaration order; a class that does not name `object` is untouched by the rule -/
theorem rendered_supers_spec (c : Class) (s : String) : s ∈ c.renderedSupers ↔ s ∈ c.superclasses ∧ s ≠ "builtins.object" := by
  simp [Class.renderedSupers]

theorem rendered_supers_eq (c : Class) (h : "builtins.object" ∉ c.superclasses) : c.renderedSupers = c.superclasses := by
  unfold Class.renderedSupers
  rw [List.filter_eq_self]
  intro x hx
  simp only [bne_iff_ne, ne_eq]
  intro e; subst e; exact h hx

example : ({ id := "m/A", name := "A", isPublic := true, superclasses := ["m.B", "builtins.object"] } : Class).renderedSupers = ["m.B"] := by decide

end StubGen.C11
