/-
C18 — whole-tool part: how the package-wide alias table reacts to unrelated modules.
-/
import StubGen.Proofs.Pipeline

namespace StubGen.C18b

open StubGen List

/-- Expressions of an added module only ADD candidates: every candidate of a short name stays. -/
theorem alias_table_monotone (pkg : String) (facts extra : List AliasFact) (name target : String)
    (h : target ∈ lookupA (getAliases pkg facts) name) :
    target ∈ lookupA (getAliases pkg (facts ++ extra)) name := by
  unfold getAliases at *
  rw [mem_getAliasesFrom] at *
  rcases h with h | ⟨f, hf, hs⟩
  · exact Or.inl h
  · exact Or.inr ⟨f, List.mem_append_left _ hf, hs⟩

/-- LOCALITY of the alias table: the candidates of a short name change only through added expressions that contribute
    under that very name — expressions of an unrelated module that never mention the name leave `aliases[name]` (as a set)
    untouched. -/
theorem alias_lookup_local (pkg : String) (facts extra : List AliasFact) (name : String)
    (h : ∀ f ∈ extra, ∀ t, aliasStep pkg f ≠ .add name t) (target : String) :
    target ∈ lookupA (getAliases pkg (facts ++ extra)) name ↔ target ∈ lookupA (getAliases pkg facts) name := by
  unfold getAliases
  rw [mem_getAliasesFrom, mem_getAliasesFrom]
  constructor
  · rintro (h1 | ⟨f, hf, hs⟩)
    · exact Or.inl h1
    · rcases List.mem_append.mp hf with hf | hf
      · exact Or.inr ⟨f, hf, hs⟩
      · exact absurd hs (h f hf target)
  · rintro (h1 | ⟨f, hf, hs⟩)
    · exact Or.inl h1
    · exact Or.inr ⟨f, List.mem_append_left _ hf, hs⟩

theorem getAliasesFrom_append (pkg : String) : ∀ (a b : List AliasFact) (t : AliasTable),
    getAliasesFrom pkg t (a ++ b) = getAliasesFrom pkg (getAliasesFrom pkg t a) b
  | [], b, t => rfl
  | f :: a, b, t => by
    simp only [List.cons_append, getAliasesFrom]
    cases aliasStep pkg f with
    | skip => exact getAliasesFrom_append pkg a b t
    | add n fn => exact getAliasesFrom_append pkg a b _

theorem getAliasesFrom_skips (pkg : String) : ∀ (b : List AliasFact) (t : AliasTable),
    (∀ f ∈ b, aliasStep pkg f = .skip) → getAliasesFrom pkg t b = t
  | [], t, _ => rfl
  | f :: b, t, h => by
    simp only [getAliasesFrom, h f (by simp)]
    exact getAliasesFrom_skips pkg b t (fun g hg => h g (by simp [hg]))

/-- Expressions that are no alias candidates (of a module outside the package, of functions, of plain values …) leave the
    table exactly as it is: adding a module all of whose looked-at expressions are skipped changes NOTHING of the table —
    and therefore nothing of the analysis of any other module (`C08b.analysis_reads_alias_sets`). -/
theorem alias_table_ignores_skipped (pkg : String) (facts extra : List AliasFact)
    (h : ∀ f ∈ extra, aliasStep pkg f = .skip) : getAliases pkg (facts ++ extra) = getAliases pkg facts := by
  unfold getAliases
  rw [getAliasesFrom_append, getAliasesFrom_skips pkg extra _ h]

/-- COUNTEREXAMPLE to full locality (why C18's analyser half is "partial"): the table is keyed by SHORT name, so an
    unrelated module that reuses a class name adds a second candidate for the first module's name. -/
theorem same_short_name_interferes :
    lookupA (getAliases "p" [{ kind := .nameExpr, name := "c", val := .instance "Config" "p.a.Config" }]) "Config" = ["p.a.Config"]
    ∧ lookupA (getAliases "p" ([{ kind := .nameExpr, name := "c", val := .instance "Config" "p.a.Config" }]
        ++ [{ kind := .nameExpr, name := "d", val := .instance "Config" "p.zz.Config" }])) "Config" = ["p.a.Config", "p.zz.Config"] := by
  decide

/-- COUNTEREXAMPLE (DESIGN A26): "in the package" is the SUBSTRING test `package_name in fullname`; for a package called
    `b` every `builtins.*` name counts as part of the package. -/
theorem substring_package_test :
    aliasStep "b" { kind := .nameExpr, name := "n", val := .instance "int" "builtins.int" } = .add "int" "builtins.int"
    ∧ aliasStep "pkg" { kind := .nameExpr, name := "n", val := .instance "int" "builtins.int" } = .skip := by
  decide

end StubGen.C18b
