/-
C09 — naming conversion renames consistently and keeps Python names recoverable.
Property theorems about `_convert_name_to_convention` / `_replace_if_safeds_keyword` /
the "annotation iff the rendered name differs" rule used at every emission site.
Helper lemmas are in `Proofs/Naming.lean`.
-/
import StubGen.Proofs.Naming

namespace StubGen.C09

/-- flag off: every identifier is emitted verbatim -/
theorem convert_off (n : String) (c : Bool) : convertName n false c = n := by
  simp [convertName]

/-- flag on: the rendered name contains no underscore (the lone `_` is kept as it is) -/
theorem convert_on_no_underscore (n : String) (c : Bool) (h : n ≠ "_") :
    '_' ∉ (convertName n true c).toList := by
  have h' : n.toList ≠ ['_'] := by
    intro e; apply h; rw [← String.ofList_toList (s := n), e]
  simp only [convertName, h, decide_false, Bool.not_true, Bool.or_self, Bool.false_eq_true, if_false,
    String.toList_ofList]
  exact convertChars_no_underscore _ _ h'

/-- flag on: exactly the non-underscore characters survive, in order, up to ASCII case -/
theorem convert_on_letters (n : String) (c : Bool) (h : n ≠ "_") :
    (convertName n true c).toList.map Char.toLower = (n.toList.filter (· ≠ '_')).map Char.toLower := by
  have h' : n.toList ≠ ['_'] := by
    intro e; apply h; rw [← String.ofList_toList (s := n), e]
  simp only [convertName, h, decide_false, Bool.not_true, Bool.or_self, Bool.false_eq_true, if_false,
    String.toList_ofList]
  exact convertChars_letters _ _ h'

/-- flag on: a convertible name (identifier characters, a letter after the leading underscores)
    becomes a legal Safe-DS identifier -/
theorem convert_on_legal (n : String) (c : Bool) (h : Convertible n.toList = true) :
    isIdent (convertName n true c).toList = true := by
  have hn : n ≠ "_" := by
    intro e; subst e; revert h; decide
  simp only [convertName, hn, decide_false, Bool.not_true, Bool.or_self, Bool.false_eq_true, if_false,
    String.toList_ofList]
  exact convertChars_ident _ _ h

/-- converting twice changes nothing (a converted name is its own rendering) -/
theorem convert_idempotent (n : String) (s c : Bool) :
    convertName (convertName n s c) s c = convertName n s c := by
  cases s with
  | false => simp [convertName]
  | true =>
    by_cases h : n = "_"
    · subst h; simp [convertName]
    · have h1 : convertName n true c = String.ofList (convertChars n.toList c) := by
        simp [convertName, h]
      rw [h1]
      by_cases h2 : String.ofList (convertChars n.toList c) = "_"
      · simp [convertName, h2]
      · simp only [convertName, h2, decide_false, Bool.not_true, Bool.or_self, Bool.false_eq_true, if_false,
          String.toList_ofList, convertChars_idem]

/-- `(annotation?, rendered name)` as emitted at every declaration site of the generator:
    the annotation carries the Python name and is present iff conversion changed it. -/
def emitName (n : String) (safe cls : Bool) : Option String × String :=
  let r := convertName n safe cls
  (if r ≠ n then some n else none, r)

/-- what a reader of the stub recovers as the Python name -/
def recover (e : Option String × String) : String := e.1.getD e.2

theorem annotation_iff_differs (n : String) (s c : Bool) :
    ((emitName n s c).1.isSome ↔ (emitName n s c).2 ≠ n) ∧ ((emitName n s c).1 = some n ∨ (emitName n s c).1 = none) := by
  unfold emitName
  by_cases h : convertName n s c = n <;> simp [h]

/-- the Python name is recoverable under both settings, and the settings agree -/
theorem recover_eq (n : String) (s c : Bool) : recover (emitName n s c) = n := by
  unfold recover emitName
  by_cases h : convertName n s c = n <;> simp [h]

theorem recover_flag_independent (n : String) (c : Bool) :
    recover (emitName n true c) = recover (emitName n false c) := by
  rw [recover_eq, recover_eq]

/-- no annotation at all with the flag off -/
theorem no_annotation_off (n : String) (c : Bool) : (emitName n false c).1 = none := by
  simp [emitName, convert_off]

/-! Non-vacuity: concrete names meeting the hypotheses, and what they render to. -/
example : Convertible "__my_func_name_".toList = true ∧ convertName "__my_func_name_" true false = "myFuncName" := by decide
example : convertName "my_class" true true = "MyClass" ∧ convertName "HTTPServer_x" true true = "HTTPServerX" := by decide
example : emitName "my_attr" true false = (some "my_attr", "myAttr") ∧ emitName "attr" true false = (none, "attr") := by decide
/-- outside `Convertible` the rendering is not an identifier (DESIGN A8): `__` becomes the empty string -/
example : Convertible "__".toList = false ∧ convertName "__" true false = "" ∧ convertName "_1" true false = "1" := by decide

end StubGen.C09
