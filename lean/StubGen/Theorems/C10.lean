/-
C10 — "Every stub file lies inside the requested output directory; its directory path relative to that
directory spells, segment by segment, the Python module path announced in the file (Python-module
annotation, else the package declaration), and its base name is the module - or the re-exported
declaration - it contains, without leading underscores.  Two different stub texts are never written to the
same path …"

Model: `StubGen.Model.Files` (`generateModules`, `stubPath`, `createOutsidePackageClass`, `createStubFiles`)
and `StubGen.Model.Gen` (`packageHeader`, `createModuleString`, `createReexportElements`).
Proof machinery: `StubGen.Proofs.Files`.

The package declaration writes the (converted) path with every dot-segment that is a Safe-DS keyword in
back-quotes (`escapePath`); the `@PythonModule` annotation has the Python path verbatim.  The path is read back
from the annotation when there is one, else from the package line with `unescapePath`
(`unescapePath_escapePath`, `header_recovers_python_module`, `header_determines_python_module`); all of this
for paths without back-quotes (counterexample below).
-/
import StubGen.Proofs.PathConv
import StubGen.Proofs.Files
import StubGen.Proofs.ShortestMem

namespace StubGen.C10

open StubGen

/-! ### 7. the header announces the Python module path -/

/-- reading a package line back: the back-quotes that escape Safe-DS keywords are stripped from every
    dot-segment (`pf_unescapePath` of `StubGen.Proofs.Files`) -/
abbrev unescapePath (p : String) : String := pf_unescapePath p

/-- `unescapePath` undoes `escapePath` (on paths without back-quotes) … -/
theorem unescapePath_escapePath (p : String) (h : '`' ∉ p.toList) : unescapePath (escapePath p) = p :=
  pf_unescapePath_escapePath p h

/-- … and `escapePath` writes a path verbatim when none of its dot-segments is a Safe-DS keyword. -/
theorem escapePath_of_no_keyword (p : String) (h : ∀ s ∈ splitDot p, s ∉ Generated.keywords) : escapePath p = p :=
  pf_escapePath_eq_self p h

/-- segment by segment: the dot-segments of the escaped path are the dot-segments of the path, a keyword `k`
    written as `` `k` `` -/
theorem escapePath_segments (p : String) :
    splitDot (escapePath p) = (splitDot p).map escapeKeyword
    ∧ ∀ s, (s ∉ Generated.keywords → escapeKeyword s = s)
         ∧ (s ∈ Generated.keywords → (escapeKeyword s).toList = '`' :: (s.toList ++ ['`'])) := by
  refine ⟨pf_splitDot_escapePath p, fun s => ⟨pf_escapeKeyword_of_not_keyword s, fun hk => ?_⟩⟩
  rcases pf_escapeKeyword_toList s with ⟨hn, _⟩ | ⟨_, e⟩
  · exact absurd hk hn
  · exact e

/-- The Python module path `pkg` is written into the header: in the package declaration (keyword segments
    back-quoted) when the naming convention leaves it unchanged, verbatim in the `@PythonModule` annotation
    otherwise.  In both cases `pkg` is recoverable from the header: from the annotation if there is one, else
    from the package line by `unescapePath` (`header_recovers_python_module`). -/
theorem header_announces_python_module (env : Env) (pkg : String) :
    (convertPath pkg env.safe = pkg → packageHeader env pkg = "package " ++ escapePath pkg ++ "\n")
    ∧ (convertPath pkg env.safe ≠ pkg →
        packageHeader env pkg
          = "@PythonModule(\"" ++ pkg ++ "\")\npackage " ++ escapePath (convertPath pkg env.safe) ++ "\n") := by
  unfold packageHeader
  constructor
  · intro h
    simp [h]
  · intro h
    have h' : ¬ pkg = convertPath pkg env.safe := fun e => h e.symm
    simp only [bne_iff_ne, ne_eq, h', not_false_eq_true, if_true, String.append_assoc]
    rw [← String.append_assoc (s₁ := "\")\n") (s₂ := "package ")]
    rfl

/-- The header in the three shapes it can take, each with the way the Python module path is read back:
    (a) no annotation, no keyword segment: the package line is the path verbatim (the statement for the
        generator without keyword escaping of package paths);
    (b) no annotation: the package line is `escapePath pkg`, and `unescapePath` of it is `pkg`;
    (c) annotation: it contains `pkg` verbatim. -/
theorem header_recovers_python_module (env : Env) (pkg : String) :
    (convertPath pkg env.safe = pkg → (∀ s ∈ splitDot pkg, s ∉ Generated.keywords) →
        packageHeader env pkg = "package " ++ pkg ++ "\n")
    ∧ (convertPath pkg env.safe = pkg → '`' ∉ pkg.toList →
        ∃ line, packageHeader env pkg = "package " ++ line ++ "\n" ∧ unescapePath line = pkg)
    ∧ (convertPath pkg env.safe ≠ pkg →
        ∃ line, packageHeader env pkg = "@PythonModule(\"" ++ pkg ++ "\")\npackage " ++ line ++ "\n") := by
  refine ⟨fun h hk => ?_, fun h hb => ?_, fun h => ?_⟩
  · rw [(header_announces_python_module env pkg).1 h, escapePath_of_no_keyword pkg hk]
  · exact ⟨escapePath pkg, (header_announces_python_module env pkg).1 h, unescapePath_escapePath pkg hb⟩
  · exact ⟨_, (header_announces_python_module env pkg).2 h⟩

/-- without the Safe-DS naming convention there is never an annotation -/
theorem header_without_convention (env : Env) (pkg : String) (h : env.safe = false) :
    packageHeader env pkg = "package " ++ escapePath pkg ++ "\n" := by
  apply (header_announces_python_module env pkg).1
  rw [h]; exact pc_convertPath_off pkg

/-- The announced path is recoverable: two stub texts that start with the headers for `p₁` and `p₂` (paths
    without `"`, line breaks and back-quotes) announce the same Python module path. -/
theorem header_determines_python_module (env : Env) (p₁ p₂ rest₁ rest₂ : String)
    (h1 : '"' ∉ p₁.toList ∧ '\n' ∉ p₁.toList) (h2 : '"' ∉ p₂.toList ∧ '\n' ∉ p₂.toList)
    (hb1 : '`' ∉ p₁.toList) (hb2 : '`' ∉ p₂.toList)
    (h : packageHeader env p₁ ++ rest₁ = packageHeader env p₂ ++ rest₂) : p₁ = p₂ :=
  packageHeader_inj env p₁ p₂ rest₁ rest₂ h1 h2 hb1 hb2 h

/-- COUNTEREXAMPLE without the back-quote condition: the paths `` `as` `` and `as` have the same header. -/
example : packageHeader { api := { package := "p" }, safe := false } "`as`"
    = packageHeader { api := { package := "p" }, safe := false } "as" := by decide +kernel

/-! ### 8. the shape of a stub path -/

/-- `dirSegments d` = `pathParts d.dir`, minus the last segment for stubs created from `__init__` re-exports;
    `stubFileName d` = `d.name.lstrip("_") + ".sdsstub"`. -/
theorem stubPath_shape (d : StubData) :
    stubPath d = joinWith "/" (dirSegments d ++ [pyLstrip d.name "_" ++ ".sdsstub"])
    ∧ dirSegments d = (if d.isPackageModule then dropLast' (pathParts d.dir) else pathParts d.dir) :=
  ⟨rfl, rfl⟩

/-- normalisation: a path never has an empty or a `.` segment, and segments contain no `/` -/
theorem pathParts_segments (x s : String) (h : s ∈ pathParts x) : s ≠ "" ∧ s ≠ "." ∧ '/' ∉ s.toList :=
  ⟨(mem_pathParts x s h).2.1, (mem_pathParts x s h).2.2, sep_not_mem_pySplit '/' x s (mem_pathParts x s h).1⟩

/-- the `/`-segments of the path are the directory segments followed by the file name … -/
theorem stubPath_segments (d : StubData) (hn : '/' ∉ d.name.toList) :
    splitSlash (stubPath d) = dirSegments d ++ [pyLstrip d.name "_" ++ ".sdsstub"] :=
  splitSlash_stubPath d hn

/-- … hence the file lies inside the output directory: the relative path has no empty, `.` or `..` segment,
    provided the directory has no `..` segment and the name no `/`. -/
theorem stubPath_inside (d : StubData) (hn : '/' ∉ d.name.toList) (hd : ".." ∉ splitSlash d.dir) :
    ∀ s ∈ splitSlash (stubPath d), s ≠ "" ∧ s ≠ "." ∧ s ≠ ".." := by
  intro s hs
  rw [splitSlash_stubPath d hn, List.mem_append, List.mem_singleton] at hs
  rcases hs with hs | rfl
  · have hs' : s ∈ pathParts d.dir := by
      unfold dirSegments at hs
      split at hs
      · exact mem_dropLast' s _ hs
      · exact hs
    obtain ⟨h1, h2, h3⟩ := mem_pathParts _ _ hs'
    exact ⟨h2, h3, fun e => hd (e ▸ h1)⟩
  · exact append_sdsstub_ne _

/-- COUNTEREXAMPLES for the two side conditions -/
example : stubPath { dir := "pkg/../..", name := "m", text := "", isPackageModule := false } = "pkg/../../m.sdsstub" := by
  decide +kernel
example : stubPath { dir := "pkg", name := "../../m", text := "", isPackageModule := false } = "pkg/../../m.sdsstub" := by
  decide +kernel

/-! ### 5. module stubs: the directory spells the announced package -/

/-- `modulePackage env m` is the path of the shortest public re-export of the module if there is one, else the
    module id with `/` replaced by `.`; `moduleDoc m` is `""` or the module's comment block followed by an
    empty line; `moduleStubName env m` is the alias chosen by the same re-export lookup, else `m.name`.
    Both `createModuleString` (for the header) and `generateModules` (for the directory) evaluate
    `shortestPublicReexport env.api.reexportMap m.name "" true`; the directory always agrees with the header. -/
theorem module_stub_dir_spells_package (env : Env) (ms : List Module) (st : St) (ds : List StubData) (st' : St)
    (h : generateModules env ms st = .ok (ds, st')) :
    ∀ d ∈ ds, d.isPackageModule = false ∧ ∃ m ∈ ms, ∃ doc rest pkg,
      d.text = doc ++ packageHeader env pkg ++ rest
      ∧ d.dir = replaceChar pkg '.' "/"
      ∧ (doc = "" ∨ doc = sdsDocstringDescription m.docstring "" ++ "\n")
      ∧ pkg = modulePackage env m
      ∧ (d.name = m.name ∨ d.name = (shortestPublicReexport env.api.reexportMap m.name "" true).2) := by
  intro d hd
  obtain ⟨m, hm, h1, h2, h3, rest, h4⟩ := generateModules_spec env ms st ds st' h d hd
  refine ⟨h1, m, hm, moduleDoc m, rest, modulePackage env m, h4, h2, ?_, rfl, ?_⟩
  · unfold moduleDoc
    split
    · exact Or.inr rfl
    · rename_i hne
      left
      simpa using hne
  · rw [h3]; unfold moduleStubName
    split
    · exact Or.inr rfl
    · exact Or.inl rfl

/-- what `modulePackage` is -/
theorem modulePackage_eq (env : Env) (m : Module) :
    modulePackage env m =
      if (shortestPublicReexport env.api.reexportMap m.name "" true).1 != ""
      then (shortestPublicReexport env.api.reexportMap m.name "" true).1
      else joinWith "." (splitSlash m.id) := rfl

/-- … and it is never a third thing: the package a module stub announces (and the directory it is written to) is the module's
    own dotted id, or the dotted id of a module that stands in the re-export map (`Proofs/ShortestMem`: the result of
    `_get_shortest_public_reexport` is empty or the id of one of the re-exporting modules) -/
theorem module_package_own_or_reexporter (env : Env) (m : Module) :
    modulePackage env m = joinWith "." (splitSlash m.id) ∨
    ∃ kv ∈ env.api.reexportMap, ∃ r ∈ kv.2, modulePackage env m = joinWith "." (splitSlash r.id) := by
  unfold modulePackage
  rcases sm_shortest_is_reexporter env.api.reexportMap m.name "" true with h | ⟨kv, hkv, r, hr, h⟩
  · left; rw [h]; simp
  · split
    · right; exact ⟨kv, hkv, r, hr, h⟩
    · left; rfl

/-- the directory segments of `pkg.replace(".", "/")` are exactly the dot-segments of the announced path -/
theorem dir_segments_are_dot_segments (pkg : String) (h : '/' ∉ pkg.toList) :
    splitSlash (replaceChar pkg '.' "/") = splitDot pkg :=
  splitSlash_replaceChar_dot pkg h

/-- … and they are the dot-segments of the package line `escapePath pkg` with the back-quotes stripped:
    the directory spells the announced path segment by segment also where a segment is an escaped keyword -/
theorem dir_segments_are_unescaped_package_segments (pkg : String) (h : '/' ∉ pkg.toList) (hb : '`' ∉ pkg.toList) :
    splitSlash (replaceChar pkg '.' "/") = (splitDot (escapePath pkg)).map pf_unescapeSegment := by
  rw [splitSlash_replaceChar_dot pkg h, pf_splitDot_escapePath, List.map_map]
  conv => lhs; rw [← List.map_id (splitDot pkg)]
  apply List.map_congr_left
  intro s hs
  exact (pf_unescapeSegment_escapeKeyword s (fun hx => hb (mem_of_mem_pySplit '.' pkg s hs '`' hx))).symm

/-- so, for a module stub, the path is: the dot-segments of the announced module path that are not empty,
    then the file name -/
theorem module_stub_path (d : StubData) (pkg : String) (hp : d.isPackageModule = false)
    (hd : d.dir = replaceChar pkg '.' "/") (h : '/' ∉ pkg.toList) :
    stubPath d = joinWith "/" ((splitDot pkg).filter (fun s => s != "") ++ [pyLstrip d.name "_" ++ ".sdsstub"]) := by
  unfold stubPath pathParts
  rw [hp, hd, splitSlash_replaceChar_dot pkg h]
  simp only [Bool.false_eq_true, if_false]
  congr 2
  apply List.filter_congr
  intro s hs
  have : s ≠ "." := ne_dot_of_mem_splitDot pkg s hs
  simp [this]

/-! ### 9. placeholder stubs for classes of other libraries -/

/-- For class path `cp = s₁.….sₙ.C` the placeholder goes to `s₁/…/sₙ/<sₙ without leading underscores>.sdsstub`
    (like the stub of a module of the package, `stubPath_shape`), and a freshly written file starts with the
    header announcing `s₁.….sₙ` (`header_announces_python_module`; for the segments of its package line see
    `placeholder_package_line_spells_dir`). -/
theorem placeholder_path_spells_package (env : Env) (cp : String) (created existing : List String) (op : WriteOp)
    (created' : List String)
    (h : createOutsidePackageClass env.safe cp created existing = .ok (op, created')) :
    dropLast' (splitDot cp) ≠ []
    ∧ op.path = joinWith "/" (pathParts (joinWith "/" (dropLast' (splitDot cp)))
                              ++ [pyLstrip (lastD "" (dropLast' (splitDot cp))) "_" ++ ".sdsstub"])
    ∧ ((∀ s ∈ dropLast' (splitDot cp), '/' ∉ s.toList ∧ s ≠ "") →
        op.path = joinWith "/" (dropLast' (splitDot cp) ++ [pyLstrip (lastD "" (dropLast' (splitDot cp))) "_" ++ ".sdsstub"])
        ∧ splitSlash op.path
            = dropLast' (splitDot cp) ++ [pyLstrip (lastD "" (dropLast' (splitDot cp))) "_" ++ ".sdsstub"])
    ∧ (op.mode = .write → ∃ rest, op.text = packageHeader env (joinWith "." (dropLast' (splitDot cp))) ++ rest)
    ∧ splitDot (joinWith "." (dropLast' (splitDot cp))) = dropLast' (splitDot cp) := by
  obtain ⟨hne, hp, _, hcase⟩ := createOutsidePackageClass_ok h
  refine ⟨hne, hp, ?_, ?_, ?_⟩
  · intro hs
    have hpp : pathParts (joinWith "/" (dropLast' (splitDot cp))) = dropLast' (splitDot cp) :=
      pathParts_joinWith _ (fun s hs' => ⟨(hs s hs').1, (hs s hs').2,
        ne_dot_of_mem_splitDot cp s (mem_dropLast' s _ hs')⟩)
    refine ⟨?_, ?_⟩
    · rw [hp]; unfold outsideFile outsideModulePath outsideModuleName; rw [hpp]
    · rw [hp]; exact splitSlash_outsideFile cp hs
  · intro hw
    rcases hcase with ⟨ha, _⟩ | ⟨_, ht, _⟩
    · rw [ha] at hw; exact absurd hw (by simp)
    · exact ⟨_, ht⟩
  · unfold splitDot
    apply pySplit_joinWith '.' "." (by decide) _ hne
    intro s hs
    exact sep_not_mem_pySplit '.' cp s (mem_dropLast' s _ hs)

/-- The base name of a placeholder file is the module name `sₙ` without its leading underscores, exactly as for
    the stubs of the package's own modules and re-exported declarations (`stubPath_segments`): the last
    `/`-segment of the path is `sₙ.lstrip("_") + ".sdsstub"`, and the stem does not start with `_`. -/
theorem placeholder_base_name (safe : Bool) (cp : String) (created existing : List String) (op : WriteOp)
    (created' : List String)
    (h : createOutsidePackageClass safe cp created existing = .ok (op, created'))
    (hs : ∀ s ∈ dropLast' (splitDot cp), '/' ∉ s.toList ∧ s ≠ "") :
    lastD "" (splitSlash op.path) = pyLstrip (lastD "" (dropLast' (splitDot cp))) "_" ++ ".sdsstub"
    ∧ (pyLstrip (lastD "" (dropLast' (splitDot cp))) "_").toList.head? ≠ some '_' := by
  obtain ⟨_, hp, _, _⟩ := createOutsidePackageClass_ok h
  refine ⟨?_, pyLstrip_head_not_mem _ _ '_' (by decide)⟩
  rw [hp, splitSlash_outsideFile cp hs, lastD_append_singleton]
  rfl

/-- The package line of a placeholder, segment by segment: for the announced path
    `pkg = s₁.….sₙ` (which the convention leaves unchanged, else it is in the annotation) the line is
    `escapePath pkg`, its dot-segments are the `sᵢ` with keywords back-quoted, and stripping the back-quotes
    gives the directory segments back. -/
theorem placeholder_package_line_spells_dir (cp : String) (hne : dropLast' (splitDot cp) ≠ []) :
    splitDot (escapePath (joinWith "." (dropLast' (splitDot cp)))) = (dropLast' (splitDot cp)).map escapeKeyword
    ∧ ('`' ∉ cp.toList →
        splitDot (unescapePath (escapePath (joinWith "." (dropLast' (splitDot cp))))) = dropLast' (splitDot cp)) := by
  have hsplit : splitDot (joinWith "." (dropLast' (splitDot cp))) = dropLast' (splitDot cp) := by
    unfold splitDot
    apply pySplit_joinWith '.' "." (by decide) _ hne
    intro s hs
    exact sep_not_mem_pySplit '.' cp s (mem_dropLast' s _ hs)
  refine ⟨by rw [pf_splitDot_escapePath, hsplit], fun hb => ?_⟩
  rw [unescapePath_escapePath _ ?_, hsplit]
  intro hx
  rw [toList_joinWith] at hx
  rcases pf_mem_joinL _ _ _ hx with h | ⟨q, hq, hxq⟩
  · exact absurd h (by decide)
  · rw [List.mem_map] at hq
    obtain ⟨t, ht, rfl⟩ := hq
    exact hb (mem_of_mem_pySplit '.' cp t (mem_dropLast' t _ ht) '`' hxq)

/-- `path_parts[-1]` raises `IndexError` exactly for class paths without a dot; there is no other error. -/
theorem placeholder_error_iff (safe : Bool) (cp : String) (created existing : List String) (e : PyErr) :
    createOutsidePackageClass safe cp created existing = .error e ↔ ('.' ∉ cp.toList ∧ e = .indexError) := by
  rw [createOutsidePackageClass_eq, ← dropLast'_splitDot_eq_nil]
  constructor
  · intro h
    split at h
    · rename_i hnil
      simp only [Except.error.injEq] at h
      exact ⟨hnil, h.symm⟩
    · simp only at h
      split at h <;> exact absurd h (by simp)
  · rintro ⟨hnil, rfl⟩
    simp [hnil]

/-! ### 6. stubs created from `__init__` re-exports -/

/-- A re-exported declaration `el` of the package module `moduleId` gets the stub data
    `dir = moduleId/el.name`, flagged as package module, and its text starts with the header that announces
    the dotted form of `dir` without its last segment.  (The proof needs the frame property that the string
    generation never touches `creatingReexport` / `reexportModuleId`, `createClassString_keeps` etc.) -/
theorem reexport_stub_dir_spells_package (env : Env) (moduleId : String) (els : List Node) (st : St)
    (ds : List StubData) (st' : St) (hst : st.creatingReexport = true)
    (h : createReexportElements env moduleId els st = .ok (ds, st')) :
    ∀ d ∈ ds, d.isPackageModule = true ∧ (∃ el ∈ els, d.name = el.name) ∧ d.dir = moduleId ++ "/" ++ d.name
      ∧ (∃ rest, d.text = packageHeader env (joinWith "." (dropLast' (splitSlash d.dir))) ++ rest)
      -- for a declaration name without `/`: the announced path is the dotted `moduleId`
      ∧ ('/' ∉ d.name.toList → dropLast' (splitSlash d.dir) = splitSlash moduleId)
      -- … and the file is `<moduleId>/<name without leading underscores>.sdsstub`
      ∧ ('/' ∉ d.name.toList → d.name ≠ "" → d.name ≠ "." →
          stubPath d = joinWith "/" (pathParts moduleId ++ [pyLstrip d.name "_" ++ ".sdsstub"])
          ∧ ((∀ s ∈ splitSlash moduleId, s ≠ "" ∧ s ≠ ".") →
              splitSlash (stubPath d) = splitSlash moduleId ++ [pyLstrip d.name "_" ++ ".sdsstub"])) := by
  intro d hd
  obtain ⟨el, hel, h1, h2, h3, rest, h4⟩ := createReexportElements_spec env moduleId els st ds st' hst h d hd
  rw [← h2] at h3 h4
  refine ⟨h1, ⟨el, hel, h2⟩, h3, ⟨rest, by rw [h3]; exact h4⟩, ?_, ?_⟩
  · intro hn
    rw [h3, splitSlash_append_name moduleId d.name hn, dropLast'_append_singleton]
  · intro hn hne hnd
    have hp : stubPath d = joinWith "/" (pathParts moduleId ++ [pyLstrip d.name "_" ++ ".sdsstub"]) := by
      unfold stubPath
      rw [h1, h3, pathParts_append_name moduleId d.name hn hne hnd]
      simp only [if_true, dropLast'_append_singleton]
    refine ⟨hp, ?_⟩
    intro hseg
    have := splitSlash_stubPath d hn
    unfold dirSegments stubFileName at this
    rw [h1, h3, pathParts_append_name moduleId d.name hn hne hnd] at this
    simp only [if_true, dropLast'_append_singleton] at this
    rw [pathParts_eq_splitSlash moduleId hseg] at this
    exact this

/-- `createReexportModules` runs `createReexportElements` with `creatingReexport = true` -/
theorem reexport_modules_stubs_are_package_modules (env : Env) :
    ∀ (rs : List (String × List Node)) (st : St) (ds : List StubData) (st' : St),
      createReexportModules env rs st = .ok (ds, st') →
      ∀ d ∈ ds, d.isPackageModule = true ∧ ∃ r ∈ rs, (∃ el ∈ r.2, d.name = el.name) ∧ d.dir = r.1 ++ "/" ++ d.name
        ∧ ∃ rest, d.text = packageHeader env (joinWith "." (dropLast' (splitSlash d.dir))) ++ rest :=
  createReexportModules_spec env

/-! ### 10. two texts, one path -/

/-- Exactly when two stubs are sent to the same file: same normalised directory, and names that differ at
    most in their leading underscores. -/
theorem same_path_iff (d₁ d₂ : StubData) (h1 : '/' ∉ d₁.name.toList) (h2 : '/' ∉ d₂.name.toList) :
    stubPath d₁ = stubPath d₂ ↔ dirSegments d₁ = dirSegments d₂ ∧ pyLstrip d₁.name "_" = pyLstrip d₂.name "_" :=
  stubPath_eq_iff d₁ d₂ h1 h2

/-- COUNTEREXAMPLE 1: modules `_x` and `x` of one package are written to the same file; the second text
    replaces the first. -/
example :
    ((createStubFiles true
        [{ dir := "pkg", name := "_x", text := "A", isPackageModule := false },
         { dir := "pkg", name := "x", text := "B", isPackageModule := false }] [] []).toOption.map
      fun ops => (ops.map fun o => (o.path, o.mode, o.text), applyWrites [] ops))
    = some ([("pkg/x.sdsstub", .write, "A"), ("pkg/x.sdsstub", .write, "B")], [("pkg/x.sdsstub", "B")]) := by
  decide +kernel

/-- COUNTEREXAMPLE 2: the placeholder for class `pkg.colors.Color` is *written* (first creation of its directory
    in the run) over the module stub `pkg/colors/colors.sdsstub`. -/
example :
    ((createStubFiles true [{ dir := "pkg/colors", name := "colors", text := "M", isPackageModule := false }]
        ["pkg.colors.Color"] []).toOption.map
      fun ops => (ops.map fun o => (o.path, o.mode), applyWrites [] ops))
    = some ([("pkg/colors/colors.sdsstub", .write), ("pkg/colors/colors.sdsstub", .write)],
            [("pkg/colors/colors.sdsstub", "package pkg.colors\n\nclass Color\n")]) := by
  decide +kernel

/-- COUNTEREXAMPLE 2' (same exclusion, new instances since the placeholder's file name drops the leading
    underscores of the module name): the placeholder for class `pkg._colors.Color` goes to
    `pkg/_colors/colors.sdsstub`, the file of the module stub of `pkg._colors`, and is *written* over it.
    (With the file name `_colors.sdsstub` the two did not meet: no module stub has a leading underscore.) -/
example :
    ((createStubFiles true [{ dir := "pkg/_colors", name := "_colors", text := "M", isPackageModule := false }]
        ["pkg._colors.Color"] []).toOption.map
      fun ops => (ops.map fun o => (o.path, o.mode), applyWrites [] ops))
    = some ([("pkg/_colors/colors.sdsstub", .write), ("pkg/_colors/colors.sdsstub", .write)],
            [("pkg/_colors/colors.sdsstub", "@PythonModule(\"pkg._colors\")\npackage pkg.colors\n\nclass Color\n")]) := by
  decide +kernel

/-- NO new collision between placeholders: the foreign modules `lib._x` and `lib.x` have the same base name
    `x.sdsstub` but different directories `lib/_x` and `lib/x` (the directory keeps the underscores); classes of
    one module still share one file (`OutsideInjective` holds for all plain class paths as before,
    `outsideInjective_of_plain`). -/
example :
    ((createStubFiles true [] ["lib._x.C", "lib.x.D", "lib._x.E"] []).toOption.map
      fun ops => ops.map fun o => (o.path, o.mode))
    = some [("lib/_x/x.sdsstub", .write), ("lib/_x/x.sdsstub", .append), ("lib/x/x.sdsstub", .write)] := by
  decide +kernel

/-- COUNTEREXAMPLE 3 (a third excluded situation): the class paths `a..b.C` and `a.b.D` have different
    directories `a//b` and `a/b`, hence both are "first creations", but the same normalised file. -/
example :
    ((createStubFiles true [] ["a..b.C", "a.b.D"] []).toOption.map fun ops => ops.map fun o => (o.path, o.mode))
    = some [("a/b/b.sdsstub", .write), ("a/b/b.sdsstub", .write)] := by decide +kernel

/-- Under the three exclusions — the stub paths are pairwise different, no placeholder file is a module stub
    file (`outsideFile c`, the file name without leading underscores: this now also excludes a placeholder for
    a class of the package's own private module `pkg._m` next to the module stub `pkg/_m/m.sdsstub`,
    COUNTEREXAMPLE 2'), placeholder files of different directories are different (`OutsideInjective`; it holds when the
    directory segments of all class paths are non-empty and `/`-free, `outsideInjective_of_plain`) — every
    path receives at most one `write`, whatever the directory contains; and in an empty directory (or for
    coherent class paths) every append follows a write of the same run. -/
theorem no_two_texts_one_path_partial (safe : Bool) (stubs : List StubData) (outside pre : List String)
    (ops : List WriteOp) (h : createStubFiles safe stubs outside pre = .ok ops)
    (h1 : (stubs.map stubPath).Nodup) (h2 : ∀ c ∈ outside, outsideFile c ∉ stubs.map stubPath)
    (h3 : OutsideInjective outside) :
    (∀ p, writeCount p ops ≤ 1) ∧ ((pre = [] ∨ CoherentOutside outside) → FirstOpsWrite ops) := by
  refine ⟨fun p => createStubFiles_writeCount h h1 h2 h3 p, ?_⟩
  rintro (rfl | hc)
  · exact createStubFiles_firstOpsWrite_fresh h
  · rw [createStubFiles_indep safe stubs outside pre [] hc] at h
    exact createStubFiles_firstOpsWrite_fresh h

/-- the side conditions on the class paths hold when their directory segments are non-empty and `/`-free -/
theorem plain_outside (outside : List String) (h : PlainOutside outside) :
    OutsideInjective outside ∧ CoherentOutside outside :=
  ⟨outsideInjective_of_plain outside h, coherentOutside_of_plain outside h⟩

/-! ### end to end -/

/-- Every stub of a run is a module stub (5.) or a stub of a re-exported declaration (6.): in both cases the
    text starts (after the optional module comment) with the header announcing the Python module path that
    the directory spells. -/
theorem every_stub_spells_package (api : API) (safe : Bool) (pre : List String) (r : GenResult)
    (h : runGenerator api safe pre = .ok r) :
    ∀ d ∈ r.stubs,
      (∃ m ∈ api.modules, d.isPackageModule = false
        ∧ d.dir = replaceChar (modulePackage { api := api, safe := safe } m) '.' "/"
        ∧ d.name = moduleStubName { api := api, safe := safe } m
        ∧ ∃ rest, d.text = moduleDoc m
            ++ packageHeader { api := api, safe := safe } (modulePackage { api := api, safe := safe } m) ++ rest)
      ∨ (d.isPackageModule = true ∧ ∃ moduleId, d.dir = moduleId ++ "/" ++ d.name
        ∧ ∃ rest, d.text = packageHeader { api := api, safe := safe } (joinWith "." (dropLast' (splitSlash d.dir)))
            ++ rest) := by
  unfold runGenerator at h
  simp only at h
  cases hg : (generateStubData { api := api, safe := safe }).run {} with
  | error e => rw [hg] at h; exact absurd h (by simp)
  | ok x =>
    obtain ⟨stubs, st⟩ := x
    rw [hg] at h
    simp only at h
    cases hf : createStubFiles safe stubs st.outside pre with
    | error e => rw [hf] at h; exact absurd h (by simp)
    | ok ops =>
      rw [hf] at h
      simp only [Except.ok.injEq] at h
      rw [← h]
      exact generateStubData_spec { api := api, safe := safe } {} stubs st hg

/-! ### Non-vacuity -/

section Examples

example : packageHeader { api := { package := "p" }, safe := true } "my_pkg.sub_mod"
    = "@PythonModule(\"my_pkg.sub_mod\")\npackage myPkg.subMod\n" := by decide +kernel
example : packageHeader { api := { package := "p" }, safe := true } "pkg.mod" = "package pkg.mod\n" := by decide +kernel
example : packageHeader { api := { package := "p" }, safe := false } "my_pkg.sub_mod" = "package my_pkg.sub_mod\n" := by
  decide +kernel

/-- keyword segments (`sub`, `internal`) are back-quoted in the package line, never in the annotation -/
example : packageHeader { api := { package := "p" }, safe := true } "pkg.sub.internal"
    = "package pkg.`sub`.`internal`\n" := by decide +kernel
example : packageHeader { api := { package := "p" }, safe := true } "my_pkg.sub.internal"
    = "@PythonModule(\"my_pkg.sub.internal\")\npackage myPkg.`sub`.`internal`\n" := by decide +kernel
example : packageHeader { api := { package := "p" }, safe := false } "my_pkg.sub.internal"
    = "package my_pkg.`sub`.`internal`\n" := by decide +kernel
example : unescapePath "pkg.`sub`.`internal`" = "pkg.sub.internal" := by decide +kernel
example : escapePath "pkg.sub.internal" = "pkg.`sub`.`internal`" ∧ escapePath "pkg.mod" = "pkg.mod" := by decide +kernel

example : stubPath { dir := "pkg/./sub//_mod", name := "__mod", text := "", isPackageModule := false }
    = "pkg/sub/_mod/mod.sdsstub" := by decide +kernel
example : stubPath { dir := "pkg/sub/_Cls", name := "_Cls", text := "", isPackageModule := true }
    = "pkg/sub/Cls.sdsstub" := by decide +kernel

example : (createOutsidePackageClass true "np.core.Array" [] []).toOption.map (fun r => (r.1.path, r.1.mode, r.1.text, r.2))
    = some ("np/core/core.sdsstub", .write, "package np.core\n\nclass Array\n", ["np/core"]) := by decide +kernel
example : (createOutsidePackageClass true "np.internal.Array" [] []).toOption.map (fun r => (r.1.path, r.1.mode, r.1.text, r.2))
    = some ("np/internal/internal.sdsstub", .write, "package np.`internal`\n\nclass Array\n", ["np/internal"]) := by
  decide +kernel
/-- a class of a private module of another library: the directory keeps the underscore, the file name loses it
    (like `stubPath` for the package's own modules); the package line is `package lib._impl`, or the converted
    path plus the annotation under the naming convention -/
example : (createOutsidePackageClass false "lib._impl.Thing" [] []).toOption.map (fun r => (r.1.path, r.1.mode, r.1.text, r.2))
    = some ("lib/_impl/impl.sdsstub", .write, "package lib._impl\n\nclass Thing\n", ["lib/_impl"]) := by decide +kernel
example : (createOutsidePackageClass true "lib._impl.Thing" [] []).toOption.map (fun r => (r.1.path, r.1.mode, r.1.text, r.2))
    = some ("lib/_impl/impl.sdsstub", .write, "@PythonModule(\"lib._impl\")\npackage lib.impl\n\nclass Thing\n", ["lib/_impl"]) := by
  decide +kernel
/-- only LEADING underscores go; a module name of underscores only leaves the bare suffix -/
example : ((createOutsidePackageClass false "lib.__impl__.Thing" [] []).toOption.map (·.1.path),
           (createOutsidePackageClass false "lib.__.Thing" [] []).toOption.map (·.1.path))
    = (some "lib/__impl__/impl__.sdsstub", some "lib/__/.sdsstub") := by decide +kernel
example : createOutsidePackageClass true "Array" [] [] = .error .indexError :=
  (placeholder_error_iff _ _ _ _ _).2 ⟨by decide, rfl⟩

/-- the hypotheses of `no_two_texts_one_path_partial` are satisfiable (with an append in the log) -/
example : PlainOutside ["np.core.Array", "np.core.Matrix"] := by unfold PlainOutside; decide +kernel
example : ([({ dir := "pkg", name := "a", text := "A", isPackageModule := false } : StubData),
            { dir := "pkg", name := "b", text := "B", isPackageModule := false }].map stubPath).Nodup := by
  decide +kernel

/-- a whole run: a module stub with an annotation, a function moved to the package `__init__` re-export, and a
    placeholder for a class of another library -/
private def exApi : API :=
  { package := "pkg",
    modules := [
      { id := "pkg/__init__", name := "__init__" },
      { id := "pkg/my_mod", name := "my_mod", docstring := "Doc.",
        functions := [
          { id := "pkg/my_mod/do_it", name := "do_it", isPublic := true,
            reexportedBy := [{ id := "pkg", qualifiedImports := [{ qualifiedName := "pkg.my_mod.do_it", «alias» := none }] }] },
          { id := "pkg/my_mod/_keep", name := "keep", isPublic := true,
            results := [{ id := "r", name := "result_1", type := some (.named "Array" "numpy.core.Array") }] }] }] }

example : (runGenerator exApi true).toOption.map (fun r =>
      (r.stubs.map (fun d => (d.dir, d.name, d.isPackageModule, stubPath d)), r.ops.map (fun o => (o.path, o.mode))))
    = some ([("pkg/my_mod", "my_mod", false, "pkg/my_mod/my_mod.sdsstub"), ("pkg/do_it", "do_it", true, "pkg/do_it.sdsstub")],
            [("pkg/my_mod/my_mod.sdsstub", .write), ("pkg/do_it.sdsstub", .write), ("numpy/core/core.sdsstub", .write)]) := by
  decide +kernel

example : (runGenerator exApi true).toOption.map (fun r => r.stubs.map (·.text))
    = some ["/**\n * Doc.\n */\n\n@PythonModule(\"pkg.my_mod\")\npackage pkg.myMod\n\nfrom numpy.core import Array\n\n@Pure\nfun keep() -> result1: Array\n",
            "package pkg\n\n// TODO Result type information missing.\n@Pure\n@PythonName(\"do_it\")\nfun doIt()\n"] := by
  decide +kernel

/-- a run that uses a class of a private module of another library (`lib._impl.Thing`): the import names the
    module path with the underscore, the placeholder file is `lib/_impl/impl.sdsstub` and announces `lib._impl` -/
private def exApiPriv : API :=
  { package := "pkg",
    modules := [
      { id := "pkg/m", name := "m",
        functions := [
          { id := "pkg/m/f", name := "f", isPublic := true,
            results := [{ id := "r", name := "result_1", type := some (.named "Thing" "lib._impl.Thing") }] }] }] }

example : (runGenerator exApiPriv false).toOption.map (fun r => (r.outside, r.ops.map (fun o => (o.path, o.mode, o.text))))
    = some (["lib._impl.Thing"],
            [("pkg/m/m.sdsstub", .write, "package pkg.m\n\nfrom lib._impl import Thing\n\n@Pure\nfun f() -> result_1: Thing\n"),
             ("lib/_impl/impl.sdsstub", .write, "package lib._impl\n\nclass Thing\n")]) := by
  decide +kernel

/-- a run with the module id `pkg/sub/internal`, two segments of which are Safe-DS keywords: the directory is
    spelled with the plain segments, the package line (and the `from` part of the import) with the escaped ones -/
private def exApiKw : API :=
  { package := "pkg",
    modules := [
      { id := "pkg/sub/internal", name := "internal",
        functions := [
          { id := "pkg/sub/internal/f", name := "f", isPublic := true,
            results := [{ id := "r", name := "result_1", type := some (.named "Array" "numpy.internal.Array") }] }] }] }

example : (runGenerator exApiKw true).toOption.map (fun r =>
      (r.stubs.map (fun d => (d.dir, d.name, d.isPackageModule, stubPath d)), r.ops.map (fun o => (o.path, o.mode))))
    = some ([("pkg/sub/internal", "internal", false, "pkg/sub/internal/internal.sdsstub")],
            [("pkg/sub/internal/internal.sdsstub", .write), ("numpy/internal/internal.sdsstub", .write)]) := by
  decide +kernel

example : (runGenerator exApiKw true).toOption.map (fun r => (r.stubs.map (·.text), r.ops.map (·.text)))
    = some (["package pkg.`sub`.`internal`\n\nfrom numpy.`internal` import Array\n\n@Pure\nfun f() -> result1: Array\n"],
            ["package pkg.`sub`.`internal`\n\nfrom numpy.`internal` import Array\n\n@Pure\nfun f() -> result1: Array\n",
             "package numpy.`internal`\n\nclass Array\n"]) := by
  decide +kernel

end Examples

end StubGen.C10
