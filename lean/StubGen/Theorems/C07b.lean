/-
C07 — the two halves composed for an ANNOTATED function: from the return annotation to the result list in the stub.
-/
import StubGen.Theorems.C07
import StubGen.Theorems.C07a
import StubGen.Theorems.C05b

namespace StubGen.C07b

open StubGen Spec.MypyMap

/-- the result the analyser creates for an un-documented single return type -/
def result1 (fid : String) (t : AType) : Result :=
  { id := fid ++ "/" ++ resultNameGen 1, name := resultNameGen 1, type := some t }

/-- the generated name of the first result -/
example : resultNameGen 1 = "result_1" := by decide

/-- `-> None`: the analyser records the one result `result_1: None` (state untouched) … -/
theorem annotated_none_api (env : AEnv) (f : FuncDef) (fid : String) (s : VSt)
    (hn : (f.name == "__init__") = false) (hc : f.hasCallableType = true) (hr : f.retType = some .none) :
    parseResults env f fid [] s = .ok ([result1 fid (.named "None" "builtins.None")], s) := by
  unfold parseResults
  simp only [hn, hc, hr, Bool.false_eq_true, if_false, if_true, bind, StateT.bind, Except.bind, pure, StateT.pure, Except.pure]
  rfl

/-- … and the generator shows NO result for it: no arrow, no marker, whatever its state. END TO END for `-> None`. -/
theorem annotated_none_stub (env : AEnv) (f : FuncDef) (fid : String) (s : VSt)
    (hn : (f.name == "__init__") = false) (hc : f.hasCallableType = true) (hr : f.retType = some .none)
    (genv : Env) (gst : St) :
    ∃ rs, parseResults env f fid [] s = .ok (rs, s) ∧ createResultString genv rs gst = .ok ("", gst) :=
  ⟨_, annotated_none_api env f fid s hn hc hr, C07.none_annotation_no_results genv _ gst rfl⟩

/-- any other annotation whose analysed type is a hint (not an `Any` mypy filled in) and that the analyser translates to
    a non-tuple type `t`: exactly one result `result_1: t`, where `t` is the specified mapping of the mypy type -/
theorem annotated_single_api (env : AEnv) (f : FuncDef) (fid : String) (s s' : VSt) (rt : MType) (t : AType)
    (hn : (f.name == "__init__") = false) (hc : f.hasCallableType = true) (hr : f.retType = some rt)
    (hnone : rt ≠ .none) (hany : isIncorrectAny rt = false)
    (ht : toAbstract env rt f.unanalyzedRet s = .ok (t, s')) (hnt : ∀ ts, t ≠ .tuple ts) :
    parseResults env f fid [] s = .ok ([result1 fid t], s') ∧ t = mapTypeUn (resolveOf env s) rt f.unanalyzedRet := by
  refine ⟨?_, C05b.hint_type env rt f.unanalyzedRet s s' t ht⟩
  unfold parseResults
  cases rt with
  | none => exact absurd rfl hnone
  | _ =>
    simp only [hn, hc, hr, hany, Bool.and_false, Bool.false_eq_true, if_false, if_true, bind, StateT.bind, Except.bind, pure,
      StateT.pure, Except.pure, ht]
    cases t with
    | tuple ts => exact absurd rfl (hnt ts)
    | _ => rfl

/-- END TO END for `-> T` (a hint the analyser translates to a non-tuple, non-`None` type that renders to a non-empty
    text): the stub shows exactly one result, named after the generated name `result_1` (converted, keyword-escaped), whose
    type text is the SPECIFIED text of the SPECIFIED mapping of the mypy type. -/
theorem annotated_single_stub (env : AEnv) (f : FuncDef) (fid : String) (s s' : VSt) (rt : MType) (t : AType)
    (hn : (f.name == "__init__") = false) (hc : f.hasCallableType = true) (hr : f.retType = some rt)
    (hnone : rt ≠ .none) (hany : isIncorrectAny rt = false)
    (ht : toAbstract env rt f.unanalyzedRet s = .ok (t, s')) (hnt : ∀ ts, t ≠ .tuple ts)
    (genv : Env) (gst gst' : St) (tx : String)
    (hts : typeStr genv t gst = .ok (tx, gst')) (hne : tx ≠ "") (hnn : isNoneNamed t = false) (hl : tt_litOk t = true) :
    ∃ rs, parseResults env f fid [] s = .ok (rs, s') ∧
      createResultString genv rs gst
        = .ok (" -> " ++ escapeKeyword (convertName (resultNameGen 1) genv.safe) ++ ": " ++ tx, gst') ∧
      tx = Spec.typeText genv.safe (mapTypeUn (resolveOf env s) rt f.unanalyzedRet) := by
  obtain ⟨h1, _⟩ := annotated_single_api env f fid s s' rt t hn hc hr hnone hany ht hnt
  refine ⟨_, h1, ?_, C05b.hint_to_stub_text env rt f.unanalyzedRet s s' t genv gst gst' tx ht hts hl⟩
  exact C07.single_result genv (result1 fid t) t gst gst' tx rfl hnn hts hne

end StubGen.C07b
