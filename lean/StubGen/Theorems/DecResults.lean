/-
T2 obligations (result strings): the model's finite decision functions agree, on EVERY point of their domain, with the table that
`tie/tabulate.py` computes by calling the real function of /repo's working tree (`Generated/DecResults.lean`).  A change of
behaviour changes a row and breaks the kernel-checked `decide` here; one module per table, so that a changed table breaks the
obligations of the properties it belongs to and no others.
-/
import StubGen.Generated.DecResults
import StubGen.Theorems.DecCommon

namespace StubGen.Decisions

open StubGen

/-! ### `_create_result_string` on result lists of length 0 … 2 over {no type, `None`, `int`, `tuple[int]`} × flag -/

def resTypeOf : Nat → Option AType
  | 0 => none | 1 => some (.named "None" "builtins.None") | 2 => some intT | _ => some (.tuple [intT])

def resultsOf : List Nat → Nat → List Result
  | [], _ => []
  | t :: ts, k => { id := "p/m/f/" ++ (if k == 0 then "result_1" else "val"), name := (if k == 0 then "result_1" else "val"),
                    type := resTypeOf t } :: resultsOf ts (k + 1)

def modelResultString (shape : List Nat) (safe : Bool) : String × List String :=
  let env : Env := { api := { package := "p" }, safe := safe }
  match (createResultString env (resultsOf shape 0)).run { moduleId := "p/m" } with
  | .ok (s, st) => (s, sortStrings st.todos)
  | .error e => ("!" ++ e.name, [])

theorem result_string_table :
    Generated.resultStringTable.all (fun r =>
      let m := modelResultString r.1.1 r.1.2
      m.1 == r.2.1 && m.2 == r.2.2) = true := by
  decide +kernel

end StubGen.Decisions
