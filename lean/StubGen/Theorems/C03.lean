/-
C03 — "Each public declaration … appears in the generated stub files exactly once …  Nothing public
is dropped and nothing is emitted twice."  GENERATOR side, stated on the ghost emission log `St.log`
(model: `StubGen.Model.Gen`; the log never influences any text).

Reading guide.  `Δlog` = the entries a call appends (`st'.log = st.log ++ Δ`).  For every generator
function `Δlog` is given EXACTLY, as a pure function of the arguments (definitions with prefix `n03_`
in `StubGen.Proofs.Emission`; their defining equations are restated here as `*_eq` theorems).  All
statements hold for all inputs and all generator states; the only hypothesis is that the run
succeeds (`= .ok …`).

Kinds: `module`, `fun`, `moved`, `prop`, `attr`, `class` … `endclass`, `enum`, `restub`.
-/
import StubGen.Proofs.Emission

namespace StubGen.C03

open StubGen

/-! ### 0. the log is append-only -/

theorem append_only_createFunctionString (env : Env) (f : Function) (indent : String) (isMethod inRe : Bool)
    (st st' : St) (t : String) (h : createFunctionString env f indent isMethod inRe st = .ok (t, st')) :
    ∃ Δ, st'.log = st.log ++ Δ :=
  ⟨_, (n03_createFunctionString_tr env f indent isMethod inRe st t st' h).log⟩

theorem append_only_createPropertyFunctionString (env : Env) (f : Function) (indent : String)
    (st st' : St) (t : String) (h : createPropertyFunctionString env f indent st = .ok (t, st')) :
    ∃ Δ, st'.log = st.log ++ Δ :=
  ⟨_, (n03_createPropertyFunctionString_tr env f indent st t st' h).log⟩

theorem append_only_createAttributes (env : Env) (inner : String) (as : List Attribute)
    (st st' : St) (r : List String × List String) (h : createAttributes env inner as st = .ok (r, st')) :
    ∃ Δ, st'.log = st.log ++ Δ :=
  ⟨_, (n03_createAttributes_tr env inner as st r st' h).2.2.log⟩

theorem append_only_createMethods (env : Env) (inner : String) (isInt : Bool) (ad : List String) (ms : List Function)
    (st st' : St) (r : List String × List String × List String)
    (h : createMethods env inner isInt ad ms st = .ok (r, st')) :
    ∃ Δ, st'.log = st.log ++ Δ :=
  ⟨_, (n03_createMethods_tr env inner isInt ad ms st r st' h).2.2.2.log⟩

theorem append_only_createClassString (env : Env) (fuel : Nat) (c : Class) (indent : String) (inRe : Bool)
    (st st' : St) (t : String) (h : createClassString env fuel c indent inRe st = .ok (t, st')) :
    ∃ Δ, st'.log = st.log ++ Δ :=
  ⟨_, (n03_createClassString_tr env fuel c indent inRe st t st' h).log⟩

theorem append_only_createInternalClassString (env : Env) (fuel : Nat) (sc inner : String) (ad : List String)
    (st st' : St) (t : String) (h : createInternalClassString env fuel sc inner ad st = .ok (t, st')) :
    ∃ Δ, st'.log = st.log ++ Δ :=
  ⟨_, ((n03_class_tr env fuel).2 sc inner ad st t st' h).log⟩

theorem append_only_createFunctions (env : Env) (inRe : Bool) (fs : List Function)
    (st st' : St) (t : String) (h : createFunctions env inRe fs st = .ok (t, st')) :
    ∃ Δ, st'.log = st.log ++ Δ :=
  ⟨_, (n03_createFunctions_tr env inRe fs st t st' h).log⟩

theorem append_only_createClasses (env : Env) (inRe : Bool) (cs : List Class)
    (st st' : St) (t : String) (h : createClasses env inRe cs st = .ok (t, st')) :
    ∃ Δ, st'.log = st.log ++ Δ :=
  ⟨_, (n03_createClasses_tr env inRe cs st t st' h).log⟩

theorem append_only_createModuleString (env : Env) (m : Module)
    (st st' : St) (r : String × String) (h : createModuleString env m st = .ok (r, st')) :
    ∃ Δ, st'.log = st.log ++ Δ :=
  ⟨_, (n03_createModuleString_tr env m st r st' h).log⟩

theorem append_only_callGenerator (env : Env) (m : Module)
    (st st' : St) (r : String × String) (h : callGenerator env m st = .ok (r, st')) :
    ∃ Δ, st'.log = st.log ++ Δ :=
  ⟨_, (n03_callGenerator_log env m st r st' h).1⟩

theorem append_only_createReexportModuleStrings (env : Env)
    (st st' : St) (r : List StubData) (h : createReexportModuleStrings env st = .ok (r, st')) :
    ∃ Δ, st'.log = st.log ++ Δ :=
  ⟨_, (n03_createReexportModuleStrings_log env st r st' h).log⟩

/-- the rendering of types, parameters, results, type variables, marker comments and imports leaves the log
    (and the re-export queue and the module ids) untouched -/
theorem quiet_leaves (env : Env) :
    (∀ t, n03_Quiet (typeStr env t)) ∧ (∀ ps indent b, n03_Quiet (createParameterString env ps indent b)) ∧
    (∀ rs, n03_Quiet (createResultString env rs)) ∧ (∀ b tvs, n03_Quiet (typeVarStrings env b tvs)) ∧
    (∀ tps, n03_Quiet (typeParamStrings env tps)) ∧ (∀ indent, n03_Quiet (createTodoMsg indent)) ∧
    (∀ q, n03_Quiet (addToImports env q)) ∧ n03_Quiet (createImportsString env) :=
  ⟨n03_typeStr_quiet env, n03_createParameterString_quiet env, n03_createResultString_quiet env,
    n03_typeVarStrings_quiet env, n03_typeParamStrings_quiet env, n03_createTodoMsg_quiet,
    n03_addToImports_quiet env, n03_createImportsString_quiet env⟩

example {α : Type} (x : G α) : n03_Quiet x ↔ ∀ st a st', x st = .ok (a, st') → n03_Tr st st' [] [] :=
  ⟨fun h => h.run, fun h => ⟨h⟩⟩

/-! ### when does a top-level declaration move to a re-export stub? -/

/-- `hasNodeShorterReexport` answers `true` exactly under `n03_moves`: some re-exporting module has an id
    with fewer `/`-segments than the current module id … -/
theorem moves_iff (cur : String) (rb : List ModRef) :
    n03_moves cur rb = true ↔ ∃ m ∈ rb, (splitSlash m.id).length < (splitSlash cur).length :=
  n03_moves_iff cur rb

/-- … and the test is made only outside re-export stubs (`n03_movedB _ false inRe _` is the condition under
    which a top-level function or class is logged as `moved`) -/
theorem movedOut_iff (cur : String) (inRe : Bool) (rb : List ModRef) :
    n03_movedB cur false inRe rb = true ↔
      inRe = false ∧ ∃ m ∈ rb, (splitSlash m.id).length < (splitSlash cur).length :=
  n03_movedB_iff cur inRe rb

theorem hasNodeShorterReexport_result (n : String) (rb : List ModRef) (node : Node) (st st' : St) (b : Bool)
    (h : hasNodeShorterReexport n rb node st = .ok (b, st')) :
    b = n03_moves (getModuleId st) rb ∧
      st' = (let e := n03_queueEntry n node (getModuleId st) rb
             if b then { st with reexports := appendReexport st.reexports e.1 e.2 } else st) :=
  n03_hasNodeShorterReexport_wp n rb node st b st' h

/-! ### 1. the functions of a module -/

/-- one entry per PUBLIC function, in order: `moved` if it is re-exported on a shorter path, else `fun`;
    nothing for a private function.  (`createFunctions` logs no other kinds, so this is all of `Δlog`.) -/
theorem functions_log (env : Env) (inRe : Bool) (fs : List Function) (st st' : St) (text : String)
    (h : createFunctions env inRe fs st = .ok (text, st')) :
    st'.log = st.log ++ (fs.filter (·.isPublic)).map fun f =>
      (if n03_movedB (getModuleId st) false inRe f.reexportedBy then "moved" else "fun", f.id) := by
  rw [← n03_functionsLog_eq_map]
  exact (n03_createFunctions_tr env inRe fs st text st' h).log

/-! ### 2. the classes of a module -/

/-- the exact log: per class that gets a stub (public, not derived from an exception), in order, either
    `moved` or the class block -/
theorem classes_log_exact (env : Env) (inRe : Bool) (cs : List Class) (st st' : St) (text : String)
    (h : createClasses env inRe cs st = .ok (text, st')) :
    st'.log = st.log ++ (cs.filter fun c => c.isPublic && !c.inheritsFromException).flatMap fun c =>
      if n03_movedB (getModuleId st) false inRe c.reexportedBy then [("moved", c.id)]
      else n03_classLog env (classFuel env) c :=
  (n03_createClasses_tr env inRe cs st text st' h).log

/-- the top-level entries (`n03_top 0`: those not nested inside a `class` … `endclass` pair) are exactly one
    `class`/`moved` entry per class with `isPublic ∧ ¬ inheritsFromException`, in order -/
theorem classes_log (env : Env) (inRe : Bool) (cs : List Class) (st st' : St) (text : String)
    (h : createClasses env inRe cs st = .ok (text, st')) :
    ∃ Δ, st'.log = st.log ++ Δ ∧
      n03_top 0 Δ = (cs.filter fun c => c.isPublic && !c.inheritsFromException).map fun c =>
        (if n03_movedB (getModuleId st) false inRe c.reexportedBy then "moved" else "class", c.id) :=
  ⟨_, (n03_createClasses_tr env inRe cs st text st' h).log, n03_top_classesLog env _ inRe cs⟩

/-- the top-level view, defined -/
theorem top_eq (d : Nat) (e : LogEntry) (es : List LogEntry) :
    n03_top d [] = [] ∧
    n03_top d (e :: es) =
      if e.1 = "class" then (if d = 0 then e :: n03_top (d + 1) es else n03_top (d + 1) es)
      else if e.1 = "endclass" then n03_top (d - 1) es
      else if d = 0 then e :: n03_top d es else n03_top d es :=
  ⟨rfl, rfl⟩

/-! ### 3. a module -/

/-- functions part ++ classes part ++ one `enum` entry per enum — EVERY enum, also a private one
    (known finding K04-private-enum, see `C04.private_enum_is_logged`) -/
theorem module_log (env : Env) (m : Module) (st st' : St) (r : String × String)
    (h : createModuleString env m st = .ok (r, st')) :
    st'.log = st.log
      ++ ((m.functions.filter (·.isPublic)).map fun f =>
            (if n03_movedB (getModuleId st) false (n03_modInRe env m) f.reexportedBy then "moved" else "fun", f.id))
      ++ ((m.classes.filter fun c => c.isPublic && !c.inheritsFromException).flatMap fun c =>
            if n03_movedB (getModuleId st) false (n03_modInRe env m) c.reexportedBy then [("moved", c.id)]
            else n03_classLog env (classFuel env) c)
      ++ m.enums.map fun e => ("enum", e.id) := by
  rw [(n03_createModuleString_tr env m st r st' h).log, n03_moduleLog, n03_functionsLog_eq_map]
  simp only [List.append_assoc]
  rfl

/-- `inRe` of a module: the module itself is re-exported by a package `__init__` -/
theorem modInRe_eq (env : Env) (m : Module) :
    n03_modInRe env m = ((shortestPublicReexport env.api.reexportMap m.name "" true).1 != "") := rfl

/-- `callGenerator` logs `module` first and runs the module under its own id (fresh generator:
    `creatingReexport = false`) -/
theorem callGenerator_log (env : Env) (m : Module) (st st' : St) (r : String × String)
    (h : callGenerator env m st = .ok (r, st')) (h0 : st.creatingReexport = false) :
    st'.log = st.log ++ ("module", m.id) :: n03_moduleLog env m.id m := by
  have := (n03_callGenerator_log env m st r st' h).1
  simpa [n03_callCur, h0] using this

/-! ### 4. moved, not copied -/

/-- whenever `("moved", f.id)` is logged for a function, the node is appended to the re-export queue — the
    queue grows by exactly one entry per moved function, in order, and by nothing else -/
theorem moved_functions_queued (env : Env) (inRe : Bool) (fs : List Function) (st st' : St) (text : String)
    (h : createFunctions env inRe fs st = .ok (text, st')) :
    st'.reexports = n03_enqueue st.reexports
      ((fs.filter fun f => f.isPublic && n03_movedB (getModuleId st) false inRe f.reexportedBy).map fun f =>
        n03_queueEntry f.name (.fn f) (getModuleId st) f.reexportedBy) := by
  rw [← n03_functionsQueue_eq_map]
  exact (n03_createFunctions_tr env inRe fs st text st' h).reexports

theorem moved_classes_queued (env : Env) (inRe : Bool) (cs : List Class) (st st' : St) (text : String)
    (h : createClasses env inRe cs st = .ok (text, st')) :
    st'.reexports = n03_enqueue st.reexports
      ((cs.filter fun c => (c.isPublic && !c.inheritsFromException)
          && n03_movedB (getModuleId st) false inRe c.reexportedBy).map fun c =>
        n03_queueEntry c.name (.cls c) (getModuleId st) c.reexportedBy) := by
  have := (n03_createClasses_tr env inRe cs st text st' h).reexports
  rw [n03_classesQueue_eq_map] at this
  exact this

/-- the queue of a module: its moved functions, then its moved classes -/
theorem moved_is_queued (env : Env) (m : Module) (st st' : St) (r : String × String)
    (h : createModuleString env m st = .ok (r, st')) :
    st'.reexports = n03_enqueue st.reexports
      (((m.functions.filter fun f => f.isPublic
            && n03_movedB (getModuleId st) false (n03_modInRe env m) f.reexportedBy).map fun f =>
          n03_queueEntry f.name (.fn f) (getModuleId st) f.reexportedBy)
       ++ ((m.classes.filter fun c => (c.isPublic && !c.inheritsFromException)
            && n03_movedB (getModuleId st) false (n03_modInRe env m) c.reexportedBy).map fun c =>
          n03_queueEntry c.name (.cls c) (getModuleId st) c.reexportedBy)) := by
  have := (n03_createModuleString_tr env m st r st' h).reexports
  rw [n03_moduleQueue, n03_functionsQueue_eq_map, n03_classesQueue_eq_map] at this
  exact this

/-- enqueueing, read through the lookup `createReexportModules` performs: under every module id `k` the
    queued nodes grow by exactly the new entries with key `k` — each exactly once, nothing else changes -/
theorem enqueue_lookup (rs : List (String × List Node)) (R : List (String × Node)) (k : String) :
    n03_queuedAt (n03_enqueue rs R) k = n03_queuedAt rs k ++ (R.filter fun kn => kn.1 == k).map (·.2) :=
  n03_queuedAt_enqueue R rs k

theorem enqueue_eq (rs : List (String × List Node)) (R : List (String × Node)) :
    n03_enqueue rs R = R.foldl (fun acc kn => appendReexport acc kn.1 kn.2) rs := rfl

theorem queuedAt_eq (rs : List (String × List Node)) (k : String) :
    n03_queuedAt rs k = match rs.find? (fun kv => kv.1 == k) with
      | some kv => kv.2
      | none => [] := rfl

/-- the key of a moved node is the id of a re-exporting module with the fewest segments (the first such),
    strictly shorter than the current module id; the queued node is the declaration itself, renamed to the
    alias of the re-exporting module's last matching import if that is non-empty -/
theorem queue_key (name : String) (node : Node) (cur : String) (rb : List ModRef) (h : n03_moves cur rb = true) :
    ∃ m ∈ rb, (n03_queueEntry name node cur rb).1 = m.id ∧
      (splitSlash m.id).length < (splitSlash cur).length ∧
      ∀ m' ∈ rb, (splitSlash m.id).length ≤ (splitSlash m'.id).length :=
  n03_queueKey_spec cur rb h

theorem queue_node (name : String) (node : Node) (cur : String) (rb : List ModRef) :
    (n03_queueEntry name node cur rb).2 = node ∨ ∃ a, a ≠ "" ∧ (n03_queueEntry name node cur rb).2 = node.rename a := by
  unfold n03_queueEntry n03_movedNode
  dsimp only
  split
  · split
    · rename_i a _
      by_cases ha : (a != "") = true
      · rw [if_pos ha]; exact Or.inr ⟨a, by simpa using ha, rfl⟩
      · rw [if_neg ha]; exact Or.inl rfl
    · exact Or.inl rfl
  · exact Or.inl rfl

/-- the re-export phase: per queued module id (queue order), per queued node (sorted by `(name, id)`:
    `nodeLe`, the model of `elements.sort(key=lambda x: (x.name, x.id))`), one `restub`
    entry followed by the node's own `fun` entry / class block — so a moved declaration is emitted exactly
    once, in the re-export stub -/
theorem reexport_phase_log (env : Env) (st st' : St) (r : List StubData)
    (h : createReexportModuleStrings env st = .ok (r, st')) :
    st'.log = st.log ++ st.reexports.flatMap fun kv =>
      (sortBy nodeLe kv.2).flatMap fun el =>
        ("restub", kv.1 ++ "/" ++ el.name) :: n03_nodeLog env el :=
  (n03_createReexportModuleStrings_log env st r st' h).log

/-- the same, for an arbitrary queue (this is the function used in `whole_run_log`) -/
theorem reexportPhaseLog_eq (env : Env) (q : List (String × List Node)) :
    n03_reexportPhaseLog env q = q.flatMap fun kv =>
      (sortBy nodeLe kv.2).flatMap fun el =>
        ("restub", kv.1 ++ "/" ++ el.name) :: n03_nodeLog env el := rfl

/-- `nodeLe` is the lexicographic order on `(name, id)` -/
theorem nodeLe_iff (a b : Node) :
    nodeLe a b = true ↔ a.name < b.name ∨ (a.name = b.name ∧ a.id ≤ b.id) :=
  n03_nodeLe_iff a b

/-- the emitted order is sorted by `(name, id)` -/
theorem reexport_phase_order_sorted (l : List Node) :
    (sortBy nodeLe l).Pairwise (fun x y => nodeLe x y = true) ∧ (sortBy nodeLe l).Perm l :=
  ⟨n03_sortBy_nodeLe_pairwise l, sortBy_perm_mk nodeLe l⟩

/-- the order in which the queued elements of one re-exporting module are emitted does not depend on the
    order in which they were queued, provided their `(name, id)` pairs are pairwise distinct -/
theorem reexport_phase_order_canonical (l l' : List Node) (h : l.Perm l')
    (hd : ∀ a ∈ l, ∀ b ∈ l, a.name = b.name → a.id = b.id → a = b) :
    sortBy nodeLe l = sortBy nodeLe l' :=
  n03_sortBy_nodeLe_perm h hd

/-- hence the log of the re-export phase is the same for two queues with the same keys (in the same order)
    whose node lists are permutations of each other -/
theorem reexport_phase_log_canonical (env : Env) (q q' : List (String × List Node))
    (h : List.Forall₂ (fun kv kv' => kv.1 = kv'.1 ∧ kv.2.Perm kv'.2) q q')
    (hd : ∀ kv ∈ q, ∀ a ∈ kv.2, ∀ b ∈ kv.2, a.name = b.name → a.id = b.id → a = b) :
    n03_reexportPhaseLog env q = n03_reexportPhaseLog env q' := by
  induction h with
  | nil => rfl
  | @cons kv kv' q q' hkv _ ih =>
    rw [reexportPhaseLog_eq, reexportPhaseLog_eq, List.flatMap_cons, List.flatMap_cons,
      ← reexportPhaseLog_eq, ← reexportPhaseLog_eq,
      ih fun kv hkv => hd kv (List.mem_cons_of_mem _ hkv),
      reexport_phase_order_canonical kv.2 kv'.2 hkv.2 (hd kv List.mem_cons_self), hkv.1]

/-- non-vacuity: two functions of the same name from different modules come out in the order of their ids,
    whichever was queued first … -/
example :
    (sortBy nodeLe [.fn { id := "pkg/b/f", name := "f", isPublic := true },
                    .fn { id := "pkg/a/f", name := "f", isPublic := true }]).map (·.id) = ["pkg/a/f", "pkg/b/f"] ∧
    (sortBy nodeLe [.fn { id := "pkg/a/f", name := "f", isPublic := true },
                    .fn { id := "pkg/b/f", name := "f", isPublic := true }]).map (·.id) = ["pkg/a/f", "pkg/b/f"] := by
  decide +kernel

/-- … whereas the order by name alone (the model before the repair) kept them in queue order -/
example :
    (sortBy (fun (a b : Node) => strLe a.name b.name)
      [.fn { id := "pkg/b/f", name := "f", isPublic := true },
       .fn { id := "pkg/a/f", name := "f", isPublic := true }]).map (·.id) = ["pkg/b/f", "pkg/a/f"] := by
  decide +kernel

/-- the hypothesis of `reexport_phase_order_canonical` is needed: nodes that agree on `(name, id)` but differ
    otherwise stay in queue order (the sort is stable) -/
example :
    (sortBy nodeLe [.fn { id := "pkg/a/f", name := "f", isPublic := true },
                    .fn { id := "pkg/a/f", name := "f", isPublic := false }]).map
        (fun n => match n with | .fn f => f.isPublic | .cls c => c.isPublic) = [true, false] ∧
    (sortBy nodeLe [.fn { id := "pkg/a/f", name := "f", isPublic := false },
                    .fn { id := "pkg/a/f", name := "f", isPublic := true }]).map
        (fun n => match n with | .fn f => f.isPublic | .cls c => c.isPublic) = [false, true] := by
  decide +kernel

theorem nodeLog_eq (env : Env) (c : Class) (f : Function) :
    n03_nodeLog env (.cls c) = n03_classLog env (classFuel env) c ∧ n03_nodeLog env (.fn f) = [("fun", f.id)] :=
  ⟨rfl, rfl⟩

/-- the whole run `generate_stub_data` from a fresh generator: the module stubs (every module but
    `__init__`, in order), then the re-export stubs of everything that was queued on the way -/
theorem whole_run_log (env : Env) (st st' : St) (r : List StubData)
    (h : generateStubData env st = .ok (r, st')) (h0 : st.creatingReexport = false) :
    st'.log = st.log
      ++ ((env.api.modules.filter fun m => m.name != "__init__").flatMap fun m =>
            ("module", m.id) :: n03_moduleLog env m.id m)
      ++ n03_reexportPhaseLog env (n03_enqueue st.reexports
          ((env.api.modules.filter fun m => m.name != "__init__").flatMap fun m => n03_moduleQueue env m.id m)) :=
  n03_generateStubData_log env st h0 r st' h

/-! ### 5. attributes -/

theorem attributes_log (env : Env) (inner : String) (as : List Attribute) (st st' : St)
    (texts names : List String) (h : createAttributes env inner as st = .ok ((texts, names), st')) :
    st'.log = st.log ++ (as.filter fun a => a.isPublic && !isTypeVarType a.type).map (fun a => ("attr", a.id)) ∧
    texts.length = (as.filter fun a => a.isPublic && !isTypeVarType a.type).length ∧
    ∀ n, n ∈ names ↔ ∃ a ∈ as, a.isPublic = true ∧ isTypeVarType a.type = false ∧ a.name = n := by
  obtain ⟨h1, h2, h3⟩ := n03_createAttributes_tr env inner as st (texts, names) st' h
  refine ⟨h3.log, h1, fun n => ?_⟩
  dsimp only at h2
  rw [h2, n03_mem_attrNames]
  constructor
  · rintro ⟨a, ha, hs, hn⟩
    have : a.isPublic = true ∧ isTypeVarType a.type = false := by simpa [n03_attrShown] using hs
    exact ⟨a, ha, this.1, this.2, hn⟩
  · rintro ⟨a, ha, h1, h2, hn⟩
    exact ⟨a, ha, by simp [n03_attrShown, h1, h2], hn⟩

/-! ### 6. methods -/

/-- ordinary class: a method is skipped iff it is private or its name is already defined -/
theorem methodSkipped_iff (m : Function) (already : List String) :
    methodSkipped m false already = true ↔ (m.isPublic = false ∨ m.name ∈ already) :=
  n03_methodSkipped_public m already

/-- inlined private base: a method is skipped iff it is private AND has a `_` name, or its name is already
    defined -/
theorem methodSkipped_iff_internal (m : Function) (already : List String) :
    methodSkipped m true already = true ↔
      ((m.isPublic = false ∧ pyStartsWith m.name "_" = true) ∨ m.name ∈ already) :=
  n03_methodSkipped_internal m already

/-- `createMethods` logs only `fun`/`prop` entries (no class brackets — everything is at nesting depth 0):
    exactly one per method that is not skipped, in order; and it returns the names of those methods -/
theorem methods_log (env : Env) (inner : String) (isInternal : Bool) (already : List String)
    (ms : List Function) (st st' : St) (props meths names : List String)
    (h : createMethods env inner isInternal already ms st = .ok ((props, meths, names), st')) :
    st'.log = st.log ++ (ms.filter fun m => !methodSkipped m isInternal already).map
        (fun m => (if m.isProperty then "prop" else "fun", m.id)) ∧
    props.length = (ms.filter fun m => !methodSkipped m isInternal already && m.isProperty).length ∧
    meths.length = (ms.filter fun m => !methodSkipped m isInternal already && !m.isProperty).length ∧
    ∀ n, n ∈ names ↔ ∃ m ∈ ms, methodSkipped m isInternal already = false ∧ m.name = n := by
  obtain ⟨h1, h2, h3, h4⟩ := n03_createMethods_tr env inner isInternal already ms st (props, meths, names) st' h
  dsimp only at h1
  refine ⟨h4.log, h2, h3, fun n => ?_⟩
  rw [h1, n03_mem_methNames]

/-- nothing in that log opens or closes a class, so its top-level view is the log itself -/
theorem methods_log_top (isInternal : Bool) (already : List String) (ms : List Function) :
    n03_top 0 (n03_methLog isInternal already ms) = n03_methLog isInternal already ms := by
  unfold n03_methLog
  induction ms.filter (fun m => !methodSkipped m isInternal already) with
  | nil => rfl
  | cons m ms ih =>
    rw [List.map_cons, n03_top]
    have h1 : (n03_methEntry m).1 ≠ "class" := by
      unfold n03_methEntry; cases m.isProperty
      · show "fun" ≠ "class"; decide
      · show "prop" ≠ "class"; decide
    have h2 : (n03_methEntry m).1 ≠ "endclass" := by
      unfold n03_methEntry; cases m.isProperty
      · show "fun" ≠ "endclass"; decide
      · show "prop" ≠ "endclass"; decide
    rw [if_neg h1, if_neg h2, if_pos rfl, ih]

/-! ### 7. the shape of a class block -/

/-- A class that is not moved logs `class`, its members, `endclass`.  ORDER OF THE LOG: attributes, public
    inner classes' blocks, own methods, and only then the members inlined from private superclasses (the
    superclass loop runs after `createClassMethodString`, because it needs the set of own names).  The TEXT
    is assembled in a different order — `attrText ++ innerText ++ superMethodsText ++ methodText` — i.e. the
    inlined members are printed BEFORE the own methods (see the example in `C17`). -/
theorem class_log_shape (env : Env) (fuel : Nat) (c : Class) (indent : String) (inRe : Bool) (st st' : St)
    (text : String) (h : createClassString env (fuel + 1) c indent inRe st = .ok (text, st'))
    (hnm : n03_movedB (getModuleId st) false inRe c.reexportedBy = false) :
    st'.log = st.log ++ ("class", c.id) ::
      ((c.attributes.filter fun a => a.isPublic && !isTypeVarType a.type).map (fun a => ("attr", a.id))
        ++ (c.classes.filter (·.isPublic)).flatMap (n03_classLog env fuel)
        ++ (c.methods.filter fun m => !methodSkipped m false []).map
            (fun m => (if m.isProperty then "prop" else "fun", m.id))
        ++ (if !c.renderedSupers.isEmpty && !c.isAbstract then
              (c.renderedSupers.filter fun s => isInternal (lastD "" (splitDot s))).flatMap
                (fun sc => n03_internalLog env fuel sc (n03_ownNames c))
            else [])
        ++ [("endclass", c.id)]) := by
  have := (n03_createClassString_tr env (fuel + 1) c indent inRe st text st' h).log
  rw [n03_clsLog, hnm] at this
  simp only [Bool.false_eq_true, if_false] at this
  rw [this, n03_classLog_succ]
  rfl

/-- the moved case -/
theorem class_log_moved (env : Env) (fuel : Nat) (c : Class) (indent : String) (inRe : Bool) (st st' : St)
    (text : String) (h : createClassString env fuel c indent inRe st = .ok (text, st'))
    (hm : n03_movedB (getModuleId st) false inRe c.reexportedBy = true) :
    st'.log = st.log ++ [("moved", c.id)] ∧
      st'.reexports = appendReexport st.reexports (n03_queueEntry c.name (.cls c) (getModuleId st) c.reexportedBy).1
        (n03_queueEntry c.name (.cls c) (getModuleId st) c.reexportedBy).2 := by
  have h1 := n03_createClassString_tr env fuel c indent inRe st text st' h
  have hl := h1.log
  have hr := h1.reexports
  rw [n03_clsLog, hm] at hl
  rw [n03_clsQueue, hm] at hr
  exact ⟨hl, hr⟩

/-- an inner class block and a nested block have the same shape (`n03_classLog`, one unit of fuel less) -/
theorem classLog_eq (env : Env) (fuel : Nat) (c : Class) :
    n03_classLog env 0 c = [] ∧
    n03_classLog env (fuel + 1) c = ("class", c.id) ::
      (n03_attrLog c.attributes
        ++ (c.classes.filter (·.isPublic)).flatMap (n03_classLog env fuel)
        ++ n03_methLog false [] c.methods
        ++ (if !c.renderedSupers.isEmpty && !c.isAbstract then
              (c.renderedSupers.filter n03_privSuper).flatMap (fun sc => n03_internalLog env fuel sc (n03_ownNames c))
            else [])
        ++ [("endclass", c.id)]) :=
  ⟨by rw [n03_classLog], n03_classLog_succ env fuel c⟩

/-- what one inlined private superclass contributes: its methods (under the internal skip rule), the blocks of
    its inner classes WITHOUT a `_` name, then its own private superclasses, recursively, with the names it
    emitted added to the defined set -/
theorem internalLog_eq (env : Env) (fuel : Nat) (sc : String) (ad : List String) :
    n03_internalLog env 0 sc ad = [] ∧
    n03_internalLog env (fuel + 1) sc ad =
      match getClassInPackage env sc with
      | .ok k =>
        n03_methLog true ad k.methods
          ++ (k.classes.filter (fun ic => !isInternal ic.name && !ad.contains ic.name)).flatMap (n03_classLog env fuel)
          ++ (k.superclasses.filter n03_privSuper).flatMap
              (fun ss => n03_internalLog env fuel ss (unionSet ad (n03_methNames true ad k.methods)))
      | .error _ => [] :=
  ⟨by rw [n03_internalLog], n03_internalLog_succ env fuel sc ad⟩

theorem internal_log (env : Env) (fuel : Nat) (sc inner : String) (ad : List String) (st st' : St) (t : String)
    (h : createInternalClassString env fuel sc inner ad st = .ok (t, st')) :
    st'.log = st.log ++ n03_internalLog env fuel sc ad :=
  ((n03_class_tr env fuel).2 sc inner ad st t st' h).log

theorem auxiliary_eq (as : List Attribute) (b : Bool) (ad : List String) (ms : List Function) (c : Class) (s : String) :
    n03_attrLog as = (as.filter fun a => a.isPublic && !isTypeVarType a.type).map (fun a => ("attr", a.id)) ∧
    n03_methLog b ad ms = (ms.filter fun m => !methodSkipped m b ad).map
      (fun m => (if m.isProperty then "prop" else "fun", m.id)) ∧
    n03_ownNames c = unionSet (unionSet (n03_attrNames c.attributes) (n03_methNames false [] c.methods))
      ((c.classes.filter (·.isPublic)).map (·.name)) ∧
    n03_privSuper s = isInternal (lastD "" (splitDot s)) :=
  ⟨rfl, rfl, rfl, rfl⟩

/-- every class block is well bracketed, and seen from outside it is one `class` entry -/
theorem class_block_top (env : Env) (fuel : Nat) (c : Class) :
    n03_top 0 (n03_classLog env (fuel + 1) c) = [("class", c.id)] := by
  rw [n03_classLog_members]
  exact n03_top_block _ _ (n03_members_bal env fuel c)

end StubGen.C03
