/-
T1 obligations: what the properties need of the tables that `tie/gen_tables.py` regenerates from
/repo's working tree on every run (`Generated/Tables.lean`).  A mutated table breaks one of these
`decide` proofs in `lake build`.
-/
import StubGen.Generated.Tables
import StubGen.Spec.Keywords
import StubGen.Model.Naming
import StubGen.Model.Types

namespace StubGen.Tables

/-- C02: every Safe-DS keyword is in the escape table and is wrapped in back-quotes -/
theorem keywords_escaped : ∀ k ∈ Spec.keywords33, escapeKeyword k = "`" ++ k ++ "`" := by decide

/-- C02/C09: nothing but keywords is escaped (the table contains exactly the 33 keywords) -/
theorem escape_table_exact : Generated.keywords.length = 33 ∧ ∀ k ∈ Generated.keywords, k ∈ Spec.keywords33 := by decide

/-- C09: the annotation that carries the original Python name -/
theorem name_annotation_form : nameAnnotation "x_y" = "@PythonName(\"x_y\")" := by decide

/-- C19: the model's `from_dict` dispatch covers exactly the kinds the source dispatches on -/
theorem type_kinds : Generated.typeKinds = FromDict.kinds := by decide

/-- C15: the three excluded directory names, the glob pattern -/
theorem excluded_dirs : Generated.excludedDirs = ["test", "tests", "docs"] ∧ Generated.globPattern = "./**/*.py" := by decide

/-- C04: the internal-name predicate tests for a leading underscore -/
theorem internal_prefix : Generated.internalPrefix = "_" := by decide

/-- C05: documented builtin mapping -/
theorem builtin_names : Generated.builtinTypeNames =
    [("int", "Int"), ("str", "String"), ("bool", "Boolean"), ("float", "Float"), ("None", "Nothing?")] := by decide

/-- C20: every marker key the property lists has a message, messages are pairwise distinct -/
theorem todo_keys : ∀ k ∈ ["no tuple support", "no set support", "List", "Set", "OPT_POS_ONLY", "REQ_NAME_ONLY",
    "multiple_inheritance", "variadic", "class_method", "param without type", "attr without type",
    "result without type", "internal class as type", "unknown", "unknown value"],
    (assocGet? Generated.todoMessages k).isSome := by decide

theorem todo_messages_distinct : (Generated.todoMessages.map (·.2)).Nodup := by decide

end StubGen.Tables
