/-
T2 obligation (string literals): the model's `escapeStringLiteral` agrees with the real `escape_string_literal` of /repo's
working tree on EVERY string over {a, ", \, LF, CR, {} up to length 3 and on some longer ones (`Generated/DecStrings.lean`,
written by `tie/tabulate.py`).  A change of the escaping changes a row and breaks the kernel-checked `decide` here; the row is
the counterexample.  (That the function produces a closed STRING token for every string whatsoever is `C02.string_literal_closed`.)
-/
import StubGen.Generated.DecStrings
import StubGen.Py.Basic

namespace StubGen.Decisions

open StubGen

/-- `escape_string_literal` on all 267 tabulated strings -/
theorem escape_string_table :
    Generated.escapeStringTable.all (fun r => escapeStringLiteral r.1 == r.2) = true := by
  decide +kernel

end StubGen.Decisions
