/-
C08 — whole-tool part: the output of `_run_stub_generator` does not depend on the order in which the file system
enumerates the directory, nor (for the alias table) on the order of mypy's expression-type dict.
-/
import StubGen.Proofs.Pipeline
import StubGen.Proofs.AliasCongr

namespace StubGen.C08b

open StubGen List

/-- `aliases[name]` is exactly the set of targets that some looked-at entry of `build_result.types` contributes under that
    short name — a statement about membership, so it does not mention any order. -/
theorem alias_table_spec (pkg : String) (facts : List AliasFact) (name target : String) :
    target ∈ lookupA (getAliases pkg facts) name ↔ ∃ f ∈ facts, aliasStep pkg f = .add name target := by
  unfold getAliases
  rw [mem_getAliasesFrom]
  simp [lookupA, assocGet?]

/-- The alias table as a dict of SETS does not depend on the iteration order of `build_result.types`. -/
theorem alias_table_order_independent (pkg : String) {facts facts' : List AliasFact} (h : facts ~ facts') (name target : String) :
    target ∈ lookupA (getAliases pkg facts) name ↔ target ∈ lookupA (getAliases pkg facts') name := by
  rw [alias_table_spec, alias_table_spec]
  constructor
  · rintro ⟨f, hf, hs⟩; exact ⟨f, h.mem_iff.mp hf, hs⟩
  · rintro ⟨f, hf, hs⟩; exact ⟨f, h.mem_iff.mpr hf, hs⟩

/-- END TO END: two runs of the whole tool that differ only in the order in which `Path.glob` enumerates the `*.py` files
    (root adjustment, discovery, "no files" rejection, selection of the ASTs, alias table, analysis, API JSON text, stub
    generation, file writes) have the same result — the same error, or the same API file text and the same write log. -/
theorem tool_enumeration_order (i : ToolInput) {files' : List PathParts} (h : i.files ~ files') :
    runTool { i with files := files' } = runTool i :=
  pl_runTool_files_perm i h

/-- The file list handed to mypy is CANONICAL (repair 67957ce: `sorted(root.glob(...))`): two enumeration orders of the
    directory give the same sorted listing, hence literally the same discovery result — the same files in the same order.
    (Before the repair the list order followed the enumeration; mypy's build-graph order followed it, and with it the
    order of `api.modules` — observable when two modules are written to one stub path, K10.) -/
theorem mypy_input_canonical (root : PathParts) (b : Bool) {files files' : List PathParts} (h : files ~ files') :
    discoverSorted root files b = discoverSorted root files' b := by
  unfold discoverSorted
  rw [pl_sortPaths_perm h]

/-- … in particular the analysed modules, in walk order, are the same -/
theorem get_api_enumeration_order (i : ToolInput) {files' : List PathParts} (h : i.files ~ files') :
    getApi { i with files := files' } = getApi i :=
  pl_getApi_files_perm i h

/-- The analysis reads the alias table only through look-ups by name, and `_find_alias` sorts the candidates: two alias
    tables with the same candidate SET for every short name — whatever the order of the keys and of the candidates —
    give the same API, the same warnings, the same error (congruence proved through every function of the analyser,
    `Proofs/AliasCongr`). -/
theorem analysis_reads_alias_sets (env : AEnv) (al' : AliasTable) (h : AliasEquiv env.aliases al')
    (docRoot : GNode) (mods : List SrcModule) :
    analyze env docRoot mods = analyze { env with aliases := al' } docRoot mods :=
  ac_analyze env al' h docRoot mods

/-- END TO END: two runs of the whole tool that differ only in the ORDER of mypy's expression-type dict
    (`build_result.types`: the order in which `_get_aliases` meets the expressions, hence the insertion order of the alias
    dict and of each of its candidate sets) end alike: the same error, or the same package, walked modules, API, warnings,
    API file text, stubs and write operations.  Only the alias table itself (a dict of sets) may be laid out differently. -/
theorem tool_expression_type_order (i : ToolInput) {facts' : List AliasFact} (h : i.aliasFacts ~ facts') :
    (runTool { i with aliasFacts := facts' }).map (fun o => { o with aliases := [] })
      = (runTool i).map (fun o => { o with aliases := [] }) := by
  unfold runTool getApi
  dsimp only
  cases hd : discoverSorted i.srcDir i.files i.isTestRun with
  | error e => rfl
  | ok rd =>
    obtain ⟨root, d⟩ := rd
    dsimp only
    have he := ac_getAliases_perm (pathStem root) h
    have ha := ac_analyze { opts := i.opts, aliases := getAliases (pathStem root) i.aliasFacts, infoBases := i.infoBases } (getAliases (pathStem root) facts') he i.docRoot (selectModules i.graph d)
    rw [← ha]
    cases analyze { opts := i.opts, aliases := getAliases (pathStem root) i.aliasFacts, infoBases := i.infoBases } i.docRoot (selectModules i.graph d) with
    | error e => rfl
    | ok rw =>
      obtain ⟨r, ws⟩ := rw
      dsimp only
      cases apiJsonText (pathStem root) r with
      | error e => rfl
      | ok text =>
        dsimp only
        cases runGenerator (r.toApi (pathStem root)) i.safe i.preexisting with
        | error e => rfl
        | ok gen => rfl

/-! non-vacuity: a three-file listing in two orders; one short name contributed by two entries -/
example : [["/", "s", "p", "__init__.py"], ["/", "s", "p", "a.py"], ["/", "s", "p", "b.py"]]
    ~ [["/", "s", "p", "b.py"], ["/", "s", "p", "__init__.py"], ["/", "s", "p", "a.py"]] := by decide

def exFacts : List AliasFact :=
  [{ kind := .nameExpr, name := "x", val := .instance "C" "p.a.C" },
   { kind := .memberExpr, name := "C", fullname := "p.b.C", val := .callable "p.b.C" },
   { kind := .memberExpr, name := "helper", fullname := "p.a.helper", val := .callable "" },
   { kind := .nameExpr, name := "len", val := .callable "" }]

example : getAliases "p" exFacts = [("C", ["p.a.C", "p.b.C"])] := by decide
example : getAliases "p" exFacts.reverse = [("C", ["p.b.C", "p.a.C"])] := by decide

end StubGen.C08b
