/-
C13 — the two halves composed: from the docstring in the source to the comment in the stub.
-/
import StubGen.Theorems.C13
import StubGen.Theorems.C13a

namespace StubGen.C13b

open StubGen

/-- what the docstring parser hands to the analyser for a function is the record of the function's OWN docstring node -/
theorem function_record (s s' : ParserState) (hv : Cache.Valid s.root s.cache) (f : String) (doc : Docstring)
    (h : getFunctionDocumentation s f = .ok (doc, s')) :
    ∃ d, lookupDoc s.root f = .ok d ∧ doc = docRecord d := by
  have hs := C13a.function_doc_spec s hv f
  rw [h] at hs
  cases hl : lookupDoc s.root f with
  | error e => rw [hl] at hs; simp [Except.map] at hs
  | ok d =>
    rw [hl] at hs
    simp only [Except.map, Except.ok.injEq] at hs
    exact ⟨d, rfl, hs⟩

/-- FROM THE DOCSTRING TO THE COMMENT: the description-only comment the generator writes for an element whose description
    came from the docstring parser consists, line for line and in order, of the lines of the description the parser
    extracted from the element's own docstring node (`docRecord`: the last text section, surrounding newlines stripped) —
    `/**`, the first line behind ` * `, every further line behind the continuation decoration, ` */`.  Nothing of any other
    element's docstring can appear in it, whatever was queried before (cache). -/
theorem docstring_to_comment (s s' : ParserState) (hv : Cache.Valid s.root s.cache) (f : String) (doc : Docstring)
    (h : getFunctionDocumentation s f = .ok (doc, s')) (indent : String) (hi : '\n' ∉ indent.toList)
    (hne : doc.description ≠ "") :
    ∃ d, lookupDoc s.root f = .ok d ∧ doc.description = (docRecord d).description ∧
      splitLines (sdsDocstringDescription doc.description indent)
        = (indent ++ "/**")
          :: (indent ++ " * " ++ (splitLines (pyLstrip (pyRstrip (docRecord d).description "\n") "\n")).head (C13.splitLines_ne_nil _))
          :: ((splitLines (pyLstrip (pyRstrip (docRecord d).description "\n") "\n")).tail.map (docLine indent)
              ++ [indent ++ " */", ""]) := by
  obtain ⟨d, hl, hd⟩ := function_record s s' hv f doc h
  refine ⟨d, hl, by rw [hd], ?_⟩
  subst hd
  exact C13.sdsDocstringDescription_line_for_line _ indent hne hi

/-- two functions with the same docstring node content get the same comment, in any parser states -/
theorem same_docstring_same_comment (s₁ s₁' s₂ s₂' : ParserState) (hv₁ : Cache.Valid s₁.root s₁.cache)
    (hv₂ : Cache.Valid s₂.root s₂.cache) (f₁ f₂ : String) (d₁ d₂ : Docstring)
    (h₁ : getFunctionDocumentation s₁ f₁ = .ok (d₁, s₁')) (h₂ : getFunctionDocumentation s₂ f₂ = .ok (d₂, s₂'))
    (hsame : lookupDoc s₁.root f₁ = lookupDoc s₂.root f₂) (indent : String) :
    sdsDocstringDescription d₁.description indent = sdsDocstringDescription d₂.description indent := by
  obtain ⟨a, ha, hda⟩ := function_record s₁ s₁' hv₁ f₁ d₁ h₁
  obtain ⟨b, hb, hdb⟩ := function_record s₂ s₂' hv₂ f₂ d₂ h₂
  rw [ha, hb] at hsame
  simp only [Except.ok.injEq] at hsame
  subst hsame
  rw [hda, hdb]

end StubGen.C13b
