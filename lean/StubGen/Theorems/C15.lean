/-
C15 — the test-run flag alone controls whether test and docs directories are analysed.
Theorems about `discoverLoop` / `discover` / `selectAsts` (Model/Discovery.lean).
-/
import StubGen.Model.Discovery

namespace StubGen.C15

/-- Specification of the filter, from the property statement: a file is skipped iff the flag is off
    and one of its path *components* is exactly `test`, `tests` or `docs`. -/
def skipped (isTestRun : Bool) (f : PathParts) : Bool :=
  !isTestRun && (f.contains "test" || f.contains "tests" || f.contains "docs")

theorem inExcludedDir_iff (f : PathParts) :
    inExcludedDir f = (f.contains "test" || f.contains "tests" || f.contains "docs") := by
  simp [inExcludedDir, Generated.excludedDirs, List.any_cons, Bool.or_assoc]

theorem skipped_eq (b : Bool) (f : PathParts) : skipped b f = (!b && inExcludedDir f) := by
  rw [inExcludedDir_iff]; rfl

/-- the kept module files are exactly the non-skipped non-`__init__` files, in enumeration order;
    the packages are the directories of the non-skipped `__init__.py` files -/
theorem filter_spec (isTestRun : Bool) (files : List PathParts) :
    (discoverLoop isTestRun files).walkable = files.filter (fun f => !skipped isTestRun f && !isInitFile f)
    ∧ (discoverLoop isTestRun files).packages
        = (files.filter (fun f => !skipped isTestRun f && isInitFile f)).map List.dropLast := by
  simp only [skipped_eq]
  induction files with
  | nil => simp [discoverLoop]
  | cons f fs ih =>
    obtain ⟨ih1, ih2⟩ := ih
    unfold discoverLoop
    by_cases h1 : (!isTestRun && inExcludedDir f) = true
    · simp only [h1, if_true, List.filter_cons, Bool.not_true, Bool.false_and, Bool.false_eq_true, if_false]
      exact ⟨ih1, ih2⟩
    · have h1' : (!isTestRun && inExcludedDir f) = false := by simpa using h1
      by_cases h2 : isInitFile f = true
      · simp only [h1', h2, Bool.false_eq_true, if_false, if_true, List.filter_cons, Bool.not_false, Bool.true_and,
          Bool.not_true, List.map_cons]
        exact ⟨ih1, by rw [ih2]⟩
      · have h2' : isInitFile f = false := by simpa using h2
        simp only [h1', h2', Bool.false_eq_true, if_false, List.filter_cons, Bool.not_false, Bool.true_and, if_true]
        exact ⟨by rw [ih1], ih2⟩

/-- with the flag every Python file of the package contributes -/
theorem flag_on_keeps_all (files : List PathParts) :
    (discoverLoop true files).walkable = files.filter (fun f => !isInitFile f)
    ∧ (discoverLoop true files).packages = (files.filter isInitFile).map List.dropLast := by
  have h := filter_spec true files
  simpa [skipped] using h

/-- without the flag no file in a directory named test, tests or docs is analysed, and no such
    `__init__.py` makes its directory a package -/
theorem flag_off_excludes (files : List PathParts) (f : PathParts)
    (hf : f.contains "test" = true ∨ f.contains "tests" = true ∨ f.contains "docs" = true) :
    f ∉ (discoverLoop false files).walkable := by
  rw [(filter_spec false files).1]
  intro h
  have := (List.mem_filter.mp h).2
  simp only [skipped, Bool.not_false, Bool.true_and, Bool.and_eq_true, Bool.not_eq_eq_eq_not, Bool.not_true,
    Bool.or_eq_false_iff] at this
  rcases hf with h1 | h1 | h1
  · rw [this.1.1.1] at h1; exact absurd h1 (by decide)
  · rw [this.1.1.2] at h1; exact absurd h1 (by decide)
  · rw [this.1.2] at h1; exact absurd h1 (by decide)

/-- for a package without such directories the flag makes no difference -/
theorem flag_irrelevant_outside (files : List PathParts)
    (h : ∀ f ∈ files, inExcludedDir f = false) (b b' : Bool) :
    discover files b = discover files b' := by
  have key : ∀ b, discoverLoop b files = discoverLoop true files := by
    intro b
    induction files with
    | nil => simp [discoverLoop]
    | cons f fs ih =>
      have hf := h f (by simp)
      have ih' := ih (fun g hg => h g (by simp [hg]))
      unfold discoverLoop
      simp [hf, ih']
  simp [discover, key b, key b']

/-- files outside such directories are treated alike under both flag values: the flag-off result is
    the flag-on result with the skipped files removed -/
theorem flag_only_removes (files : List PathParts) :
    (discoverLoop false files).walkable = (discoverLoop true files).walkable.filter (fun f => !inExcludedDir f)
    ∧ (discoverLoop false files).packages
        = ((files.filter isInitFile).filter (fun f => !inExcludedDir f)).map List.dropLast := by
  rw [(filter_spec false files).1, (filter_spec false files).2, (flag_on_keeps_all files).1]
  simp [skipped_eq, List.filter_filter, Bool.and_comm]

/-- the documented rejection: no module file kept -/
theorem no_files_error (files : List PathParts) (b : Bool) :
    (discover files b = .error .valueError ↔ (discoverLoop b files).walkable = [])
    ∧ (∀ d, discover files b = .ok d → d = discoverLoop b files) := by
  unfold discover
  by_cases h : (discoverLoop b files).walkable.isEmpty = true
  · simp [h, List.isEmpty_iff.mp h]
  · simp only [h]
    constructor
    · simp only [Bool.false_eq_true, if_false, false_iff, reduceCtorEq]
      intro h'; simp [h'] at h
    · intro d hd; injection hd with hd; exact hd.symm

/-- every AST handed to the walker belongs to a kept file, even when mypy's build graph contains more
    (e.g. an excluded file loaded through an import) -/
theorem analysed_subset (graph : List String) (d : Discovered) (p : String) (h : p ∈ selectAsts graph d) :
    p ∈ graph ∧ (p ∈ d.walkable.map pathStr ∨ pyEndsWith p "__init__.py" = true) := by
  unfold selectAsts at h
  simp only [List.mem_append, List.mem_filter, Bool.and_eq_true, Bool.not_eq_eq_eq_not, Bool.not_true] at h
  rcases h with ⟨hg, hi, _⟩ | ⟨hg, _, hf⟩
  · exact ⟨hg, Or.inr hi⟩
  · exact ⟨hg, Or.inl (by simpa using hf)⟩

/-- packages are analysed before modules -/
theorem packages_first (graph : List String) (d : Discovered) :
    ∃ a b, selectAsts graph d = a ++ b ∧ (∀ p ∈ a, pyEndsWith p "__init__.py" = true)
      ∧ (∀ p ∈ b, pyEndsWith p "__init__.py" = false) := by
  refine ⟨_, _, rfl, ?_, ?_⟩
  · intro p hp; simp only [List.mem_filter, Bool.and_eq_true] at hp; exact hp.2.1
  · intro p hp; simp only [List.mem_filter, Bool.and_eq_true, Bool.not_eq_eq_eq_not, Bool.not_true] at hp; exact hp.2.1

/-! whole components only: look-alike names are kept (non-vacuity and the property's examples) -/
example : inExcludedDir ["/", "src", "pkg", "testing", "m.py"] = false
    ∧ inExcludedDir ["/", "src", "pkg", "test_x.py"] = false
    ∧ inExcludedDir ["/", "src", "pkg", "mytests", "m.py"] = false
    ∧ inExcludedDir ["/", "src", "pkg", "docs_old", "m.py"] = false
    ∧ inExcludedDir ["/", "src", "pkg", "tests", "m.py"] = true
    ∧ inExcludedDir ["/", "src", "pkg", "sub", "docs", "conf.py"] = true := by decide

example : discover [["/", "p", "__init__.py"], ["/", "p", "a.py"], ["/", "p", "tests", "t.py"], ["/", "p", "tests", "__init__.py"]] false
    = .ok { walkable := [["/", "p", "a.py"]], packages := [["/", "p"]] } := by rfl

example : discover [["/", "p", "tests", "t.py"]] false = .error .valueError := by rfl

end StubGen.C15
