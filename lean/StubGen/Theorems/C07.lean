/-
C07 (generator side) — "A function annotated `-> None` has no results; any other annotation yields
one rendered result per result of the API, in order, each carrying the translated type; a function
with neither annotation nor inferable return is emitted without results."

Property theorems about `createResults` / `createResultString` (`_create_result_string`).
Specification vocabulary: `Spec/Params.lean` (`ResultsRendered`, `resultListText`, `resultName`) and
`Spec/Markers.lean` (`isNoneResult`, `resultsBeforeNone`); helper lemmas: `Proofs/Params.lean`.

The exact behaviour of the loop: results are visited from left to right; one without type is skipped;
the first `None` result ends the loop with the empty string (whatever comes after it is never looked
at, whatever came before it has been rendered for its side effects on the state only); otherwise a
result whose type renders as `T ≠ ""` contributes `name: T`.  A failure of the type renderer on a
visited result is a failure of the whole.
-/
import StubGen.Proofs.Params

namespace StubGen.C07

open StubGen

/-- (5) A `None` result suppresses all results — exact general form.  If some result is a `None`
    result, `createResultString` succeeds exactly when the results before the first `None` result
    render, the text is empty (no arrow, and no "result without type" marker either), and the final
    state is the one reached after rendering that prefix. -/
theorem none_result_suppresses (env : Env) (rs : List Result) (st st' : St) (text : String)
    (hnone : rs.any Spec.isNoneResult = true) :
    createResultString env rs st = .ok (text, st') ↔
      text = "" ∧ ∃ texts, Spec.ResultsRendered (typeStr env) (Spec.resultName env.safe)
        (Spec.resultsBeforeNone rs) st texts st' := by
  rw [createResultString_eq, createResults_withNone env rs st hnone]
  constructor
  · intro h
    cases hc : createResults env (Spec.resultsBeforeNone rs) st with
    | error e => rw [hc] at h; cases h
    | ok x =>
      obtain ⟨o, s⟩ := x
      obtain ⟨texts, _, hr⟩ := (createResults_noNone_iff env _ st s o (resultsBeforeNone_noNone rs)).1 hc
      rw [hc] at h
      cases h
      exact ⟨rfl, texts, hr⟩
  · rintro ⟨rfl, texts, hr⟩
    rw [(createResults_noNone_iff env _ st st' _ (resultsBeforeNone_noNone rs)).2 ⟨texts, rfl, hr⟩]

/-- (5, as a decomposition) first `None` result wins: `pre ++ r :: post` with `r` the first `None`
    result and `pre` rendering from `st` to `st'` gives the empty string in state `st'`; `post` is
    irrelevant (it may even contain types the renderer rejects). -/
theorem none_result_suppresses_split (env : Env) (pre post : List Result) (r : Result) (st st' : St)
    (texts : List String)
    (hr : Spec.isNoneResult r = true) (hpre : ∀ q ∈ pre, Spec.isNoneResult q = false)
    (hrend : Spec.ResultsRendered (typeStr env) (Spec.resultName env.safe) pre st texts st') :
    createResultString env (pre ++ r :: post) st = .ok ("", st') := by
  have hany : (pre ++ r :: post).any Spec.isNoneResult = true := by simp [hr]
  rw [none_result_suppresses env _ st st' "" hany, resultsBeforeNone_append pre post r hr hpre]
  exact ⟨rfl, texts, hrend⟩

/-- (5, failure) a renderer failure on a result before the first `None` result is a failure of the whole -/
theorem none_result_prefix_error (env : Env) (rs : List Result) (st : St) (e : PyErr)
    (hnone : rs.any Spec.isNoneResult = true)
    (herr : createResults env (Spec.resultsBeforeNone rs) st = .error e) :
    createResultString env rs st = .error e := by
  rw [createResultString_eq, createResults_withNone env rs st hnone, herr]

/-- (5, the property's case) `-> None`: the `None` result comes first (in particular: is the only
    one); no results, state untouched, never fails. -/
theorem none_annotation_no_results (env : Env) (r : Result) (post : List Result) (st : St)
    (hr : Spec.isNoneResult r = true) :
    createResultString env (r :: post) st = .ok ("", st) :=
  none_result_suppresses_split env [] post r st st [] hr (by simp) (.nil st)

/-- (6) Results in order — `createResults`.  Without a `None` result, `createResults` succeeds exactly
    when the results render, and then returns, in order, `name: T` for exactly those results that
    have a type whose rendering `T` (by `typeStr`, in the state threaded from left to right) is
    non-empty, with `name = escapeKeyword (convertName r.name env.safe)`. -/
theorem results_in_order (env : Env) (rs : List Result) (st st' : St) (o : Option (List String))
    (hn : ∀ r ∈ rs, Spec.isNoneResult r = false) :
    createResults env rs st = .ok (o, st') ↔
      ∃ texts, o = some texts ∧
        Spec.ResultsRendered (typeStr env) (fun r => escapeKeyword (convertName r.name env.safe)) rs st texts st' :=
  createResults_noNone_iff env rs st st' o hn

/-- (6) Results in order — `createResultString`: the rendered results after ` -> `, parenthesised if
    there are several; nothing (and the pending marker "result without type") if there are none. -/
theorem result_string_form (env : Env) (rs : List Result) (st st'' : St) (text : String)
    (hn : ∀ r ∈ rs, Spec.isNoneResult r = false) :
    createResultString env rs st = .ok (text, st'') ↔
      ∃ texts st', Spec.ResultsRendered (typeStr env) (Spec.resultName env.safe) rs st texts st' ∧
        text = Spec.resultListText texts ∧
        st'' = (if texts.isEmpty then { st' with todos := insertSet "result without type" st'.todos } else st') := by
  rw [createResultString_eq]
  constructor
  · intro h
    cases hc : createResults env rs st with
    | error e => rw [hc] at h; cases h
    | ok x =>
      obtain ⟨o, s⟩ := x
      obtain ⟨texts, rfl, hr⟩ := (createResults_noNone_iff env rs st s o hn).1 hc
      rw [hc] at h
      cases h
      exact ⟨texts, s, hr, rfl, rfl⟩
  · rintro ⟨texts, st', hr, rfl, rfl⟩
    rw [(createResults_noNone_iff env rs st st' _ hn).2 ⟨texts, rfl, hr⟩]
    rfl

/-- (6, the three shapes spelled out) -/
theorem result_string_cases (env : Env) (rs : List Result) (st st' : St) (texts : List String)
    (hn : ∀ r ∈ rs, Spec.isNoneResult r = false)
    (hr : Spec.ResultsRendered (typeStr env) (Spec.resultName env.safe) rs st texts st') :
    (texts = [] → createResultString env rs st
        = .ok ("", { st' with todos := insertSet "result without type" st'.todos })) ∧
    (∀ x, texts = [x] → createResultString env rs st = .ok (" -> " ++ x, st')) ∧
    (2 ≤ texts.length → createResultString env rs st = .ok (" -> (" ++ joinWith ", " texts ++ ")", st')) := by
  have h := (result_string_form env rs st _ _ hn).2 ⟨texts, st', hr, rfl, rfl⟩
  refine ⟨?_, ?_, ?_⟩
  · rintro rfl; exact h
  · rintro x rfl; exact h
  · intro hl
    match texts, hl with
    | _ :: _ :: _, _ => exact h

/-- (6, corollary) never more rendered results than API results … -/
theorem results_count_le (env : Env) (rs : List Result) (st st' : St) (texts : List String)
    (hr : Spec.ResultsRendered (typeStr env) (Spec.resultName env.safe) rs st texts st') :
    texts.length ≤ rs.length :=
  resultsRendered_length_le hr

/-- … and exactly as many when every result has a type that never renders as the empty string -/
theorem results_count_eq (env : Env) (rs : List Result) (st st' : St) (texts : List String)
    (hr : Spec.ResultsRendered (typeStr env) (Spec.resultName env.safe) rs st texts st')
    (hall : ∀ r ∈ rs, ∃ t, r.type = some t ∧ ∀ s tx s', typeStr env t s = .ok (tx, s') → tx ≠ "") :
    texts.length = rs.length :=
  resultsRendered_length_eq hr hall

/-- the hypothesis of `results_count_eq` holds for every class / builtin type -/
theorem named_never_empty (env : Env) (n q : String) :
    ∀ s tx s', typeStr env (.named n q) s = .ok (tx, s') → tx ≠ "" :=
  fun s tx s' h => typeStr_named_ne_empty env n q s s' tx h

/-- (6, the property's case) any annotation other than `-> None` on a single result: exactly one result,
    carrying the translated type -/
theorem single_result (env : Env) (r : Result) (t : AType) (st st' : St) (tx : String)
    (ht : r.type = some t) (hnn : isNoneNamed t = false)
    (hts : typeStr env t st = .ok (tx, st')) (hne : tx ≠ "") :
    createResultString env [r] st
      = .ok (" -> " ++ escapeKeyword (convertName r.name env.safe) ++ ": " ++ tx, st') := by
  have hn : ∀ q ∈ [r], Spec.isNoneResult q = false := by
    intro q hq
    rw [List.mem_singleton.1 hq, isNoneResult_of_some ht, hnn]
  have hr := Spec.ResultsRendered.shown (name := Spec.resultName env.safe) ht hts hne (.nil st')
  rw [((result_string_cases env [r] st st' _ hn hr).2.1 _ rfl)]
  simp [Spec.resultName, String.append_assoc]

/-- (6) `ResultsRendered` determines texts and final state: the rendering is a function of the API
    results and the start state -/
theorem results_deterministic (env : Env) (rs : List Result) (st s₁ s₂ : St) (t₁ t₂ : List String)
    (h₁ : Spec.ResultsRendered (typeStr env) (Spec.resultName env.safe) rs st t₁ s₁)
    (h₂ : Spec.ResultsRendered (typeStr env) (Spec.resultName env.safe) rs st t₂ s₂) :
    t₁ = t₂ ∧ s₁ = s₂ :=
  resultsRendered_unique h₁ h₂

/-- (7) No results at all (neither annotation nor inferable return): no arrow, and the marker
    "result without type" is pending for the declaration. -/
theorem no_results_no_arrow (env : Env) (st : St) :
    createResultString env [] st = .ok ("", { st with todos := insertSet "result without type" st.todos }) :=
  rfl

/-- (7, slightly more) the same when the API lists results but none of them has a type -/
theorem untyped_results_no_arrow (env : Env) (rs : List Result) (st : St) (h : ∀ r ∈ rs, r.type = none) :
    createResultString env rs st = .ok ("", { st with todos := insertSet "result without type" st.todos }) := by
  have hn : ∀ r ∈ rs, Spec.isNoneResult r = false := fun r hr => isNoneResult_of_none (h r hr)
  have hr : Spec.ResultsRendered (typeStr env) (Spec.resultName env.safe) rs st [] st := by
    induction rs with
    | nil => exact .nil st
    | cons r rs ih =>
      exact .untyped (h r List.mem_cons_self)
        (ih (fun q hq => h q (List.mem_cons_of_mem _ hq)) (fun q hq => hn q (List.mem_cons_of_mem _ hq)))
  exact (result_string_cases env rs st st [] hn hr).1 rfl

/-! ### Non-vacuity and boundary cases -/

section Examples

private def env0 : Env := { api := {}, safe := true }
private def tInt : AType := .named "int" "builtins.int"
private def tStr : AType := .named "str" "builtins.str"
private def tNone : AType := .named "None" "builtins.None"
private def res (name : String) (t : Option AType) : Result := { id := "m/f/" ++ name, name := name, type := t }
/-- text and pending markers of `createResultString` on the empty state -/
private def run (rs : List Result) : Option (String × List String) :=
  (createResultString env0 rs {}).toOption.map (fun r => (r.1, r.2.todos))

/-- one result: `-> int` -/
example : run [res "result_1" (some tInt)] = some (" -> result1: Int", []) := by decide
/-- several results, in order; keyword name escaped; the untyped one and the one whose type renders
    empty (`Union[()]`) are left out; markers of the rendered types are pending -/
example : run [res "result_1" (some tInt), res "in" (some tStr), res "x" none, res "e" (some (.union [])),
      res "l" (some (.list [tInt, tStr]))]
    = some (" -> (result1: Int, `in`: String, l: List<Int, String>)", ["List"]) := by decide
/-- hypothesis of (6) on that list -/
example : ∀ r ∈ [res "result_1" (some tInt), res "in" (some tStr), res "x" none, res "e" (some (.union [])),
      res "l" (some (.list [tInt, tStr]))], Spec.isNoneResult r = false := by decide
/-- `-> None` -/
example : Spec.isNoneResult (res "result_1" (some tNone)) = true := by decide
example : run [res "result_1" (some tNone)] = some ("", []) := by decide
/-- a `None` result after others: everything suppressed, but the tuple before it has left its marker -/
example : run [res "result_1" (some (.tuple [tInt])), res "r" (some tNone), res "q" (some tInt)]
    = some ("", ["no tuple support"]) := by decide
example : (Spec.resultsBeforeNone
      [res "result_1" (some (.tuple [tInt])), res "r" (some tNone), res "q" (some tInt)]).map (·.name)
    = ["result_1"] := by decide
/-- no result / only untyped results / only empty renderings: no arrow, marker pending -/
example : run [] = some ("", ["result without type"]) := by decide
example : run [res "x" none] = some ("", ["result without type"]) := by decide
example : run [res "x" (some (.union []))] = some ("", ["result without type"]) := by decide
/-- failure before the `None` result propagates (`none_result_prefix_error`); after it, it is never reached -/
example : run [res "x" (some (.enum ["a"])), res "r" (some tNone)] = none := by decide
example : run [res "r" (some tNone), res "x" (some (.enum ["a"]))] = some ("", []) := by decide
/-- the `None` test is on the qualified name: a class that happens to be called `None` is a result -/
example : run [res "r" (some (.named "None" "mymod.None"))] = some (" -> r: Nothing?", []) := by decide

end Examples

end StubGen.C07
