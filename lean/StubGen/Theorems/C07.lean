/-
C07 (generator side) — "A function annotated `-> None` has no results, an annotated tuple return yields
one result per element in order, and any other annotation yields exactly one result carrying the
translated type [per result of the API: one rendered result each, in order]; a function with neither
annotation nor inferable return is emitted without results."

Property theorems about `createResults` / `createResultString` (`_create_result_string`).
Specification vocabulary: `Spec/Params.lean` (`ResultsRendered`, `resultListText`, `resultName`) and
`Spec/Markers.lean` (`isNoneResult`, `onlyNoneResult`); helper lemmas: `Proofs/Params.lean`.

The exact behaviour: a result list that consists of a single `None` result (`Spec.onlyNoneResult`) gives
the empty string, nothing is rendered and no marker is added.  Otherwise the results are visited from
left to right; one without type is skipped; a result whose type renders as `T ≠ ""` contributes
`name: T` — a `None` result among several is a result like any other and is shown as `name: Nothing?`
(it no longer hides the result list).  A failure of the type renderer on any result is a failure of the
whole.  Zero rendered results: no arrow and the marker "result without type".
-/
import StubGen.Proofs.Params

namespace StubGen.C07

open StubGen

/-- the rendered name of a result, spelled out -/
theorem result_name_eq (safe : Bool) (r : Result) :
    Spec.resultName safe r = escapeKeyword (convertName r.name safe) := rfl

/-- (5) `-> None`: a result list that is a single `None` result gives no results — no arrow, no marker
    (in particular not "result without type"), the state is untouched, nothing is rendered, it never
    fails. -/
theorem only_none_no_results (env : Env) (rs : List Result) (st : St)
    (h : Spec.onlyNoneResult rs = true) :
    createResultString env rs st = .ok ("", st) := by
  rw [createResultString_eq, if_pos h]

/-- (5, the property's case spelled out) the one result of `-> None` -/
theorem none_annotation_no_results (env : Env) (r : Result) (st : St)
    (hr : Spec.isNoneResult r = true) :
    createResultString env [r] st = .ok ("", st) :=
  only_none_no_results env [r] st hr

/-- (5, exactly) "only a `None` result" is: one result, typed, the type a class with the qualified name
    `builtins.None`; any other list — empty, several results, one result of another type — is not. -/
theorem only_none_iff (rs : List Result) :
    Spec.onlyNoneResult rs = true ↔ ∃ r n, rs = [r] ∧ r.type = some (.named n "builtins.None") := by
  rw [pp_onlyNoneResult_iff]
  constructor
  · rintro ⟨r, t, h1, h2, h3⟩
    obtain ⟨n, rfl⟩ := (pp_isNoneNamed_iff t).1 h3
    exact ⟨r, n, h1, h2⟩
  · rintro ⟨r, n, h1, h2⟩
    exact ⟨r, _, h1, h2, (pp_isNoneNamed_iff _).2 ⟨n, rfl⟩⟩

theorem several_not_only_none (rs : List Result) (h : rs.length ≠ 1) : Spec.onlyNoneResult rs = false :=
  pp_onlyNoneResult_of_length h

/-- (6) Results in order — `createResults`, for EVERY result list.  `createResults` succeeds exactly
    when the results render, and then returns, in order, `name: T` for exactly those results that
    have a type whose rendering `T` (by `typeStr`, in the state threaded from left to right) is
    non-empty, with `name = escapeKeyword (convertName r.name env.safe)` (`result_name_eq`). -/
theorem results_in_order (env : Env) (rs : List Result) (st st' : St) (texts : List String) :
    createResults env rs st = .ok (texts, st') ↔
      Spec.ResultsRendered (typeStr env) (Spec.resultName env.safe) rs st texts st' :=
  pp_createResults_iff env rs st st' texts

/-- (6) Results in order — `createResultString`: unless the list is a single `None` result, the
    rendered results after ` -> `, parenthesised if there are several; nothing (and the pending marker
    "result without type") if there are none. -/
theorem result_string_form (env : Env) (rs : List Result) (st st'' : St) (text : String)
    (hn : Spec.onlyNoneResult rs = false) :
    createResultString env rs st = .ok (text, st'') ↔
      ∃ texts st', Spec.ResultsRendered (typeStr env) (Spec.resultName env.safe) rs st texts st' ∧
        text = Spec.resultListText texts ∧
        st'' = (if texts.isEmpty then { st' with todos := insertSet "result without type" st'.todos } else st') := by
  rw [createResultString_eq, hn]
  simp only [Bool.false_eq_true, if_false]
  constructor
  · intro h
    cases hc : createResults env rs st with
    | error e => rw [hc] at h; cases h
    | ok x =>
      obtain ⟨texts, s⟩ := x
      have hr := (pp_createResults_iff env rs st s texts).1 hc
      rw [hc] at h
      cases h
      exact ⟨texts, s, hr, rfl, rfl⟩
  · rintro ⟨texts, st', hr, rfl, rfl⟩
    rw [(pp_createResults_iff env rs st st' texts).2 hr]
    rfl

/-- (6, failure) … and it fails exactly when rendering the results fails, with the same error -/
theorem result_string_error (env : Env) (rs : List Result) (st : St) (e : PyErr)
    (hn : Spec.onlyNoneResult rs = false) :
    createResultString env rs st = .error e ↔ createResults env rs st = .error e := by
  rw [createResultString_eq, hn]
  simp only [Bool.false_eq_true, if_false]
  cases createResults env rs st with
  | error e' => simp
  | ok x => simp

/-- (6, the three shapes spelled out) -/
theorem result_string_cases (env : Env) (rs : List Result) (st st' : St) (texts : List String)
    (hn : Spec.onlyNoneResult rs = false)
    (hr : Spec.ResultsRendered (typeStr env) (Spec.resultName env.safe) rs st texts st') :
    (texts = [] → createResultString env rs st
        = .ok ("", { st' with todos := insertSet "result without type" st'.todos })) ∧
    (∀ x, texts = [x] → createResultString env rs st = .ok (" -> " ++ x, st')) ∧
    (2 ≤ texts.length → createResultString env rs st = .ok (" -> (" ++ joinWith ", " texts ++ ")", st')) := by
  have h := (result_string_form env rs st _ _ hn).2 ⟨texts, st', hr, rfl, rfl⟩
  refine ⟨?_, ?_, ?_⟩
  · rintro rfl; exact h
  · rintro x rfl; exact h
  · intro hl
    match texts, hl with
    | _ :: _ :: _, _ => exact h

/-- (6, corollary) never more rendered results than API results … -/
theorem results_count_le (env : Env) (rs : List Result) (st st' : St) (texts : List String)
    (hr : Spec.ResultsRendered (typeStr env) (Spec.resultName env.safe) rs st texts st') :
    texts.length ≤ rs.length :=
  resultsRendered_length_le hr

/-- … and exactly as many when every result has a type that never renders as the empty string -/
theorem results_count_eq (env : Env) (rs : List Result) (st st' : St) (texts : List String)
    (hr : Spec.ResultsRendered (typeStr env) (Spec.resultName env.safe) rs st texts st')
    (hall : ∀ r ∈ rs, ∃ t, r.type = some t ∧ ∀ s tx s', typeStr env t s = .ok (tx, s') → tx ≠ "") :
    texts.length = rs.length :=
  resultsRendered_length_eq hr hall

/-- the hypothesis of `results_count_eq` holds for every class / builtin type (a class name is shown
    keyword-escaped, which never makes it empty) — in particular for the type of a `None` result -/
theorem named_never_empty (env : Env) (n q : String) :
    ∀ s tx s', typeStr env (.named n q) s = .ok (tx, s') → tx ≠ "" :=
  fun s tx s' h => typeStr_named_ne_empty env n q s s' tx h

/-- (6, the property's case) any annotation other than `-> None` on a single result: exactly one result,
    carrying the translated type -/
theorem single_result (env : Env) (r : Result) (t : AType) (st st' : St) (tx : String)
    (ht : r.type = some t) (hnn : isNoneNamed t = false)
    (hts : typeStr env t st = .ok (tx, st')) (hne : tx ≠ "") :
    createResultString env [r] st
      = .ok (" -> " ++ escapeKeyword (convertName r.name env.safe) ++ ": " ++ tx, st') := by
  have hn : Spec.onlyNoneResult [r] = false := by
    simp only [Spec.onlyNoneResult]
    rw [isNoneResult_of_some ht, hnn]
  have hr := Spec.ResultsRendered.shown (name := Spec.resultName env.safe) ht hts hne (.nil st')
  rw [((result_string_cases env [r] st st' _ hn hr).2.1 _ rfl)]
  simp [Spec.resultName, String.append_assoc]

/-- (6) `ResultsRendered` determines texts and final state: the rendering is a function of the API
    results and the start state -/
theorem results_deterministic (env : Env) (rs : List Result) (st s₁ s₂ : St) (t₁ t₂ : List String)
    (h₁ : Spec.ResultsRendered (typeStr env) (Spec.resultName env.safe) rs st t₁ s₁)
    (h₂ : Spec.ResultsRendered (typeStr env) (Spec.resultName env.safe) rs st t₂ s₂) :
    t₁ = t₂ ∧ s₁ = s₂ :=
  resultsRendered_unique h₁ h₂

/-! ### a `None` result among several -/

/-- what the type of a `None` result renders as (`isNoneNamed` looks at the qualified name only, the
    renderer looks the *name* up in the builtin table): the table entry of the name if it has one —
    `None` ↦ `Nothing?` —, otherwise the keyword-escaped name (an empty name is an `IndexError`, a
    name starting with `_` leaves the marker "internal class as type"); the state is otherwise
    unchanged, nothing is imported. -/
theorem none_result_type_text (env : Env) (n : String) (s : St) :
    typeStr env (.named n "builtins.None") s =
      match builtinName n with
      | some b => .ok (b, s)
      | none =>
        match n.toList with
        | [] => .error .indexError
        | c :: _ => .ok (escapeKeyword n,
            if (c == '_' && !s.imports.contains "builtins.None") = true
            then { s with todos := insertSet "internal class as type" s.todos } else s) :=
  pp_typeStr_noneNamed env n s

/-- `None` as the analyser produces it renders as `Nothing?` in every state, leaving it unchanged -/
theorem none_renders_nothing (env : Env) (s : St) :
    typeStr env (.named "None" "builtins.None") s = .ok ("Nothing?", s) :=
  pp_typeStr_None env s

/-- (6, general form for any class-typed result at any position, hence for a `None` result)
    `ResultsRendered` on `pre ++ r :: post` with `r` of a class / builtin type `t`: `pre` is rendered,
    then `t` (to a non-empty text `tx`), then `post`, the states threaded; the rendered list is the
    texts of `pre`, then `name: tx`, then the texts of `post`. -/
theorem named_result_is_rendered (env : Env) (pre post : List Result) (r : Result) (n q : String)
    (st st' : St) (texts : List String) (ht : r.type = some (.named n q)) :
    Spec.ResultsRendered (typeStr env) (Spec.resultName env.safe) (pre ++ r :: post) st texts st' ↔
      ∃ t₁ s₁ tx s₂ t₂,
        Spec.ResultsRendered (typeStr env) (Spec.resultName env.safe) pre st t₁ s₁ ∧
        typeStr env (.named n q) s₁ = .ok (tx, s₂) ∧
        Spec.ResultsRendered (typeStr env) (Spec.resultName env.safe) post s₂ t₂ st' ∧
        texts = t₁ ++ (Spec.resultName env.safe r ++ ": " ++ tx) :: t₂ := by
  rw [pp_resultsRendered_append_iff]
  constructor
  · rintro ⟨t₁, s₁, t₂, h1, h2, rfl⟩
    obtain ⟨tx, s₂, rest, h3, h4, rfl⟩ :=
      (pp_resultsRendered_cons_shown_iff ht (named_never_empty env n q)).1 h2
    exact ⟨t₁, s₁, tx, s₂, rest, h1, h3, h4, rfl⟩
  · rintro ⟨t₁, s₁, tx, s₂, t₂, h1, h2, h3, rfl⟩
    exact ⟨t₁, s₁, _, h1,
      (pp_resultsRendered_cons_shown_iff ht (named_never_empty env n q)).2 ⟨tx, s₂, t₂, h2, h3, rfl⟩, rfl⟩

/-- (NEW, general form) A `None` result among several is shown.  `r` a `None` result in the sense of
    `Spec.isNoneResult` (type `t` with `isNoneNamed t`, i.e. a class with qualified name
    `builtins.None`), at least one other result: `createResultString` succeeds exactly when `pre`,
    the type of `r` and `post` render in that order; the text is the result list
    `texts(pre) ++ [name(r): tx] ++ texts(post)` with `tx` the (non-empty) rendering of `t`
    (`none_result_type_text`), and — the list not being empty — no marker is added. -/
theorem none_among_several_is_shown_general (env : Env) (pre post : List Result) (r : Result) (t : AType)
    (st st' : St) (text : String)
    (ht : r.type = some t) (hnn : isNoneNamed t = true) (hne : pre ++ post ≠ []) :
    createResultString env (pre ++ r :: post) st = .ok (text, st') ↔
      ∃ t₁ s₁ tx s₂ t₂,
        Spec.ResultsRendered (typeStr env) (Spec.resultName env.safe) pre st t₁ s₁ ∧
        typeStr env t s₁ = .ok (tx, s₂) ∧ tx ≠ "" ∧
        Spec.ResultsRendered (typeStr env) (Spec.resultName env.safe) post s₂ t₂ st' ∧
        text = Spec.resultListText (t₁ ++ (Spec.resultName env.safe r ++ ": " ++ tx) :: t₂) := by
  obtain ⟨n, rfl⟩ := (pp_isNoneNamed_iff t).1 hnn
  have hlen : (pre ++ r :: post).length ≠ 1 := by
    intro h
    apply hne
    simp only [List.length_append, List.length_cons] at h
    have h1 : pre.length = 0 := by omega
    have h2 : post.length = 0 := by omega
    rw [List.length_eq_zero_iff.1 h1, List.length_eq_zero_iff.1 h2]
    rfl
  rw [result_string_form env _ st st' text (pp_onlyNoneResult_of_length hlen)]
  constructor
  · rintro ⟨texts, s, hr, rfl, rfl⟩
    obtain ⟨t₁, s₁, tx, s₂, t₂, h1, h2, h3, rfl⟩ := (named_result_is_rendered env pre post r n _ st s texts ht).1 hr
    refine ⟨t₁, s₁, tx, s₂, t₂, h1, h2, named_never_empty env n _ _ _ _ h2, ?_, rfl⟩
    simpa using h3
  · rintro ⟨t₁, s₁, tx, s₂, t₂, h1, h2, _, h3, rfl⟩
    refine ⟨_, st', (named_result_is_rendered env pre post r n _ st st' _ ht).2 ⟨t₁, s₁, tx, s₂, t₂, h1, h2, h3, rfl⟩,
      rfl, ?_⟩
    simp

/-- (NEW) A `None` result among several is shown as `name: Nothing?`.  `r` with the type `None` as the
    analyser produces it (name `None`, qualified name `builtins.None`), at least one other result:
    `createResultString` succeeds exactly when `pre` renders from `st` to some `s₁` and `post` from
    `s₁` to the final state (rendering `None` neither fails nor touches the state); the text is the
    result list `texts(pre) ++ [name(r): Nothing?] ++ texts(post)`; no marker is added. -/
theorem none_among_several_is_shown (env : Env) (pre post : List Result) (r : Result)
    (st st' : St) (text : String)
    (ht : r.type = some (.named "None" "builtins.None")) (hne : pre ++ post ≠ []) :
    createResultString env (pre ++ r :: post) st = .ok (text, st') ↔
      ∃ t₁ s₁ t₂,
        Spec.ResultsRendered (typeStr env) (Spec.resultName env.safe) pre st t₁ s₁ ∧
        Spec.ResultsRendered (typeStr env) (Spec.resultName env.safe) post s₁ t₂ st' ∧
        text = Spec.resultListText (t₁ ++ (Spec.resultName env.safe r ++ ": Nothing?") :: t₂) := by
  rw [none_among_several_is_shown_general env pre post r _ st st' text ht rfl hne]
  constructor
  · rintro ⟨t₁, s₁, tx, s₂, t₂, h1, h2, _, h3, rfl⟩
    rw [none_renders_nothing] at h2
    cases h2
    exact ⟨t₁, s₁, t₂, h1, h3, by rw [pp_append_nothing]⟩
  · rintro ⟨t₁, s₁, t₂, h1, h3, rfl⟩
    exact ⟨t₁, s₁, "Nothing?", s₁, t₂, h1, none_renders_nothing env s₁, by decide, h3, by rw [pp_append_nothing]⟩

/-- (NEW, position) in the rendered list of `pre ++ r :: post`, `r : None` stands right after the
    rendered results of `pre` — at index `t₁.length ≤ pre.length` — and the rendered results of `pre`
    stand before it unchanged. -/
theorem none_result_position (env : Env) (pre post : List Result) (r : Result)
    (st s₁ st' : St) (t₁ texts : List String)
    (ht : r.type = some (.named "None" "builtins.None"))
    (hpre : Spec.ResultsRendered (typeStr env) (Spec.resultName env.safe) pre st t₁ s₁)
    (hr : Spec.ResultsRendered (typeStr env) (Spec.resultName env.safe) (pre ++ r :: post) st texts st') :
    texts[t₁.length]? = some (Spec.resultName env.safe r ++ ": Nothing?") ∧
    texts.take t₁.length = t₁ ∧ t₁.length ≤ pre.length ∧
    ∃ t₂, Spec.ResultsRendered (typeStr env) (Spec.resultName env.safe) post s₁ t₂ st' ∧
      texts.drop (t₁.length + 1) = t₂ := by
  obtain ⟨t₁', s₁', tx, s₂, t₂, h1, h2, h3, rfl⟩ := (named_result_is_rendered env pre post r _ _ st st' texts ht).1 hr
  obtain ⟨rfl, rfl⟩ := resultsRendered_unique hpre h1
  rw [none_renders_nothing] at h2
  cases h2
  refine ⟨by simp [pp_append_nothing], by simp, resultsRendered_length_le hpre, t₂, h3, by simp⟩

/-- (NEW, contrast with the behaviour before the repair) with a `None` result among several the
    result list is never hidden: the text is not empty -/
theorem none_among_several_has_arrow (env : Env) (pre post : List Result) (r : Result) (t : AType)
    (st st' : St) (text : String)
    (ht : r.type = some t) (hnn : isNoneNamed t = true) (hne : pre ++ post ≠ [])
    (h : createResultString env (pre ++ r :: post) st = .ok (text, st')) : text ≠ "" := by
  obtain ⟨t₁, s₁, tx, s₂, t₂, _, _, _, _, rfl⟩ :=
    (none_among_several_is_shown_general env pre post r t st st' text ht hnn hne).1 h
  exact pp_resultListText_ne_empty (by simp)

/-- (7) No results at all (neither annotation nor inferable return): no arrow, and the marker
    "result without type" is pending for the declaration. -/
theorem no_results_no_arrow (env : Env) (st : St) :
    createResultString env [] st = .ok ("", { st with todos := insertSet "result without type" st.todos }) :=
  rfl

/-- (7, slightly more) the same when the API lists results but none of them has a type -/
theorem untyped_results_no_arrow (env : Env) (rs : List Result) (st : St) (h : ∀ r ∈ rs, r.type = none) :
    createResultString env rs st = .ok ("", { st with todos := insertSet "result without type" st.todos }) := by
  have hn : Spec.onlyNoneResult rs = false := by
    cases hb : Spec.onlyNoneResult rs with
    | false => rfl
    | true =>
      obtain ⟨r, t, rfl, ht, _⟩ := (pp_onlyNoneResult_iff rs).1 hb
      rw [h r List.mem_cons_self] at ht
      cases ht
  have hr : Spec.ResultsRendered (typeStr env) (Spec.resultName env.safe) rs st [] st := by
    clear hn
    induction rs with
    | nil => exact .nil st
    | cons r rs ih =>
      exact .untyped (h r List.mem_cons_self) (ih (fun q hq => h q (List.mem_cons_of_mem _ hq)))
  exact (result_string_cases env rs st st [] hn hr).1 rfl

/-! ### Non-vacuity and boundary cases -/

section Examples

private def env0 : Env := { api := {}, safe := true }
private def tInt : AType := .named "int" "builtins.int"
private def tStr : AType := .named "str" "builtins.str"
private def tNone : AType := .named "None" "builtins.None"
private def res (name : String) (t : Option AType) : Result := { id := "m/f/" ++ name, name := name, type := t }
/-- text and pending markers of `createResultString` on the empty state -/
private def run (rs : List Result) : Option (String × List String) :=
  (createResultString env0 rs {}).toOption.map (fun r => (r.1, r.2.todos))
/-- the same with the naming convention switched off (Python names kept) -/
private def runPy (rs : List Result) : Option (String × List String) :=
  (createResultString { env0 with safe := false } rs {}).toOption.map (fun r => (r.1, r.2.todos))

/-- one result: `-> int` -/
example : run [res "result_1" (some tInt)] = some (" -> result1: Int", []) := by decide
/-- several results, in order; keyword name escaped; the untyped one and the one whose type renders
    empty (`Union[()]`) are left out; markers of the rendered types are pending -/
example : run [res "result_1" (some tInt), res "in" (some tStr), res "x" none, res "e" (some (.union [])),
      res "l" (some (.list [tInt, tStr]))]
    = some (" -> (result1: Int, `in`: String, l: List<Int, String>)", ["List"]) := by decide
/-- hypothesis of `result_string_form` on that list -/
example : Spec.onlyNoneResult [res "result_1" (some tInt), res "in" (some tStr), res "x" none,
      res "e" (some (.union [])), res "l" (some (.list [tInt, tStr]))] = false := by decide
/-- `-> None` -/
example : Spec.onlyNoneResult [res "result_1" (some tNone)] = true := by decide
example : run [res "result_1" (some tNone)] = some ("", []) := by decide
/-- a `None` result among several is shown (it used to hide the whole list): `-> tuple[int, None]` -/
example : runPy [res "result_1" (some tInt), res "result_2" (some tNone)]
    = some (" -> (result_1: Int, result_2: Nothing?)", []) := by decide
example : run [res "result_1" (some tInt), res "result_2" (some tNone)]
    = some (" -> (result1: Int, result2: Nothing?)", []) := by decide
example : Spec.onlyNoneResult [res "result_1" (some tInt), res "result_2" (some tNone)] = false := by decide
/-- … in first, middle and last position, the others keep their place; markers of the others pending -/
example : run [res "result_1" (some (.tuple [tInt])), res "r" (some tNone), res "q" (some tInt)]
    = some (" -> (result1: Tuple<Int>, r: Nothing?, q: Int)", ["no tuple support"]) := by decide
example : run [res "r" (some tNone), res "q" (some tInt)] = some (" -> (r: Nothing?, q: Int)", []) := by decide
/-- … also when all the others are left out: one result, no parentheses, no "result without type" -/
example : run [res "x" none, res "r" (some tNone)] = some (" -> r: Nothing?", []) := by decide
example : run [res "r" (some tNone), res "e" (some (.union []))] = some (" -> r: Nothing?", []) := by decide
/-- … and two of them are two results -/
example : run [res "a" (some tNone), res "b" (some tNone)] = some (" -> (a: Nothing?, b: Nothing?)", []) := by decide
/-- no result / only untyped results / only empty renderings: no arrow, marker pending -/
example : run [] = some ("", ["result without type"]) := by decide
example : run [res "x" none] = some ("", ["result without type"]) := by decide
example : run [res "x" (some (.union []))] = some ("", ["result without type"]) := by decide
/-- a renderer failure on any result is a failure of the whole — before and (new) after a `None` result;
    only a list that is a single `None` result is never rendered -/
example : run [res "x" (some (.enum ["a"])), res "r" (some tNone)] = none := by decide
example : run [res "r" (some tNone), res "x" (some (.enum ["a"]))] = none := by decide
/-- the `None` test is on the qualified name: a class that happens to be called `None` is a result … -/
example : run [res "r" (some (.named "None" "mymod.None"))] = some (" -> r: Nothing?", []) := by decide
/-- … and (`none_result_type_text`) the text of a `None` result is decided by the *name*: these two have
    the qualified name `builtins.None`, so alone they give no results, among several they are shown
    under the table entry of their name, or under the name itself -/
example : run [res "r" (some (.named "int" "builtins.None"))] = some ("", []) := by decide
example : run [res "q" (some tInt), res "r" (some (.named "int" "builtins.None")),
      res "s" (some (.named "val" "builtins.None")), res "t" (some (.named "_N" "builtins.None"))]
    = some (" -> (q: Int, r: Int, s: `val`, t: _N)", ["internal class as type"]) := by decide
example : run [res "q" (some tInt), res "r" (some (.named "" "builtins.None"))] = none := by decide

end Examples

end StubGen.C07
