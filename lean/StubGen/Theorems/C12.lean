/-
C12 — the inventory: the JSON view of the analysis result has sorted, duplicate-free lists, ids of the
form `<owner id>/<name>`, resolvable references, and records the functions of the source with their flags.
-/
import StubGen.Proofs.Inventory

namespace StubGen.C12
open StubGen

/-- the ids of a table in the order of the API file: `sorted(self.<table>.values(), key=lambda it: it.id)` -/
def jsonIds {α : Type} (tbl : List α) (key : α → String) : List String := sortStrings (tbl.map key)

/-- 1. no table of the result holds two entries with the same id -/
theorem tables_nodup {env : AEnv} {root : GNode} {mods : List SrcModule} {r : AnaResult} {warnings : List String}
    (h : analyze env root mods = .ok (r, warnings)) :
    (r.modules.map (·.id)).Nodup ∧ (r.classes.map (·.id)).Nodup ∧ (r.functions.map (·.id)).Nodup ∧
    (r.results.map (·.id)).Nodup ∧ (r.enums.map (·.id)).Nodup ∧ (r.enumInstances.map (·.id)).Nodup ∧
    (r.attributes.map (·.id)).Nodup ∧ (r.parameters.map (·.id)).Nodup :=
  have hn := k12_analyze_nodup h
  ⟨hn.modules, hn.classes, hn.functions, hn.results, hn.enums, hn.enumInstances, hn.attributes, hn.parameters⟩

/-- 1'. the eight top-level lists of the API file are strictly increasing in the id (sorted, no duplicates) -/
theorem json_lists_sorted_nodup {env : AEnv} {root : GNode} {mods : List SrcModule} {r : AnaResult} {warnings : List String}
    (h : analyze env root mods = .ok (r, warnings)) :
    (jsonIds r.modules (·.id)).Pairwise (· < ·) ∧ (jsonIds r.classes (·.id)).Pairwise (· < ·) ∧
    (jsonIds r.functions (·.id)).Pairwise (· < ·) ∧ (jsonIds r.results (·.id)).Pairwise (· < ·) ∧
    (jsonIds r.enums (·.id)).Pairwise (· < ·) ∧ (jsonIds r.enumInstances (·.id)).Pairwise (· < ·) ∧
    (jsonIds r.attributes (·.id)).Pairwise (· < ·) ∧ (jsonIds r.parameters (·.id)).Pairwise (· < ·) :=
  have hn := k12_analyze_nodup h
  ⟨k12_sortStrings_strict hn.modules, k12_sortStrings_strict hn.classes, k12_sortStrings_strict hn.functions,
   k12_sortStrings_strict hn.results, k12_sortStrings_strict hn.enums, k12_sortStrings_strict hn.enumInstances,
   k12_sortStrings_strict hn.attributes, k12_sortStrings_strict hn.parameters⟩

/-- 2. ids have the form `<owner id>/<name>`: classes, functions, enums and enum instances `<owner>/<name>`;
    parameters and results `<id of a function of the result>/<name>` -/
theorem ids_have_owner_form {env : AEnv} {root : GNode} {mods : List SrcModule} {r : AnaResult} {warnings : List String}
    (h : analyze env root mods = .ok (r, warnings)) :
    (∀ x ∈ r.classes, ∃ owner, x.id = owner ++ "/" ++ x.name) ∧
    (∀ x ∈ r.functions, ∃ owner, x.id = owner ++ "/" ++ x.name) ∧
    (∀ x ∈ r.enums, ∃ owner, x.id = owner ++ "/" ++ x.name) ∧
    (∀ x ∈ r.enumInstances, ∃ owner, x.id = owner ++ "/" ++ x.name) ∧
    (∀ p ∈ r.parameters, ∃ fn ∈ r.functions, p.id = fn.id ++ "/" ++ p.name) ∧
    (∀ x ∈ r.results, ∃ fn ∈ r.functions, x.id = fn.id ++ "/" ++ x.name) :=
  have hf := k12_analyze_forms h
  ⟨hf.classes, hf.functions, hf.enums, hf.enumInstances, hf.parameters, hf.results⟩

/-- 2 (attributes, strongest true form). The id of an attribute is `<owner>/<name>` with every occurrence of the
    text `__init__/` removed (`_create_attribute`: `.replace("__init__/", "")`).  The plain form
    `<owner>/<name>` is FALSE in general, see `attribute_id_counterexample`. -/
theorem ids_have_owner_form_attributes_partial {env : AEnv} {root : GNode} {mods : List SrcModule} {r : AnaResult}
    {warnings : List String} (h : analyze env root mods = .ok (r, warnings)) :
    ∀ a ∈ r.attributes, ∃ owner, a.id = pyReplace (owner ++ "/" ++ a.name) "__init__/" "" :=
  (k12_analyze_forms h).attributes

/-- 2 (attributes, sufficient condition). If the text `__init__/` does not occur in `<owner>/<name>` (attributes
    assigned in the class body of classes whose path has no component ending in `__init__`), the id is `<owner>/<name>`. -/
theorem ids_have_owner_form_attributes_noinit {env : AEnv} {root : GNode} {mods : List SrcModule} {r : AnaResult}
    {warnings : List String} (h : analyze env root mods = .ok (r, warnings)) :
    ∀ a ∈ r.attributes, ∃ owner, a.id = pyReplace (owner ++ "/" ++ a.name) "__init__/" "" ∧
      (pyIn "__init__/" (owner ++ "/" ++ a.name) = false → a.id = owner ++ "/" ++ a.name) := by
  intro a ha
  obtain ⟨owner, ho⟩ := (k12_analyze_forms h).attributes a ha
  exact ⟨owner, ho, fun hn => by rw [ho, k12_pyReplace_noop _ _ _ (by decide) hn]⟩

/-! Counterexample to `∃ owner, a.id = owner ++ "/" ++ a.name` for attributes: a class whose name ends in
`__init__` (`class my__init__: x: int = 1` in module `m`) gets the attribute id `m/myx`. -/

def cexEnv : AEnv := { opts := {}, aliases := [], infoBases := [] }
def cexRoot : GNode := { name := "m" }
def cexVar : VarInfo :=
  { fullname := "m.my__init__.x", type := some (.inst "int" "builtins.int" []), isInferred := true, explicitSelfType := false }
def cexMods : List SrcModule :=
  [ { path := "m.py", fullname := "m", name := "m", imports := [],
      defs := [ .cls "my__init__" "m.my__init__" [] []
                  [ .assign { lvalues := [ .name "x" "m.my__init__.x" true (some cexVar) ], unanalyzedType := none } ] ] } ]

/-- the analysis of `cexMods` records exactly one attribute: id `m/myx`, name `x` -/
theorem attribute_id_counterexample :
    (match analyze cexEnv cexRoot cexMods with
     | .ok (r, _) => r.attributes.map (fun (a : Attribute) => (a.id, a.name))
     | .error _ => []) = [("m/myx", "x")] := by decide +kernel

/-- … and `m/myx` is not of the form `<owner>/x` -/
theorem attribute_id_counterexample_no_owner : ¬ ∃ owner : String, "m/myx" = owner ++ "/" ++ "x" := by
  rintro ⟨o, h⟩
  have := congrArg (fun s => s.toList.reverse) h
  simp at this

/-! Finding: an enum nested in a class is dropped by `leave_enumdef` (only module-level enums are stored), but its
members stay in `enum_instances`: the instance `m/C/E/A` has no owner entry.  Hence "`i.id = e.id/<name>` for an
enum `e` of the result" is false, only the `<owner>/<name>` form of `ids_have_owner_form` holds. -/

def nestedEnumMods : List SrcModule :=
  [ { path := "m.py", fullname := "m", name := "m", imports := [],
      defs := [ .cls "C" "m.C" [] []
                  [ .cls "E" "m.C.E"
                      [{ hasFullname := true, fullname := "enum.Enum", typeInfo := some "enum.Enum", baseName := none,
                         index := .none }] []
                      [ .assign { lvalues := [ .name "A" "m.C.E.A" true none ], unanalyzedType := none } ] ] ] } ]

theorem nested_enum_instance_without_owner :
    (match analyze cexEnv cexRoot nestedEnumMods with
     | .ok (r, _) => some (r.enums.map (·.id), r.enumInstances.map (·.id), r.classes.map (·.id))
     | .error _ => none) = some ([], ["m/C/E/A"], ["m/C"]) := by decide +kernel

/-- 3. every id referenced from a module, class, function or enum of the result has an entry in its table -/
theorem references_resolve {env : AEnv} {root : GNode} {mods : List SrcModule} {r : AnaResult} {warnings : List String}
    (h : analyze env root mods = .ok (r, warnings)) :
    (∀ m ∈ r.modules, (∀ c ∈ m.classes, ∃ c' ∈ r.classes, c'.id = c.id) ∧
                      (∀ f ∈ m.functions, ∃ f' ∈ r.functions, f'.id = f.id) ∧
                      (∀ e ∈ m.enums, ∃ e' ∈ r.enums, e'.id = e.id)) ∧
    (∀ c ∈ r.classes, (∀ d ∈ c.classes, ∃ d' ∈ r.classes, d'.id = d.id) ∧
                      (∀ f ∈ c.methods, ∃ f' ∈ r.functions, f'.id = f.id) ∧
                      (∀ f, c.ctor = some f → ∃ f' ∈ r.functions, f'.id = f.id) ∧
                      (∀ a ∈ c.attributes, ∃ a' ∈ r.attributes, a'.id = a.id)) ∧
    (∀ e ∈ r.enums, ∀ i ∈ e.instances, ∃ i' ∈ r.enumInstances, i'.id = i.id) ∧
    (∀ f ∈ r.functions, (∀ p ∈ f.params, ∃ p' ∈ r.parameters, p'.id = p.id) ∧
                        (∀ x ∈ f.results, ∃ x' ∈ r.results, x'.id = x.id)) := by
  have hr := k12_analyze_refs h
  have ex : ∀ {α : Type} {key : α → String} {tbl : List α} {k : String}, k ∈ tbl.map key → ∃ y ∈ tbl, key y = k :=
    fun hk => by obtain ⟨y, hy, he⟩ := List.mem_map.1 hk; exact ⟨y, hy, he⟩
  refine ⟨fun m hm => ?_, fun c hc => ?_, fun e he i hi => ex (hr.enums e he i hi), fun f hf => ?_⟩
  · have := hr.modules m hm
    exact ⟨fun c hc => ex (this.1 c hc), fun f hf => ex (this.2.1 f hf), fun e he => ex (this.2.2 e he)⟩
  · have := hr.classes c hc
    exact ⟨fun d hd => ex (this.1 d hd), fun f hf => ex (this.2.1 f hf), fun f hf => ex (this.2.2.1 f hf),
      fun a ha => ex (this.2.2.2 a ha)⟩
  · have := hr.functions f hf
    exact ⟨fun p hp => ex (this.1 p hp), fun x hx => ex (this.2 x hx)⟩

/-- 4. completeness for functions, general form.  `k12_srcFuncs mods` lists `(id, definition)` for every function
    definition the walker visits (module level, methods and decorated/overloaded methods of classes at any depth),
    in walk order; `k12_lastDef id` picks the LAST definition with that id (a later definition overwrites an
    earlier one in the table).  That definition is recorded with its flags and parameter names. -/
theorem flags_copied {env : AEnv} {root : GNode} {mods : List SrcModule} {r : AnaResult} {warnings : List String}
    (h : analyze env root mods = .ok (r, warnings)) {id : String} {f : FuncDef}
    (hl : k12_lastDef id (k12_srcFuncs mods) = some f) :
    ∃ fn ∈ r.functions, fn.id = id ∧ fn.name = f.name ∧ fn.isStatic = f.isStatic ∧ fn.isClassMethod = f.isClass ∧
      fn.isProperty = f.isProperty ∧ fn.params.map (·.name) = f.args.map (·.name) := by
  obtain ⟨fn, hfn, hid, hm⟩ := k12_analyze_lastDef h hl
  exact ⟨fn, hfn, hid, hm.name, hm.isStatic, hm.isClassMethod, hm.isProperty, hm.params⟩

/-- 4a. module level: a top-level function (plain or decorated) whose id is not given to a different definition
    anywhere in the analysed files is recorded under `<module id>/<name>` with its flags and parameter names -/
theorem flags_copied_toplevel {env : AEnv} {root : GNode} {mods : List SrcModule} {r : AnaResult} {warnings : List String}
    (h : analyze env root mods = .ok (r, warnings)) {m : SrcModule} {f : FuncDef} (hm : m ∈ mods)
    (hd : Def.func f ∈ m.defs ∨ Def.decorator f ∈ m.defs)
    (huniq : ∀ p ∈ k12_srcFuncs mods, p.1 = replaceChar m.fullname '.' "/" ++ "/" ++ f.name → p.2 = f) :
    ∃ fn ∈ r.functions, fn.id = replaceChar m.fullname '.' "/" ++ "/" ++ f.name ∧ fn.name = f.name ∧
      fn.isStatic = f.isStatic ∧ fn.isClassMethod = f.isClass ∧ fn.isProperty = f.isProperty ∧
      fn.params.map (·.name) = f.args.map (·.name) :=
  flags_copied h (k12_lastDef_of_unique (k12_toplevel_mem_srcFuncs hm hd) huniq)

/-- 4b. methods of top-level (non-enum) classes, same condition -/
theorem flags_copied_method {env : AEnv} {root : GNode} {mods : List SrcModule} {r : AnaResult} {warnings : List String}
    (h : analyze env root mods = .ok (r, warnings)) {m : SrcModule} {name fullname : String}
    {bases removed : List BaseExpr} {defs : List Def} {f : FuncDef} (hm : m ∈ mods)
    (hc : Def.cls name fullname bases removed defs ∈ m.defs) (he : isEnumClass bases = false)
    (hd : Def.func f ∈ defs ∨ Def.decorator f ∈ defs)
    (huniq : ∀ p ∈ k12_srcFuncs mods,
      p.1 = replaceChar m.fullname '.' "/" ++ "/" ++ name ++ "/" ++ f.name → p.2 = f) :
    ∃ fn ∈ r.functions, fn.id = replaceChar m.fullname '.' "/" ++ "/" ++ name ++ "/" ++ f.name ∧ fn.name = f.name ∧
      fn.isStatic = f.isStatic ∧ fn.isClassMethod = f.isClass ∧ fn.isProperty = f.isProperty ∧
      fn.params.map (·.name) = f.args.map (·.name) :=
  flags_copied h (k12_lastDef_of_unique (k12_method_mem_srcFuncs hm hc he hd) huniq)

/-- 4 (weak form, no side condition): the id of every visited function definition has an entry -/
theorem function_ids_recorded {env : AEnv} {root : GNode} {mods : List SrcModule} {r : AnaResult} {warnings : List String}
    (h : analyze env root mods = .ok (r, warnings)) {p : String × FuncDef} (hp : p ∈ k12_srcFuncs mods) :
    ∃ fn ∈ r.functions, fn.id = p.1 := by
  cases hl : k12_lastDef p.1 (k12_srcFuncs mods) with
  | some f =>
    obtain ⟨fn, hfn, hid, _⟩ := k12_analyze_lastDef h hl
    exact ⟨fn, hfn, hid⟩
  | none =>
    unfold k12_lastDef at hl
    simp only [Option.map_eq_none_iff] at hl
    have := List.find?_eq_none.1 hl p (List.mem_reverse.2 hp)
    simp at this

/-! ### 5. non-vacuity: a package `pkg` (re-exporting `C`) with a module `pkg.mod` holding a class `C`
(constructor assigning `self.x`, a static method, a nested class), an enum with two members and a function -/

def intT : MType := .inst "int" "builtins.int" []
def exVar : VarInfo := { fullname := "pkg.mod.C.x", type := some intT, isInferred := true, explicitSelfType := false }
def exAssign : Assignment := { lvalues := [ .member "x" "" true (some exVar) ], unanalyzedType := none }

def exInit : FuncDef :=
  { name := "__init__", fullname := "pkg.mod.C.__init__", isStatic := false, isClass := false, isProperty := false,
    args := [ { name := "self", isSelf := true, isCls := false, kind := 0, posOnly := false,
                varType := some (.inst "C" "pkg.mod.C" []), annotation := none, init := none },
              { name := "x", isSelf := false, isCls := false, kind := 0, posOnly := false,
                varType := some intT, annotation := some (.unbound "int" []), init := none } ],
    hasCallableType := true, retType := some .none, unanalyzedRet := none, unanalyzedRetLiteralIsNone := false,
    body := [ .assign exAssign ] }

def exStatic : FuncDef :=
  { name := "make", fullname := "pkg.mod.C.make", isStatic := true, isClass := false, isProperty := false,
    args := [], hasCallableType := true, retType := some intT, unanalyzedRet := some (.unbound "int" []),
    unanalyzedRetLiteralIsNone := false, body := [ .ret (some (.int 1)) ] }

def exF : FuncDef :=
  { name := "f", fullname := "pkg.mod.f", isStatic := false, isClass := false, isProperty := false,
    args := [ { name := "a", isSelf := false, isCls := false, kind := 0, posOnly := false,
                varType := some intT, annotation := some (.unbound "int" []), init := some (.int 3) } ],
    hasCallableType := true, retType := some intT, unanalyzedRet := some (.unbound "int" []),
    unanalyzedRetLiteralIsNone := false, body := [ .ret (some (.int 1)) ] }

def exEnumBase : BaseExpr :=
  { hasFullname := true, fullname := "enum.Enum", typeInfo := some "enum.Enum", baseName := none, index := .none }

def exMods : List SrcModule :=
  [ { path := "pkg/__init__.py", fullname := "pkg", name := "pkg",
      imports := [ .from_ "pkg.mod" [("C", none)] ], defs := [ .docExpr "Package." "Package." ] },
    { path := "pkg/mod.py", fullname := "pkg.mod", name := "mod", imports := [],
      defs := [ .cls "C" "pkg.mod.C" [] [] [ .func exInit, .decorator exStatic, .cls "Inner" "pkg.mod.C.Inner" [] [] [] ],
                .cls "Color" "pkg.mod.Color" [exEnumBase] []
                  [ .assign { lvalues := [ .name "RED" "pkg.mod.Color.RED" true none ], unanalyzedType := none },
                    .assign { lvalues := [ .name "GREEN" "pkg.mod.Color.GREEN" true none ], unanalyzedType := none } ],
                .func exF ] } ]

/-- the eight sorted id lists of the API file of `exMods` (modules, classes, functions, results, enums,
    enum instances, attributes, parameters); the analysis succeeds without warnings -/
example :
    (match analyze cexEnv { name := "pkg" } exMods with
     | .ok (r, w) =>
       some ([ jsonIds r.modules (·.id), jsonIds r.classes (·.id), jsonIds r.functions (·.id), jsonIds r.results (·.id),
               jsonIds r.enums (·.id), jsonIds r.enumInstances (·.id), jsonIds r.attributes (·.id),
               jsonIds r.parameters (·.id) ], w)
     | .error _ => none) =
    some ([ ["pkg", "pkg/mod"],
            ["pkg/mod/C", "pkg/mod/C/Inner"],
            ["pkg/mod/C/__init__", "pkg/mod/C/make", "pkg/mod/f"],
            ["pkg/mod/C/make/result_1", "pkg/mod/f/result_1"],
            ["pkg/mod/Color"],
            ["pkg/mod/Color/GREEN", "pkg/mod/Color/RED"],
            ["pkg/mod/C/x"],
            ["pkg/mod/C/__init__/self", "pkg/mod/C/__init__/x", "pkg/mod/f/a"] ], []) := by decide +kernel

/-- the source-side list of `flags_copied` for the example, and the recorded flags of the static method -/
example : (k12_srcFuncs exMods).map (·.1) = ["pkg/mod/C/__init__", "pkg/mod/C/make", "pkg/mod/f"] := by decide +kernel

example :
    (match analyze cexEnv { name := "pkg" } exMods with
     | .ok (r, _) => r.functions.map (fun (f : Function) => (f.id, f.isStatic, f.params.map (·.name)))
     | .error _ => []) =
    [("pkg/mod/C/__init__", false, ["self", "x"]), ("pkg/mod/C/make", true, []), ("pkg/mod/f", false, ["a"])] := by
  decide +kernel

end StubGen.C12
