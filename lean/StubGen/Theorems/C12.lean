/-
C12 — the inventory: the JSON view of the analysis result has sorted, duplicate-free lists, ids of the
form `<owner id>/<name>` (all seven tables below the modules; attributes: `<id of a class of the result>/<name>`),
resolvable references, and records the functions of the source with their flags.  The converse of the reference
property (every attribute / parameter / result is listed by its owner) holds when no id is defined twice.
-/
import StubGen.Proofs.Inventory

namespace StubGen.C12
open StubGen

/-- the ids of a table in the order of the API file: `sorted(self.<table>.values(), key=lambda it: it.id)` -/
def jsonIds {α : Type} (tbl : List α) (key : α → String) : List String := sortStrings (tbl.map key)

/-- 1. no table of the result holds two entries with the same id -/
theorem tables_nodup {env : AEnv} {root : GNode} {mods : List SrcModule} {r : AnaResult} {warnings : List String}
    (h : analyze env root mods = .ok (r, warnings)) :
    (r.modules.map (·.id)).Nodup ∧ (r.classes.map (·.id)).Nodup ∧ (r.functions.map (·.id)).Nodup ∧
    (r.results.map (·.id)).Nodup ∧ (r.enums.map (·.id)).Nodup ∧ (r.enumInstances.map (·.id)).Nodup ∧
    (r.attributes.map (·.id)).Nodup ∧ (r.parameters.map (·.id)).Nodup :=
  have hn := k12_analyze_nodup h
  ⟨hn.modules, hn.classes, hn.functions, hn.results, hn.enums, hn.enumInstances, hn.attributes, hn.parameters⟩

/-- 1'. the eight top-level lists of the API file are strictly increasing in the id (sorted, no duplicates) -/
theorem json_lists_sorted_nodup {env : AEnv} {root : GNode} {mods : List SrcModule} {r : AnaResult} {warnings : List String}
    (h : analyze env root mods = .ok (r, warnings)) :
    (jsonIds r.modules (·.id)).Pairwise (· < ·) ∧ (jsonIds r.classes (·.id)).Pairwise (· < ·) ∧
    (jsonIds r.functions (·.id)).Pairwise (· < ·) ∧ (jsonIds r.results (·.id)).Pairwise (· < ·) ∧
    (jsonIds r.enums (·.id)).Pairwise (· < ·) ∧ (jsonIds r.enumInstances (·.id)).Pairwise (· < ·) ∧
    (jsonIds r.attributes (·.id)).Pairwise (· < ·) ∧ (jsonIds r.parameters (·.id)).Pairwise (· < ·) :=
  have hn := k12_analyze_nodup h
  ⟨k12_sortStrings_strict hn.modules, k12_sortStrings_strict hn.classes, k12_sortStrings_strict hn.functions,
   k12_sortStrings_strict hn.results, k12_sortStrings_strict hn.enums, k12_sortStrings_strict hn.enumInstances,
   k12_sortStrings_strict hn.attributes, k12_sortStrings_strict hn.parameters⟩

/-- 2. ids have the form `<owner id>/<name>`, for all seven tables below the modules: classes, functions, enums and
    enum instances `<owner>/<name>`; parameters and results `<id of a function of the result>/<name>`;
    attributes `<id of a class of the result>/<name>` (also for attributes assigned in a constructor: the owner is
    the class, not `…/__init__`) -/
theorem ids_have_owner_form {env : AEnv} {root : GNode} {mods : List SrcModule} {r : AnaResult} {warnings : List String}
    (h : analyze env root mods = .ok (r, warnings)) :
    (∀ x ∈ r.classes, ∃ owner, x.id = owner ++ "/" ++ x.name) ∧
    (∀ x ∈ r.functions, ∃ owner, x.id = owner ++ "/" ++ x.name) ∧
    (∀ x ∈ r.enums, ∃ owner, x.id = owner ++ "/" ++ x.name) ∧
    (∀ x ∈ r.enumInstances, ∃ owner, x.id = owner ++ "/" ++ x.name) ∧
    (∀ p ∈ r.parameters, ∃ fn ∈ r.functions, p.id = fn.id ++ "/" ++ p.name) ∧
    (∀ x ∈ r.results, ∃ fn ∈ r.functions, x.id = fn.id ++ "/" ++ x.name) ∧
    (∀ a ∈ r.attributes, ∃ c ∈ r.classes, a.id = c.id ++ "/" ++ a.name) :=
  have hf := k12_analyze_forms h
  ⟨fun x hx => (hf.classes x hx).1, fun x hx => (hf.functions x hx).1, hf.enums, hf.enumInstances, hf.parameters,
   hf.results,
   fun a ha => k12_AttrForm_nil (hf.attributes a ha)⟩

/-! The class whose name ends in `__init__` (`class my__init__: x: int = 1` in module `m`): its attribute has the
id `m/my__init__/x` (`<class id>/<name>`; before the repair of `_create_attribute` the text `__init__/` was removed
from the id, giving `m/myx`). -/

def cexEnv : AEnv := { opts := {}, aliases := [], infoBases := [] }
def cexRoot : GNode := { name := "m" }
def cexVar : VarInfo :=
  { fullname := "m.my__init__.x", type := some (.inst "int" "builtins.int" []), isInferred := true, explicitSelfType := false }
def cexMods : List SrcModule :=
  [ { path := "m.py", fullname := "m", name := "m", imports := [],
      defs := [ .cls "my__init__" "m.my__init__" [] []
                  [ .assign { lvalues := [ .name "x" "m.my__init__.x" true (some cexVar) ], unanalyzedType := none } ] ] } ]

/-- the analysis of `cexMods` records exactly one class, `m/my__init__`, and exactly one attribute: id
    `m/my__init__/x`, name `x`; the class lists that attribute -/
theorem attribute_id_example :
    (match analyze cexEnv cexRoot cexMods with
     | .ok (r, _) => some (r.attributes.map (fun (a : Attribute) => (a.id, a.name)),
                           r.classes.map (fun (c : Class) => (c.id, c.attributes.map (·.id))))
     | .error _ => none) = some ([("m/my__init__/x", "x")], [("m/my__init__", ["m/my__init__/x"])]) := by decide +kernel

/-! Finding: an enum nested in a class is dropped by `leave_enumdef` (only module-level enums are stored), but its
members stay in `enum_instances`: the instance `m/C/E/A` has no owner entry.  Hence "`i.id = e.id/<name>` for an
enum `e` of the result" is false, only the `<owner>/<name>` form of `ids_have_owner_form` holds. -/

def nestedEnumMods : List SrcModule :=
  [ { path := "m.py", fullname := "m", name := "m", imports := [],
      defs := [ .cls "C" "m.C" [] []
                  [ .cls "E" "m.C.E"
                      [{ hasFullname := true, fullname := "enum.Enum", typeInfo := some "enum.Enum", baseName := none,
                         index := .none }] []
                      [ .assign { lvalues := [ .name "A" "m.C.E.A" true none ], unanalyzedType := none } ] ] ] } ]

theorem nested_enum_instance_without_owner :
    (match analyze cexEnv cexRoot nestedEnumMods with
     | .ok (r, _) => some (r.enums.map (·.id), r.enumInstances.map (·.id), r.classes.map (·.id))
     | .error _ => none) = some ([], ["m/C/E/A"], ["m/C"]) := by decide +kernel

/-- 3. every id referenced from a module, class, function or enum of the result has an entry in its table -/
theorem references_resolve {env : AEnv} {root : GNode} {mods : List SrcModule} {r : AnaResult} {warnings : List String}
    (h : analyze env root mods = .ok (r, warnings)) :
    (∀ m ∈ r.modules, (∀ c ∈ m.classes, ∃ c' ∈ r.classes, c'.id = c.id) ∧
                      (∀ f ∈ m.functions, ∃ f' ∈ r.functions, f'.id = f.id) ∧
                      (∀ e ∈ m.enums, ∃ e' ∈ r.enums, e'.id = e.id)) ∧
    (∀ c ∈ r.classes, (∀ d ∈ c.classes, ∃ d' ∈ r.classes, d'.id = d.id) ∧
                      (∀ f ∈ c.methods, ∃ f' ∈ r.functions, f'.id = f.id) ∧
                      (∀ f, c.ctor = some f → ∃ f' ∈ r.functions, f'.id = f.id) ∧
                      (∀ a ∈ c.attributes, ∃ a' ∈ r.attributes, a'.id = a.id)) ∧
    (∀ e ∈ r.enums, ∀ i ∈ e.instances, ∃ i' ∈ r.enumInstances, i'.id = i.id) ∧
    (∀ f ∈ r.functions, (∀ p ∈ f.params, ∃ p' ∈ r.parameters, p'.id = p.id) ∧
                        (∀ x ∈ f.results, ∃ x' ∈ r.results, x'.id = x.id)) := by
  have hr := k12_analyze_refs h
  have ex : ∀ {α : Type} {key : α → String} {tbl : List α} {k : String}, k ∈ tbl.map key → ∃ y ∈ tbl, key y = k :=
    fun hk => by obtain ⟨y, hy, he⟩ := List.mem_map.1 hk; exact ⟨y, hy, he⟩
  refine ⟨fun m hm => ?_, fun c hc => ?_, fun e he i hi => ex (hr.enums e he i hi), fun f hf => ?_⟩
  · have := hr.modules m hm
    exact ⟨fun c hc => ex (this.1 c hc), fun f hf => ex (this.2.1 f hf), fun e he => ex (this.2.2 e he)⟩
  · have := hr.classes c hc
    exact ⟨fun d hd => ex (this.1 d hd), fun f hf => ex (this.2.1 f hf), fun f hf => ex (this.2.2.1 f hf),
      fun a ha => ex (this.2.2.2 a ha)⟩
  · have := hr.functions f hf
    exact ⟨fun p hp => ex (this.1 p hp), fun x hx => ex (this.2 x hx)⟩

/-- 4. completeness for functions, general form.  `k12_srcFuncs mods` lists `(id, definition)` for every function
    definition the walker visits (plain, decorated and — when they have an implementation — overloaded functions,
    at module level and as methods of classes at any depth; nothing in enum bodies), in walk order; `k12_lastDef id` picks the LAST definition with that id (a later definition overwrites an
    earlier one in the table).  That definition is recorded with its flags and parameter names. -/
theorem flags_copied {env : AEnv} {root : GNode} {mods : List SrcModule} {r : AnaResult} {warnings : List String}
    (h : analyze env root mods = .ok (r, warnings)) {id : String} {f : FuncDef}
    (hl : k12_lastDef id (k12_srcFuncs mods) = some f) :
    ∃ fn ∈ r.functions, fn.id = id ∧ fn.name = f.name ∧ fn.isStatic = f.isStatic ∧ fn.isClassMethod = f.isClass ∧
      fn.isProperty = f.isProperty ∧ fn.params.map (·.name) = f.args.map (·.name) := by
  obtain ⟨fn, hfn, hid, hm⟩ := k12_analyze_lastDef h hl
  exact ⟨fn, hfn, hid, hm.name, hm.isStatic, hm.isClassMethod, hm.isProperty, hm.params⟩

/-- 4a. module level: a top-level function (plain or decorated) whose id is not given to a different definition
    anywhere in the analysed files is recorded under `<module id>/<name>` with its flags and parameter names -/
theorem flags_copied_toplevel {env : AEnv} {root : GNode} {mods : List SrcModule} {r : AnaResult} {warnings : List String}
    (h : analyze env root mods = .ok (r, warnings)) {m : SrcModule} {f : FuncDef} (hm : m ∈ mods)
    (hd : Def.func f ∈ m.defs ∨ Def.decorator f ∈ m.defs)
    (huniq : ∀ p ∈ k12_srcFuncs mods, p.1 = replaceChar m.fullname '.' "/" ++ "/" ++ f.name → p.2 = f) :
    ∃ fn ∈ r.functions, fn.id = replaceChar m.fullname '.' "/" ++ "/" ++ f.name ∧ fn.name = f.name ∧
      fn.isStatic = f.isStatic ∧ fn.isClassMethod = f.isClass ∧ fn.isProperty = f.isProperty ∧
      fn.params.map (·.name) = f.args.map (·.name) :=
  flags_copied h (k12_lastDef_of_unique (k12_toplevel_mem_srcFuncs hm hd) huniq)

/-- 4a'. module level, overloaded: a top-level overloaded function WITH an implementation (`Def.overloaded (some f)`)
    is recorded — as its implementation `f` — under `<module id>/<name>`, same condition.  (Before the repair of the
    walker, overloaded functions were walked in class bodies only.) -/
theorem flags_copied_toplevel_overloaded {env : AEnv} {root : GNode} {mods : List SrcModule} {r : AnaResult}
    {warnings : List String} (h : analyze env root mods = .ok (r, warnings)) {m : SrcModule} {f : FuncDef} (hm : m ∈ mods)
    (hd : Def.overloaded (some f) ∈ m.defs)
    (huniq : ∀ p ∈ k12_srcFuncs mods, p.1 = replaceChar m.fullname '.' "/" ++ "/" ++ f.name → p.2 = f) :
    ∃ fn ∈ r.functions, fn.id = replaceChar m.fullname '.' "/" ++ "/" ++ f.name ∧ fn.name = f.name ∧
      fn.isStatic = f.isStatic ∧ fn.isClassMethod = f.isClass ∧ fn.isProperty = f.isProperty ∧
      fn.params.map (·.name) = f.args.map (·.name) :=
  flags_copied h (k12_lastDef_of_unique (k12_toplevel_overloaded_mem_srcFuncs hm hd) huniq)

/-- 4b. methods of top-level (non-enum) classes, same condition -/
theorem flags_copied_method {env : AEnv} {root : GNode} {mods : List SrcModule} {r : AnaResult} {warnings : List String}
    (h : analyze env root mods = .ok (r, warnings)) {m : SrcModule} {name fullname : String}
    {bases removed : List BaseExpr} {defs : List Def} {f : FuncDef} (hm : m ∈ mods)
    (hc : Def.cls name fullname bases removed defs ∈ m.defs) (he : isEnumClass bases = false)
    (hd : Def.func f ∈ defs ∨ Def.decorator f ∈ defs)
    (huniq : ∀ p ∈ k12_srcFuncs mods,
      p.1 = replaceChar m.fullname '.' "/" ++ "/" ++ name ++ "/" ++ f.name → p.2 = f) :
    ∃ fn ∈ r.functions, fn.id = replaceChar m.fullname '.' "/" ++ "/" ++ name ++ "/" ++ f.name ∧ fn.name = f.name ∧
      fn.isStatic = f.isStatic ∧ fn.isClassMethod = f.isClass ∧ fn.isProperty = f.isProperty ∧
      fn.params.map (·.name) = f.args.map (·.name) :=
  flags_copied h (k12_lastDef_of_unique (k12_method_mem_srcFuncs hm hc he hd) huniq)

/-- 4 (weak form, no side condition): the id of every visited function definition (module-level overloaded functions
    with an implementation included) has an entry -/
theorem function_ids_recorded {env : AEnv} {root : GNode} {mods : List SrcModule} {r : AnaResult} {warnings : List String}
    (h : analyze env root mods = .ok (r, warnings)) {p : String × FuncDef} (hp : p ∈ k12_srcFuncs mods) :
    ∃ fn ∈ r.functions, fn.id = p.1 := by
  cases hl : k12_lastDef p.1 (k12_srcFuncs mods) with
  | some f =>
    obtain ⟨fn, hfn, hid, _⟩ := k12_analyze_lastDef h hl
    exact ⟨fn, hfn, hid⟩
  | none =>
    unfold k12_lastDef at hl
    simp only [Option.map_eq_none_iff] at hl
    have := List.find?_eq_none.1 hl p (List.mem_reverse.2 hp)
    simp at this

/-! ### 5. non-vacuity: a package `pkg` (re-exporting `C`) with a module `pkg.mod` holding a class `C`
(constructor assigning `self.x`, a static method, a nested class), an enum with two members and a function -/

def intT : MType := .inst "int" "builtins.int" []
def exVar : VarInfo := { fullname := "pkg.mod.C.x", type := some intT, isInferred := true, explicitSelfType := false }
def exAssign : Assignment := { lvalues := [ .member "x" "" true (some exVar) ], unanalyzedType := none }

def exInit : FuncDef :=
  { name := "__init__", fullname := "pkg.mod.C.__init__", isStatic := false, isClass := false, isProperty := false,
    args := [ { name := "self", isSelf := true, isCls := false, kind := 0, posOnly := false,
                varType := some (.inst "C" "pkg.mod.C" []), annotation := none, init := none },
              { name := "x", isSelf := false, isCls := false, kind := 0, posOnly := false,
                varType := some intT, annotation := some (.unbound "int" []), init := none } ],
    hasCallableType := true, retType := some .none, unanalyzedRet := none, unanalyzedRetLiteralIsNone := false,
    body := [ .assign exAssign ] }

def exStatic : FuncDef :=
  { name := "make", fullname := "pkg.mod.C.make", isStatic := true, isClass := false, isProperty := false,
    args := [], hasCallableType := true, retType := some intT, unanalyzedRet := some (.unbound "int" []),
    unanalyzedRetLiteralIsNone := false, body := [ .ret (some (.int 1)) ] }

def exF : FuncDef :=
  { name := "f", fullname := "pkg.mod.f", isStatic := false, isClass := false, isProperty := false,
    args := [ { name := "a", isSelf := false, isCls := false, kind := 0, posOnly := false,
                varType := some intT, annotation := some (.unbound "int" []), init := some (.int 3) } ],
    hasCallableType := true, retType := some intT, unanalyzedRet := some (.unbound "int" []),
    unanalyzedRetLiteralIsNone := false, body := [ .ret (some (.int 1)) ] }

def exEnumBase : BaseExpr :=
  { hasFullname := true, fullname := "enum.Enum", typeInfo := some "enum.Enum", baseName := none, index := .none }

def exMods : List SrcModule :=
  [ { path := "pkg/__init__.py", fullname := "pkg", name := "pkg",
      imports := [ .from_ "pkg.mod" [("C", none)] ], defs := [ .docExpr "Package." "Package." ] },
    { path := "pkg/mod.py", fullname := "pkg.mod", name := "mod", imports := [],
      defs := [ .cls "C" "pkg.mod.C" [] [] [ .func exInit, .decorator exStatic, .cls "Inner" "pkg.mod.C.Inner" [] [] [] ],
                .cls "Color" "pkg.mod.Color" [exEnumBase] []
                  [ .assign { lvalues := [ .name "RED" "pkg.mod.Color.RED" true none ], unanalyzedType := none },
                    .assign { lvalues := [ .name "GREEN" "pkg.mod.Color.GREEN" true none ], unanalyzedType := none } ],
                .func exF ] } ]

/-- the eight sorted id lists of the API file of `exMods` (modules, classes, functions, results, enums,
    enum instances, attributes, parameters); the analysis succeeds without warnings -/
example :
    (match analyze cexEnv { name := "pkg" } exMods with
     | .ok (r, w) =>
       some ([ jsonIds r.modules (·.id), jsonIds r.classes (·.id), jsonIds r.functions (·.id), jsonIds r.results (·.id),
               jsonIds r.enums (·.id), jsonIds r.enumInstances (·.id), jsonIds r.attributes (·.id),
               jsonIds r.parameters (·.id) ], w)
     | .error _ => none) =
    some ([ ["pkg", "pkg/mod"],
            ["pkg/mod/C", "pkg/mod/C/Inner"],
            ["pkg/mod/C/__init__", "pkg/mod/C/make", "pkg/mod/f"],
            ["pkg/mod/C/make/result_1", "pkg/mod/f/result_1"],
            ["pkg/mod/Color"],
            ["pkg/mod/Color/GREEN", "pkg/mod/Color/RED"],
            ["pkg/mod/C/x"],
            ["pkg/mod/C/__init__/self", "pkg/mod/C/__init__/x", "pkg/mod/f/a"] ], []) := by decide +kernel

/-- the source-side list of `flags_copied` for the example, and the recorded flags of the static method -/
example : (k12_srcFuncs exMods).map (·.1) = ["pkg/mod/C/__init__", "pkg/mod/C/make", "pkg/mod/f"] := by decide +kernel

example :
    (match analyze cexEnv { name := "pkg" } exMods with
     | .ok (r, _) => r.functions.map (fun (f : Function) => (f.id, f.isStatic, f.params.map (·.name)))
     | .error _ => []) =
    [("pkg/mod/C/__init__", false, ["self", "x"]), ("pkg/mod/C/make", true, []), ("pkg/mod/f", false, ["a"])] := by
  decide +kernel

/-! ### 6. the converse of `references_resolve`: is every entry of a table listed by its owner?

NOT in general.  `table[id] = value` overwrites: when two classes (functions) get the same id, the table keeps the
later one, but the attributes (parameters, results) of the earlier one stay in their tables.  Ids collide even in
well-formed packages: the class `C` nested in class `b` of the package `a` and the class `C` of the module `a.b` both
get the id `a/b/C`; the method `f` of class `b` and the function `f` of module `a.b` both get `a/b/f`. -/

def dupVar (n : String) : VarInfo :=
  { fullname := "a.b.C." ++ n, type := some intT, isInferred := true, explicitSelfType := false }
def dupAssign (n : String) : Def :=
  .assign { lvalues := [ .name n ("a.b.C." ++ n) true (some (dupVar n)) ], unanalyzedType := none }
def dupF (p : String) (ret : MType) : FuncDef :=
  { name := "f", fullname := "a.b.f", isStatic := false, isClass := false, isProperty := false,
    args := [ { name := p, isSelf := false, isCls := false, kind := 0, posOnly := false,
                varType := some intT, annotation := some (.unbound "int" []), init := none } ],
    hasCallableType := true, retType := some ret, unanalyzedRet := none,
    unanalyzedRetLiteralIsNone := false, body := [] }

/-- `a/__init__.py`: `class b: (class C: x = 1); @deco def f(p) -> tuple[int, int]`;
    `a/b.py`: `class C: y = 1`, `def f(q) -> int` -/
def dupMods : List SrcModule :=
  [ { path := "a/__init__.py", fullname := "a", name := "a", imports := [],
      defs := [ .cls "b" "a.b" [] []
                  [ .cls "C" "a.b.C" [] [] [ dupAssign "x" ], .decorator (dupF "p" (.tuple [intT, intT])) ] ] },
    { path := "a/b.py", fullname := "a.b", name := "b", imports := [],
      defs := [ .cls "C" "a.b.C" [] [] [ dupAssign "y" ], .func (dupF "q" intT) ] } ]

/-- the tables of `dupMods`: ids of the attributes, and the classes with the attributes they list.  The analysis
    succeeds without warnings.  The attribute `a/b/C/x` is listed by no class of the result:
    `attributes_owner_listed` (`∀ a ∈ r.attributes, ∃ c ∈ r.classes, ∃ a' ∈ c.attributes, a'.id = a.id`) is FALSE. -/
theorem attributes_owner_listed_counterexample :
    (match analyze cexEnv { name := "a" } dupMods with
     | .ok (r, w) =>
       some (r.attributes.map (·.id), r.classes.map (fun (c : Class) => (c.id, c.attributes.map (·.id))), w)
     | .error _ => none) =
    some (["a/b/C/x", "a/b/C/y"], [("a/b/C", ["a/b/C/y"]), ("a/b", [])], []) := by decide +kernel

/-- … ids of the parameters and results, and the functions (`[[id], listed parameters, listed results]`).
    The parameter `a/b/f/p` and the result `a/b/f/result_2` are listed by no function of the result: the
    analogues of `attributes_owner_listed` for parameters and results are FALSE. -/
theorem parameters_owner_listed_counterexample :
    (match analyze cexEnv { name := "a" } dupMods with
     | .ok (r, _) =>
       some (r.parameters.map (·.id), r.results.map (·.id),
             r.functions.map (fun (f : Function) => [[f.id], f.params.map (·.id), f.results.map (·.id)]))
     | .error _ => none) =
    some (["a/b/f/p", "a/b/f/q"], ["a/b/f/result_1", "a/b/f/result_2"],
          [[["a/b/f"], ["a/b/f/q"], ["a/b/f/result_1"]]]) := by decide +kernel

/-- … the two definitions of `f` get the same id, and so do the two definitions of `C` -/
example : (k12_srcFuncs dupMods).map (·.1) = ["a/b/f", "a/b/f"] ∧ k12_srcClasses dupMods = ["a/b/C", "a/b", "a/b/C"] := by
  decide +kernel

/-- 6a (without side condition): what a class of the table lists are attributes with that class's id as owner; what
    a function of the table lists are parameters and results with that function's id as owner.  (They are in their
    tables by `references_resolve`; every attribute / parameter / result of the tables has a class / function of the
    table as owner BY ITS ID, see `ids_have_owner_form`.  What fails is only: that table entry may be a LATER
    definition with the same id, which does not list it.) -/
theorem listed_parts_have_owner_id {env : AEnv} {root : GNode} {mods : List SrcModule} {r : AnaResult}
    {warnings : List String} (h : analyze env root mods = .ok (r, warnings)) :
    (∀ c ∈ r.classes, ∀ a ∈ c.attributes, a.id = c.id ++ "/" ++ a.name) ∧
    (∀ f ∈ r.functions, (∀ p ∈ f.params, p.id = f.id ++ "/" ++ p.name) ∧ (∀ x ∈ f.results, x.id = f.id ++ "/" ++ x.name)) :=
  have hf := k12_analyze_forms h
  ⟨fun c hc => (hf.classes c hc).2, fun f hfn => (hf.functions f hfn).2⟩

/-- 6b (attributes, full converse under a side condition on the source).  `k12_srcClasses mods` lists the id of every
    class definition the walker visits (non-enum classes at module level and nested in classes, at any depth), in
    the order in which `leave_classdef` stores them.  If no two of them get the same id, every attribute of the
    table is listed — as the very same record — by a class of the table. -/
theorem attributes_owner_listed_partial {env : AEnv} {root : GNode} {mods : List SrcModule} {r : AnaResult}
    {warnings : List String} (h : analyze env root mods = .ok (r, warnings))
    (huniq : (k12_srcClasses mods).Nodup) :
    ∀ a ∈ r.attributes, ∃ c ∈ r.classes, a ∈ c.attributes :=
  k12_analyze_attrs h huniq

/-- 6c (parameters and results, full converse under a side condition on the source).  If no two function
    definitions the walker visits get the same id (`k12_srcFuncs`, see `flags_copied`), then every parameter and every
    result of the tables is listed — as the very same record — by a function of the table. -/
theorem parameters_owner_listed_partial {env : AEnv} {root : GNode} {mods : List SrcModule} {r : AnaResult}
    {warnings : List String} (h : analyze env root mods = .ok (r, warnings))
    (huniq : ((k12_srcFuncs mods).map (·.1)).Nodup) :
    (∀ p ∈ r.parameters, ∃ f ∈ r.functions, p ∈ f.params) ∧ (∀ x ∈ r.results, ∃ f ∈ r.functions, x ∈ f.results) :=
  k12_analyze_parts h huniq

/-- 6b and 6c are not vacuous: the class ids and the function ids of `exMods` are pairwise different -/
example : k12_srcClasses exMods = ["pkg/mod/C/Inner", "pkg/mod/C"] ∧ (k12_srcClasses exMods).Nodup ∧
    ((k12_srcFuncs exMods).map (·.1)).Nodup := by decide +kernel

end StubGen.C12
