/-
C15 — whole-tool part: the test-run flag inside `_run_stub_generator`.
-/
import StubGen.Proofs.Pipeline
import StubGen.Theorems.C15

namespace StubGen.C15b

open StubGen List

/-- END TO END: for a source tree without `test`/`tests`/`docs` directories the flag changes NOTHING of the run: same
    error, or same API JSON text and same write log. -/
theorem tool_flag_irrelevant (i : ToolInput) (h : ∀ f ∈ i.files, inExcludedDir f = false) (b : Bool) :
    runTool { i with isTestRun := b } = runTool i :=
  pl_runTool_flag i h b

/-- END TO END: every module the walker visits is a module of mypy's graph that was discovered: a kept file, or the
    `__init__.py` of a kept package directory. -/
theorem tool_analysed_kept (i : ToolInput) {o : ToolOutput} (h : runTool i = .ok o) :
    ∃ root d, discoverSorted i.srcDir i.files i.isTestRun = .ok (root, d) ∧
      o.analysed = selectAsts (i.graph.map (·.path)) d ∧
      ∀ p ∈ o.analysed, p ∈ i.graph.map (·.path) ∧ (p ∈ d.walkable.map pathStr ∨ pyEndsWith p "__init__.py" = true) := by
  obtain ⟨root, d, r, ws, text, gen, hd, _, _, _, ho⟩ := pl_runTool_ok h
  have ha : o.analysed = selectAsts (i.graph.map (·.path)) d := by
    rw [ho]; exact pl_selectModules_paths i.graph d
  refine ⟨root, d, hd, ha, ?_⟩
  intro p hp
  rw [ha] at hp
  exact C15.analysed_subset _ d p hp

end StubGen.C15b
