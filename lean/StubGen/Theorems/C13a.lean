/-
C13a — the parser half of C13 (and of C14): what the documentation queries of
`docstring_parsing/_docstring_parser.py` (model: `StubGen.Model.Doc`) compute.

1. `annToType` (`_griffe_annotation_to_api_type`) equals a readable specification `v13_docType`;
2. exactly which annotations have no type; the function cannot raise;
3. the order in which the operands of `a | b | c` are visited is invisible to `==`/`hash`;
4. `getGriffeNode` is the iterated child lookup over the parts of the qualified name, only the
   FIRST part being skipped when it is the root's name;
5. the five queries as functions of the element's own docstring (`lookupDoc`), for every valid cache;
6. kernel-checked examples for every row.
Definitions of the specification functions and the proofs: `StubGen.Proofs.DocTypes` (prefix `v13_`).
Cache transparency is taken from `StubGen.Theorems.C13` / `StubGen.Proofs.Doc`.
-/
import StubGen.Proofs.DocTypes
import StubGen.Model.Analyze
import StubGen.Theorems.C13
import StubGen.Theorems.C19

namespace StubGen.C13a

open StubGen

/-! ## 1. Docstring annotation → API type -/

/-- the names with a fixed meaning (restated); the key is the CANONICAL PATH of the name -/
theorem nameTable_def :
    v13_nameTable =
      [("typing.Any", .named "Any" "typing.Any"), ("int", .named "int" "builtins.int"),
       ("bool", .named "bool" "builtins.bool"), ("float", .named "float" "builtins.float"),
       ("str", .named "str" "builtins.str"), ("list", .list []), ("tuple", .tuple []), ("set", .set [])] := rfl

/-- the type of a subscript `p[types]` (restated): `n` is the canonical name, `p` the canonical path -/
theorem subscriptType_def (p n : String) (types : List AType) :
    v13_subscriptType p n types =
      if p ∈ ["list", "collections.abc.Sequence", "collections.abc.Iterator"] then .list types
      else if p = "tuple" then .tuple types
      else if p = "set" then .set types
      else if p ∈ ["collections.abc.Callable", "typing.Callable"] then
        match types with
        | [] => .unknown
        | .list ps :: rest => .callable ps (rest.headD anyType)
        | t :: rest => .callable [t] (rest.headD anyType)
      else if p ∈ ["dict", "collections.abc.Mapping", "typing.Mapping"] then
        .dict (types.headD anyType) (types.getD 1 anyType)
      else if p = "typing.Optional" then .union (types ++ [noneType])
      else .namedSeq n p types := rfl

/-- the numpy `optional` marker (restated): a name or subscript whose canonical path is `optional` -/
theorem isOptionalMarker_def (p n : String) (s : GExpr) (es : List GExpr) (raw cut : String) (o : Option GExpr) :
    isOptionalMarker (.name p n) = (p == "optional") ∧ isOptionalMarker (.subscript p n s) = (p == "optional")
    ∧ isOptionalMarker (.tuple es) = false ∧ isOptionalMarker (.list es) = false
    ∧ isOptionalMarker (.boolOp es) = false ∧ isOptionalMarker (.binOp es) = false
    ∧ isOptionalMarker (.str raw cut o) = false ∧ isOptionalMarker .other = false :=
  ⟨rfl, rfl, rfl, rfl, rfl, rfl, rfl, rfl⟩

/-- **the specification** `v13_docType` (its defining equations, restated), one line per constructor.
    Everywhere an element without a type is dropped from its container (`filterMap`). -/
theorem docType_def :
    (∀ p n, v13_docType (.name p n) = some ((v13_nameTable.lookup p).getD (.named n p)))
    ∧ (∀ p n es, v13_docType (.subscript p n (.tuple es))
        = some (v13_subscriptType p n (es.filterMap v13_docType)))
    ∧ (∀ p n s, (∀ es, s ≠ .tuple es) →
        v13_docType (.subscript p n s) = some (v13_subscriptType p n (v13_docType s).toList))
    ∧ (∀ es, v13_docType (.list es) = some (.list (es.filterMap v13_docType)))
    ∧ (∀ es, v13_docType (.tuple es)
        = some (if es.any isOptionalMarker
            then .union ((es.filter (fun e => !isOptionalMarker e)).filterMap v13_docType ++ [noneType])
            else .tuple ((es.filter (fun e => !isOptionalMarker e)).filterMap v13_docType)))
    ∧ (∀ vs, v13_docType (.boolOp vs) = some (.union (vs.filterMap v13_docType)))
    ∧ (∀ ops, v13_docType (.binOp ops) = some (.union (ops.filterMap v13_docType)))
    ∧ (∀ raw cut, v13_docType (.str raw cut none) = if cut = "None" then some noneType else none)
    ∧ (∀ raw cut e, v13_docType (.str raw cut (some e)) = v13_docType e)
    ∧ v13_docType .other = some .unknown := by
  refine ⟨?_, ?_, ?_, ?_, ?_, ?_, ?_, ?_, ?_, ?_⟩
  · intro p n; rw [v13_docType]
  · intro p n es; rw [v13_docType]
  · intro p n s hs; rw [v13_docType]; exact fun es h => hs es h
  · intro es; rw [v13_docType]
  · intro es; rw [v13_docType]
  · intro vs; rw [v13_docType]
  · intro ops; rw [v13_docType]
  · intro raw cut; rw [v13_docType]
  · intro raw cut e; rw [v13_docType]
  · rw [v13_docType]

/-- **`annToType` is the specification**, for every annotation expression (no size bound), and the
    two list versions map it over the elements, dropping the typeless ones (and the `optional` markers) -/
theorem annToType_spec (e : GExpr) : annToType e = v13_docType e := v13_docType_eq e

theorem annsToTypes_spec (es : List GExpr) : annsToTypes es = es.filterMap v13_docType := by
  rw [v13_annsToTypes_eq]
  exact v13_filterMap_congr (fun e _ => v13_docType_eq e)

theorem annsToTypesSkipOptional_spec (es : List GExpr) :
    annsToTypesSkipOptional es = (es.filter (fun e => !isOptionalMarker e)).filterMap v13_docType := by
  rw [v13_annsToTypesSkipOptional_eq]
  exact v13_filterMap_congr (fun e _ => v13_docType_eq e)

/-- the name rows, spelled out -/
theorem name_rows (n : String) :
    annToType (.name "typing.Any" n) = some (.named "Any" "typing.Any")
    ∧ annToType (.name "int" n) = some (.named "int" "builtins.int")
    ∧ annToType (.name "bool" n) = some (.named "bool" "builtins.bool")
    ∧ annToType (.name "float" n) = some (.named "float" "builtins.float")
    ∧ annToType (.name "str" n) = some (.named "str" "builtins.str")
    ∧ annToType (.name "list" n) = some (.list [])
    ∧ annToType (.name "tuple" n) = some (.tuple [])
    ∧ annToType (.name "set" n) = some (.set [])
    ∧ (∀ p, p ∉ ["typing.Any", "int", "bool", "float", "str", "list", "tuple", "set"] →
        annToType (.name p n) = some (.named n p)) := by
  refine ⟨?_, ?_, ?_, ?_, ?_, ?_, ?_, ?_, ?_⟩
  iterate 8 (rw [v13_annToType_name]; rfl)
  intro p hp
  simp only [List.mem_cons, List.not_mem_nil, or_false, not_or] at hp
  obtain ⟨h1, h2, h3, h4, h5, h6, h7, h8⟩ := hp
  rw [v13_annToType_name]
  simp only [v13_nameTable, List.lookup, beq_eq_false_iff_ne.2 h1, beq_eq_false_iff_ne.2 h2,
    beq_eq_false_iff_ne.2 h3, beq_eq_false_iff_ne.2 h4, beq_eq_false_iff_ne.2 h5, beq_eq_false_iff_ne.2 h6,
    beq_eq_false_iff_ne.2 h7, beq_eq_false_iff_ne.2 h8, Option.getD_none]

/-- the subscript row, in terms of the model's own list function: the slice's element types are those
    of the tuple's elements, or of the single slice expression -/
theorem subscript_row (p n : String) (slice : GExpr) :
    annToType (.subscript p n slice)
      = some (v13_subscriptType p n
          (match slice with
           | .tuple es => es.filterMap annToType
           | s => (annToType s).toList)) := by
  rw [v13_annToType_subscript]
  cases slice <;> simp only [v13_sliceTypes, v13_annsToTypes_eq]

/-- `a | b | c`: the union lists the operand types in the order of the operand list, which is the
    order the implementation visits them: RIGHTMOST FIRST (`[c, b, a]`, see `GExpr.binOp`) -/
theorem binOp_row (operands : List GExpr) :
    annToType (.binOp operands) = some (.union (operands.filterMap annToType)) := by
  rw [annToType, v13_annsToTypes_eq]

/-! ## 2. Which annotations have no type; no exception -/

/-- `v13_NoType` (restated): towers of string annotations over a string that griffe could not parse
    and that is not `None` -/
theorem noType_iff (e : GExpr) :
    v13_NoType e ↔ (∃ raw cut, e = .str raw cut none ∧ cut ≠ "None")
      ∨ (∃ raw cut e', e = .str raw cut (some e') ∧ v13_NoType e') := by
  constructor
  · intro h
    cases h with
    | unparsable raw cut hc => exact Or.inl ⟨raw, cut, rfl, hc⟩
    | wrapped raw cut e' h' => exact Or.inr ⟨raw, cut, e', rfl, h'⟩
  · rintro (⟨raw, cut, rfl, hc⟩ | ⟨raw, cut, e', rfl, h'⟩)
    · exact .unparsable raw cut hc
    · exact .wrapped raw cut e' h'

/-- **exactly the unparsable non-`None` strings have no type** -/
theorem annToType_none_iff (e : GExpr) : annToType e = none ↔ v13_NoType e := v13_none_iff e

/-- `annToType` is a pure function into `Option AType`: there is no exceptional outcome in the model
    at all (unknown forms give `UnknownType`, not an error), and it has a type except for `v13_NoType` -/
theorem annToType_total (e : GExpr) : (∃ t, annToType e = some t) ∨ (annToType e = none ∧ v13_NoType e) := by
  cases h : annToType e with
  | some t => exact Or.inl ⟨t, rfl⟩
  | none => exact Or.inr ⟨rfl, (v13_none_iff e).1 h⟩

/-- in particular everything that is not a string annotation has a type -/
theorem annToType_isSome_of_not_str (e : GExpr) (h : ∀ raw cut parsed, e ≠ .str raw cut parsed) :
    ∃ t, annToType e = some t := by
  rcases annToType_total e with ht | ⟨_, hn⟩
  · exact ht
  · cases hn with
    | unparsable raw cut _ => exact absurd rfl (h raw cut none)
    | wrapped raw cut e' _ => exact absurd rfl (h raw cut (some e'))

/-! ## 3. The visiting order of `a | b | c` does not matter for comparisons -/

/-- for ANY reordering of the operands the two unions are `==` and hash equally; every comparison with
    a third type (the type hint) has the same outcome, in either direction -/
theorem union_order_irrelevant_perm (ops ops' : List GExpr) (h : ops.Perm ops') :
    ∃ t t', annToType (.binOp ops) = some t ∧ annToType (.binOp ops') = some t'
      ∧ t = .union (ops.filterMap annToType) ∧ t' = .union (ops'.filterMap annToType)
      ∧ t.pyEq t' = true ∧ t.hashKey = t'.hashKey
      ∧ (∀ hint : AType, hint.pyEq t = hint.pyEq t' ∧ t.pyEq hint = t'.pyEq hint) := by
  have hp := C19.perm_union _ _ (h.filterMap annToType)
  refine ⟨_, _, binOp_row ops, binOp_row ops', rfl, rfl, hp.1, hp.2, ?_⟩
  intro hint
  have key : hint.pyEq (.union (ops.filterMap annToType)) = hint.pyEq (.union (ops'.filterMap annToType)) := by
    apply Bool.eq_iff_iff.2
    constructor
    · intro h1; exact C19.eq_trans _ _ _ h1 hp.1
    · intro h1
      have := hp.1
      rw [C19.eq_symm] at this
      exact C19.eq_trans _ _ _ h1 this
  refine ⟨key, ?_⟩
  rw [C19.eq_symm _ hint, C19.eq_symm _ hint, key]

/-- the model lists the operands rightmost first; the union in SOURCE order (`operands.reverse`) is
    `==` to it, hashes equally and compares equally with every hint -/
theorem union_order_irrelevant (operands : List GExpr) :
    ∃ t t', annToType (.binOp operands) = some t ∧ annToType (.binOp operands.reverse) = some t'
      ∧ t' = .union (operands.filterMap annToType).reverse
      ∧ t.pyEq t' = true ∧ t.hashKey = t'.hashKey
      ∧ (∀ hint : AType, hint.pyEq t = hint.pyEq t' ∧ t.pyEq hint = t'.pyEq hint) := by
  obtain ⟨t, t', h1, h2, _, h4, h5, h6, h7⟩ :=
    union_order_irrelevant_perm operands operands.reverse (List.reverse_perm operands).symm
  refine ⟨t, t', h1, h2, ?_, h5, h6, h7⟩
  rw [h4, List.filterMap_reverse]

/-- C14's test `code_type != doc_type` (`optTypeNe`) does not see the order -/
theorem hint_comparison_order_irrelevant (hint : Option AType) (ops ops' : List GExpr) (h : ops.Perm ops') :
    optTypeNe hint (annToType (.binOp ops)) = optTypeNe hint (annToType (.binOp ops')) := by
  obtain ⟨t, t', h1, h2, _, _, _, _, h7⟩ := union_order_irrelevant_perm ops ops' h
  rw [h1, h2]
  cases hint with
  | none => rfl
  | some x => simp only [optTypeNe, (h7 x).1]

/-! ## 4. Node lookup -/

/-- the members of a node in search order, and the member a name denotes (restated) -/
theorem child_def (node : GNode) (part : String) :
    v13_members node = node.modules ++ node.classes ++ node.functions ++ node.attributes
    ∧ v13_child node part = (v13_members node).find? (fun c => c.name == part) := ⟨rfl, rfl⟩

/-- the child relation with the priority spelled out (modules, then classes, then functions, then
    attributes; within one list the first of that name) is that function -/
theorem Child_iff (node : GNode) (part : String) (c : GNode) :
    v13_Child node part c ↔ v13_child node part = some c := v13_Child_iff node part c

theorem findChild_spec (name : String) (l : List GNode) :
    findChild name l = l.find? (fun c => c.name == name) := v13_findChild_eq name l

/-- a child carries the name, is a member, and no earlier member carries the name -/
theorem child_first_match (node : GNode) (part : String) (c : GNode) :
    v13_child node part = some c ↔
      c.name = part ∧ ∃ pre post, v13_members node = pre ++ c :: post ∧ ∀ x ∈ pre, x.name ≠ part :=
  v13_child_some_iff node part c

/-- one lookup step, the walk and the parts that are walked (restated) -/
theorem step_def (node : GNode) (part : String) :
    v13_step node part =
      match v13_child node part with
      | some c => .ok (some c)
      | none => if part = "__init__" ∧ node.isClass = true then .ok none else .error .valueError := rfl

theorem walk_def (node : GNode) (p : String) (ps : List String) :
    v13_walk node [] = .ok (some node)
    ∧ v13_walk node (p :: ps) =
        match v13_step node p with
        | .error e => .error e
        | .ok none => .ok none
        | .ok (some c) => v13_walk c ps := ⟨rfl, rfl⟩

theorem parts_def (root : GNode) (qname : String) :
    v13_parts root qname =
      match splitDot qname with
      | [] => []
      | p :: ps => if root.name = p then ps else p :: ps := rfl

/-- **`_get_griffe_node`** is the iterated child lookup over the parts of the qualified name, where
    ONLY the first part is skipped, and only if it is the root's name -/
theorem getGriffeNode_spec (root : GNode) (qname : String) :
    getGriffeNode root qname = v13_walk root (v13_parts root qname) := v13_getGriffeNode_eq root qname

/-- the loop body: the `first` flag is the only way to stay at the node -/
theorem griffeStep_spec (node : GNode) (part : String) :
    griffeStep node part false = v13_step node part
    ∧ griffeStep node part true = if node.name = part then .ok (some node) else v13_step node part :=
  ⟨v13_griffeStep_false node part, v13_griffeStep_true node part⟩

/-- the path relation (restated): one `v13_Child` edge per name -/
theorem Path_iff (n : GNode) (ps : List String) (m : GNode) :
    v13_Path n ps m ↔ (ps = [] ∧ m = n) ∨ (∃ p ps' c, ps = p :: ps' ∧ v13_Child n p c ∧ v13_Path c ps' m) := by
  constructor
  · intro h
    cases h with
    | nil => exact Or.inl ⟨rfl, rfl⟩
    | cons hc hp => exact Or.inr ⟨_, _, _, rfl, hc, hp⟩
  · rintro (⟨rfl, rfl⟩ | ⟨p, ps', c, rfl, hc, hp⟩)
    · exact .nil _
    · exact .cons hc hp

/-- the three outcomes of the lookup, relationally -/
theorem getGriffeNode_some_iff (root : GNode) (qname : String) (m : GNode) :
    getGriffeNode root qname = .ok (some m) ↔ v13_Path root (v13_parts root qname) m := by
  rw [getGriffeNode_spec]; exact v13_walk_some_iff _ _ _

theorem getGriffeNode_none_iff (root : GNode) (qname : String) :
    getGriffeNode root qname = .ok none ↔
      ∃ pre post cls, v13_parts root qname = pre ++ "__init__" :: post ∧ v13_Path root pre cls
        ∧ cls.isClass = true ∧ v13_child cls "__init__" = none := by
  rw [getGriffeNode_spec]; exact v13_walk_none_iff _ _

theorem getGriffeNode_error_iff (root : GNode) (qname : String) (e : PyErr) :
    getGriffeNode root qname = .error e ↔
      e = .valueError ∧ ∃ pre p post m, v13_parts root qname = pre ++ p :: post ∧ v13_Path root pre m
        ∧ v13_child m p = none ∧ ¬ (p = "__init__" ∧ m.isClass = true) := by
  rw [getGriffeNode_spec]; exact v13_walk_error_iff _ _ _

/-- **a part is never skipped after the first position**: a successful walk over `p :: ps` goes to a
    proper member of the node named `p` (strictly smaller, so never the node itself) — also when the
    node's own name is `p` -/
theorem no_skip_after_first (node : GNode) (p : String) (ps : List String) (m : GNode)
    (h : griffeWalk node (p :: ps) = .ok (some m)) :
    ∃ c, v13_Child node p c ∧ c.name = p ∧ sizeOf c < sizeOf node ∧ c ≠ node ∧ griffeWalk c ps = .ok (some m) := by
  rw [v13_griffeWalk_eq, v13_walk_some_iff] at h
  cases h with
  | cons hc hp =>
    rename_i c
    have hc' := (v13_Child_iff _ _ _).1 hc
    have hs := v13_child_sizeOf hc'
    refine ⟨c, hc, ((v13_child_some_iff _ _ _).1 hc').1, hs, ?_, ?_⟩
    · intro he; rw [he] at hs; exact Nat.lt_irrefl _ hs
    · rw [v13_griffeWalk_eq, v13_walk_some_iff]; exact hp

/-- **same-named module and function**: in package `root` with member `md` named `m` that has a member
    `f` named `m` again, `root.m.m` is `f` (the function), not `md` (the module) -/
theorem lookup_same_name (root md f : GNode) (q m : String) (hq : splitDot q = [root.name, m, m])
    (hm : v13_Child root m md) (hf : v13_Child md m f) :
    getGriffeNode root q = .ok (some f) ∧ f ≠ md := by
  constructor
  · rw [getGriffeNode_some_iff, v13_parts, hq]
    simp only [if_true]
    exact .cons hm (.cons hf (.nil f))
  · intro he
    have := v13_child_sizeOf ((v13_Child_iff _ _ _).1 hf)
    rw [he] at this
    exact Nat.lt_irrefl _ this

/-! ## 5. The queries, for every state with a valid cache -/

/-- the description and the examples of a docstring (restated): the LAST text section; the examples
    of ALL examples sections, in order; everything stripped of surrounding newlines -/
theorem description_def (d : GDoc) :
    v13_description d = (match (d.parsed.filterMap v13_textOf).getLast? with
      | some v => pyStrip v "\n"
      | none => "")
    ∧ v13_examples d = (d.parsed.flatMap v13_examplesOf).map (pyStrip · "\n") := ⟨rfl, rfl⟩

/-- the record of a docstring -/
theorem docRecord_spec :
    docRecord none = {}
    ∧ ∀ d : GDoc, docRecord (some d) =
        { description := v13_description d, fullDocstring := pyStrip d.value "\n", examples := v13_examples d } := by
  refine ⟨rfl, fun d => ?_⟩
  rw [← v13_lastText_eq, ← v13_allExamples_eq]
  rfl

theorem sectionProjections_def (v : String) (ps : List DocParam) (rs : List DocReturn) (ts : List String) :
    v13_textOf (.text v) = some v ∧ v13_paramsOf (.parameters ps) = some ps
    ∧ v13_attrsOf (.attributes ps) = some ps ∧ v13_returnsOf (.returns rs) = some rs
    ∧ v13_examplesOf (.examples ts) = ts
    ∧ v13_textOf .other = none ∧ v13_paramsOf (.attributes ps) = none ∧ v13_attrsOf (.parameters ps) = none
    ∧ v13_examplesOf (.text v) = [] := ⟨rfl, rfl, rfl, rfl, rfl, rfl, rfl, rfl, rfl⟩

/-- `get_function_documentation`: the record of the function's own docstring, nothing else -/
theorem function_doc_spec (s : ParserState) (hv : Cache.Valid s.root s.cache) (f : String) :
    (getFunctionDocumentation s f).map Prod.fst = (lookupDoc s.root f).map docRecord := by
  rw [(C13.queries_eq_cacheless_spec s hv).2.1 f, functionDocSpec]
  cases lookupDoc s.root f <;> rfl

/-- … hence two parser states (any trees, any styles, any valid caches) in which the function has the
    same docstring give the same answer: no other element's docstring can reach it -/
theorem function_doc_own_docstring_only (s₁ s₂ : ParserState) (hv₁ : Cache.Valid s₁.root s₁.cache)
    (hv₂ : Cache.Valid s₂.root s₂.cache) (f₁ f₂ : String) (h : lookupDoc s₁.root f₁ = lookupDoc s₂.root f₂) :
    (getFunctionDocumentation s₁ f₁).map Prod.fst = (getFunctionDocumentation s₂ f₂).map Prod.fst := by
  rw [function_doc_spec s₁ hv₁, function_doc_spec s₂ hv₂, h]

/-- `get_class_documentation`: the record of the class node's docstring; a lookup that ends in the
    early `None` is a `TypeError` -/
theorem class_doc_spec (s : ParserState) (n : String) :
    (getClassDocumentation s n).map Prod.fst =
      match getGriffeNode s.root n with
      | .error e => .error e
      | .ok none => .error .typeError
      | .ok (some nd) => .ok (docRecord nd.docstring) := by
  unfold getClassDocumentation
  cases getGriffeNode s.root n with
  | error e => rfl
  | ok r => cases r <;> rfl

/-- the entries of a docstring that match a name (restated): those of the FIRST parameters
    (resp. attributes) section whose name equals the given one after stripping leading `*` from both -/
theorem matching_spec (d : GDoc) (name : String) (attrs : Bool) :
    matching d name attrs
      = ((d.parsed.findSome? (if attrs then v13_attrsOf else v13_paramsOf)).getD []).filter
          (fun e => pyLstrip e.name "*" == pyLstrip name "*") :=
  v13_matching_eq d name attrs

theorem entries_def (d : GDoc) (name : String) (attrs : Bool) :
    v13_entries none name attrs = [] ∧ v13_entries (some d) name attrs = matching d name attrs := ⟨rfl, rfl⟩

/-- which docstring(s) the parameter query consults (restated) -/
theorem paramEntries_def (root : GNode) (style : DocStyle) (f p c : String) :
    v13_isCtorName f = (lastD "" (splitDot f) == "__init__")
    ∧ v13_paramDocQname f c = (if v13_isCtorName f = true ∧ c ≠ "" then replaceChar c '/' "." else f)
    ∧ v13_paramEntries root style f p c =
        match lookupDoc root (v13_paramDocQname f c) with
        | .error e => .error e
        | .ok d =>
          if style = .numpy ∧ v13_entries d p false = [] ∧ v13_isCtorName f = true then
            match lookupDoc root f with
            | .error e => .error e
            | .ok d2 => .ok (v13_entries d2 p false)
          else .ok (v13_entries d p false) := by
  refine ⟨rfl, rfl, ?_⟩
  unfold v13_paramEntries
  generalize lookupDoc root f = r2
  generalize lookupDoc root (v13_paramDocQname f c) = r1
  generalize v13_isCtorName f = b
  cases r1 with
  | error e => rfl
  | ok d => dsimp only; cases r2 <;> rfl

/-- the record made of one entry (restated) -/
theorem paramOf_def (e : DocParam) :
    v13_paramOf e = { type := e.annotation.bind annToType, defaultValue := e.default.getD "",
                      description := pyStrip e.description "\n" } := rfl

/-- **`get_parameter_documentation`**: the class docstring for a constructor with a parent, else the
    function's; numpy falls back to the constructor's own docstring when the first has no match; the
    LAST matching entry is taken; no match gives the empty record -/
theorem parameter_doc_spec (s : ParserState) (hv : Cache.Valid s.root s.cache) (f p c : String) :
    (getParameterDocumentation s f p c).map Prod.fst =
      (v13_paramEntries s.root s.style f p c).map fun m =>
        match m.getLast? with
        | none => {}
        | some e => v13_paramOf e := by
  rw [(C13.queries_eq_cacheless_spec s hv).2.2.1 f p c, v13_parameterDocSpec_eq]
  congr 1
  funext m
  exact v13_paramRecord_eq m

/-- the same, read off a successful answer -/
theorem parameter_doc_chosen (s s' : ParserState) (hv : Cache.Valid s.root s.cache) (f p c : String) (r : ParamDoc)
    (h : getParameterDocumentation s f p c = .ok (r, s')) :
    ∃ m, v13_paramEntries s.root s.style f p c = .ok m
      ∧ ((m = [] ∧ r = {}) ∨ ∃ pre e, m = pre ++ [e] ∧ r = v13_paramOf e) := by
  have hs := parameter_doc_spec s hv f p c
  rw [h] at hs
  cases hm : v13_paramEntries s.root s.style f p c with
  | error e => rw [hm] at hs; cases hs
  | ok m =>
    rw [hm] at hs
    refine ⟨m, rfl, ?_⟩
    have hr : r = match m.getLast? with | none => {} | some e => v13_paramOf e := by
      simp only [Except.map, Except.ok.injEq] at hs
      exact hs
    rcases List.eq_nil_or_concat m with rfl | ⟨pre, e, rfl⟩
    · exact Or.inl ⟨rfl, hr⟩
    · refine Or.inr ⟨pre, e, by simp, ?_⟩
      rw [hr]; simp

/-- which docstring(s) the attribute query consults (restated) -/
theorem attrEntries_def (root : GNode) (style : DocStyle) (c a : String) :
    v13_attrEntries root style c a =
      match lookupDoc root (replaceChar c '/' ".") with
      | .error e => .error e
      | .ok d =>
        if style = .numpy ∧ v13_entries d a true = [] then
          match lookupDoc root (replaceChar c '/' "." ++ ".__init__") with
          | .error e => .error e
          | .ok d2 => .ok (v13_entries d2 a true)
        else .ok (v13_entries d a true) := by
  unfold v13_attrEntries
  generalize lookupDoc root (replaceChar c '/' "." ++ ".__init__") = r2
  generalize lookupDoc root (replaceChar c '/' ".") = r1
  cases r1 with
  | error e => rfl
  | ok d => dsimp only; cases r2 <;> rfl

theorem attrOf_def (e : DocParam) :
    v13_attrOf e = { type := e.annotation.bind annToType, description := pyStrip e.description "\n" } := rfl

/-- **`get_attribute_documentation`**: the attributes section of the class docstring; numpy falls back
    to the attributes section of the constructor's docstring; the LAST matching entry -/
theorem attribute_doc_spec (s : ParserState) (hv : Cache.Valid s.root s.cache) (c a : String) :
    (getAttributeDocumentation s c a).map Prod.fst =
      (v13_attrEntries s.root s.style c a).map fun m =>
        match m.getLast? with
        | none => {}
        | some e => v13_attrOf e := by
  rw [(C13.queries_eq_cacheless_spec s hv).2.2.2.1 c a, v13_attributeDocSpec_eq]
  congr 1
  funext m
  exact v13_attrRecord_eq m

/-- the result records (restated pieces) -/
theorem resultOf_def (style : DocStyle) (r : DocReturn) (d : GDoc) :
    v13_returns d = (d.parsed.findSome? v13_returnsOf).getD []
    ∧ v13_numpyResultOf r
        = { type := r.annotation.bind annToType, description := pyStrip r.description "\n", name := r.name }
    ∧ v13_singleResultOf style r
        = { type := (if style = .google ∧ r.annotationIsNone = true then r.nameAsAnnotation
                     else r.annotation).bind annToType,
            description := pyStrip r.description "\n", name := "" } := ⟨rfl, rfl, rfl⟩

/-- **`get_result_documentation`**: the FIRST returns section of the function's own docstring; numpy:
    one record per entry, with its name; google and rest: only the first entry, without a name, and
    google reads the entry's name as the annotation when the entry has no annotation -/
theorem result_doc_spec (s : ParserState) (hv : Cache.Valid s.root s.cache) (f : String) :
    (getResultDocumentation s f).map Prod.fst =
      (lookupDoc s.root f).map fun d =>
        match d with
        | none => []
        | some d =>
          if s.style = .numpy then (v13_returns d).map v13_numpyResultOf
          else match (v13_returns d).head? with
            | none => []
            | some r => [v13_singleResultOf s.style r] := by
  rw [(C13.queries_eq_cacheless_spec s hv).2.2.2.2 f, resultDocSpec]
  cases lookupDoc s.root f with
  | error e => rfl
  | ok d =>
    cases d with
    | none => rfl
    | some d =>
      show Except.ok (resultRecords s.style (some d)) = _
      rw [v13_resultRecords_eq]
      rfl


/-! ## 6. Non-vacuity: kernel-checked examples -/

section Examples

/-! ### every row of the annotation mapping (data: `v13_exInt` = the name `int`, `v13_exBad` = an unparsable string) -/

example : annToType (.name "int" "int") = some (.named "int" "builtins.int") := rfl
example : annToType (.name "typing.Any" "Any") = some (.named "Any" "typing.Any") := rfl
example : annToType (.name "list" "list") = some (.list []) := rfl
example : annToType (.name "tuple" "tuple") = some (.tuple []) := rfl
example : annToType (.name "set" "set") = some (.set []) := rfl
/-- any other name: `named canonical_name canonical_path` -/
example : annToType (.name "numpy.ndarray" "ndarray") = some (.named "ndarray" "numpy.ndarray") := rfl
/-- the key is the canonical PATH: a name `int` that resolves elsewhere is not the builtin -/
example : annToType (.name "mypkg.int" "int") = some (.named "int" "mypkg.int") := rfl
/-- `list[int]`, `Sequence[int]`, `Iterator[int]` -/
example : annToType (.subscript "list" "list" v13_exInt) = some (.list [v13_tInt]) := rfl
example : annToType (.subscript "collections.abc.Sequence" "Sequence" v13_exInt) = some (.list [v13_tInt]) := rfl
example : annToType (.subscript "collections.abc.Iterator" "Iterator" v13_exInt) = some (.list [v13_tInt]) := rfl
/-- `tuple[int, str]`, `set[int]` -/
example : annToType (.subscript "tuple" "tuple" (.tuple [v13_exInt, v13_exStr])) = some (.tuple [v13_tInt, v13_tStr]) := rfl
example : annToType (.subscript "set" "set" v13_exInt) = some (.set [v13_tInt]) := rfl
/-- `Callable[[int, str], bool]`, `Callable[int, bool]`, `Callable[int]`, `Callable[()]` -/
example : annToType (.subscript "typing.Callable" "Callable" (.tuple [.list [v13_exInt, v13_exStr], .name "bool" "bool"]))
    = some (.callable [v13_tInt, v13_tStr] v13_tBool) := rfl
example : annToType (.subscript "collections.abc.Callable" "Callable" (.tuple [v13_exInt, .name "bool" "bool"]))
    = some (.callable [v13_tInt] v13_tBool) := rfl
example : annToType (.subscript "typing.Callable" "Callable" v13_exInt) = some (.callable [v13_tInt] anyType) := rfl
example : annToType (.subscript "typing.Callable" "Callable" (.tuple [])) = some .unknown := rfl
/-- `dict[str, int]`, `Mapping[str]` -/
example : annToType (.subscript "dict" "dict" (.tuple [v13_exStr, v13_exInt])) = some (.dict v13_tStr v13_tInt) := rfl
example : annToType (.subscript "typing.Mapping" "Mapping" v13_exStr) = some (.dict v13_tStr anyType) := rfl
example : annToType (.subscript "collections.abc.Mapping" "Mapping" (.tuple [])) = some (.dict anyType anyType) := rfl
/-- `Optional[int]` -/
example : annToType (.subscript "typing.Optional" "Optional" v13_exInt) = some (.union [v13_tInt, noneType]) := rfl
/-- any other subscript -/
example : annToType (.subscript "numpy.ndarray" "ndarray" (.tuple [v13_exInt, v13_exStr]))
    = some (.namedSeq "ndarray" "numpy.ndarray" [v13_tInt, v13_tStr]) := rfl
/-- `[int, str]` -/
example : annToType (.list [v13_exInt, v13_exStr]) = some (.list [v13_tInt, v13_tStr]) := rfl
/-- numpy `int, optional` (a tuple with the marker) against a plain tuple -/
example : annToType (.tuple [v13_exInt, .name "optional" "optional"]) = some (.union [v13_tInt, noneType]) := rfl
example : annToType (.tuple [v13_exInt, v13_exStr]) = some (.tuple [v13_tInt, v13_tStr]) := rfl
/-- string annotations: `"None"`, unparsable, parsed -/
example : annToType (.str "None" "None" none) = some noneType := rfl
example : annToType (.str "array like" "array like" none) = none := rfl
example : annToType (.str "int, default=1" "int" (some v13_exInt)) = some v13_tInt := rfl
example : v13_NoType (.str "'array like'" "'array like'" (some v13_exBad)) :=
  .wrapped _ _ _ (.unparsable _ _ (by decide))
/-- `int | str | None`: the operand list is `[None, str, int]` (rightmost first) and so is the union -/
example : annToType (.binOp [.name "None" "None", v13_exStr, v13_exInt])
    = some (.union [.named "None" "None", v13_tStr, v13_tInt]) := rfl
example : (AType.union [.named "None" "None", v13_tStr, v13_tInt]).pyEq
    (.union [v13_tInt, v13_tStr, .named "None" "None"]) = true := by decide +kernel
example : annToType (.boolOp [v13_exInt, v13_exStr]) = some (.union [v13_tInt, v13_tStr]) := rfl
example : annToType .other = some .unknown := rfl
/-- elements without a type are dropped silently: `list["array like"]` is `list[]`, and in
    `Callable["array like", int]` the return type moves into the parameter position -/
example : annToType (.subscript "list" "list" v13_exBad) = some (.list []) := rfl
example : annToType (.subscript "typing.Callable" "Callable" (.tuple [v13_exBad, v13_exInt]))
    = some (.callable [v13_tInt] anyType) := rfl
example : annToType (.subscript "dict" "dict" (.tuple [v13_exBad, v13_exInt])) = some (.dict v13_tInt anyType) := rfl
/-- the specification function gives the same (it is not evaluated by the kernel: it is defined by
    well-founded recursion; the equation is `annToType_spec`) -/
example : v13_docType (.subscript "typing.Optional" "Optional" v13_exInt) = some (.union [v13_tInt, noneType]) := by
  rw [← annToType_spec]; rfl

/-! ### node lookup (data: `v13_exRoot` = package `pkg` with module `m` that contains function `m` and
    class `C`; `x` is both a module and a class of `pkg`) -/

/-- the function `m` of module `m`, not the module -/
example : v13_docValue (getGriffeNode v13_exRoot "pkg.m.m") = .ok (some (some "function m")) := by decide +kernel
example : v13_docValue (getGriffeNode v13_exRoot "pkg.m") = .ok (some (some "module m")) := by decide +kernel
/-- the same through the general statement: its hypotheses are satisfiable -/
example : getGriffeNode v13_exRoot "pkg.m.m" = .ok (some v13_exFn) :=
  (lookup_same_name v13_exRoot v13_exMod v13_exFn "pkg.m.m" "m" (by decide +kernel) (.inModules rfl)
    (.inFunctions rfl rfl rfl)).1
/-- the package name may be left out, but it is skipped only once -/
example : v13_docValue (getGriffeNode v13_exRoot "m.m") = .ok (some (some "function m")) := by decide +kernel
example : getGriffeNode v13_exRoot "pkg.pkg.m" = .error .valueError := by rfl
example : v13_parts v13_exRoot "pkg.m.m" = ["m", "m"] ∧ v13_parts v13_exRoot "m.m" = ["m", "m"]
    ∧ v13_parts v13_exRoot "pkg.pkg.m" = ["pkg", "m"] := by decide +kernel
/-- priority: the module `x` hides the class `x` -/
example : v13_docValue (getGriffeNode v13_exRoot "pkg.x") = .ok (some (some "module x")) := by decide +kernel
/-- classes, attributes; `__init__` of a class without one: the early `None`; otherwise `ValueError` -/
example : v13_docValue (getGriffeNode v13_exRoot "pkg.m.C.a") = .ok (some (some "attribute a")) := by decide +kernel
example : v13_docValue (getGriffeNode v13_exRoot "pkg.m.C.__init__") = .ok none := by decide +kernel
example : v13_docValue (getGriffeNode v13_exRoot "pkg.m.__init__") = .error .valueError := by decide +kernel
example : v13_docValue (getGriffeNode v13_exRoot "pkg.m.nope") = .error .valueError := by decide +kernel

/-! ### the queries (data: `v13_exDocRoot` = `pkg` with class `D`, its constructor and methods `f`, `g`, `h`) -/

/-- the hypothesis of the query theorems holds in the initial state and stays true -/
example (style : DocStyle) : Cache.Valid (v13_exState style).root (v13_exState style).cache := C13.valid_empty _

/-- function: the LAST text section, the whole docstring, the examples of all examples sections -/
example : (match getFunctionDocumentation (v13_exState .numpy) "pkg.D.f" with
    | .ok (r, _) => r.description == "more" && r.fullDocstring == "F.\n\nmore"
        && r.examples == [">>> f()", ">>> g()", "... h()"]
    | .error _ => false) = true := by decide +kernel
/-- a function without docstring: the empty record -/
example : (match getFunctionDocumentation (v13_exState .numpy) "pkg.D.h" with
    | .ok (r, _) => r.description == "" && r.fullDocstring == "" && r.examples == []
    | .error _ => false) = true := by decide +kernel
/-- constructor parameter with parent class: the class docstring, the LAST entry named `p` -/
example : (match getParameterDocumentation (v13_exState .google) "pkg.D.__init__" "p" "pkg/D" with
    | .ok (r, _) => r.description == "second p" && r.defaultValue == "2" && v13_isType r.type v13_tStr
    | .error _ => false) = true := by decide +kernel
/-- leading `*` is ignored on both sides -/
example : (match getParameterDocumentation (v13_exState .google) "pkg.D.__init__" "args" "pkg/D" with
    | .ok (r, _) => r.description == "the args" && r.defaultValue == "" && v13_isType r.type v13_tStr
    | .error _ => false) = true := by decide +kernel
example : (match getParameterDocumentation (v13_exState .google) "pkg.D.__init__" "**p" "pkg/D" with
    | .ok (r, _) => r.description == "second p"
    | .error _ => false) = true := by decide +kernel
/-- only the FIRST parameters section is read -/
example : (match getParameterDocumentation (v13_exState .google) "pkg.D.__init__" "late" "pkg/D" with
    | .ok (r, _) => r.description == "" && r.type.isNone
    | .error _ => false) = true := by decide +kernel
/-- `q` is documented in the constructor only: numpy finds it there (its annotation has no type),
    google and rest do not; without parent the constructor's docstring is read directly -/
example : (match getParameterDocumentation (v13_exState .numpy) "pkg.D.__init__" "q" "pkg/D" with
    | .ok (r, _) => r.description == "ctor q" && r.type.isNone
    | .error _ => false) = true := by decide +kernel
example : (match getParameterDocumentation (v13_exState .google) "pkg.D.__init__" "q" "pkg/D" with
    | .ok (r, _) => r.description == "" && r.type.isNone
    | .error _ => false) = true := by decide +kernel
example : (match getParameterDocumentation (v13_exState .rest) "pkg.D.__init__" "q" "" with
    | .ok (r, _) => r.description == "ctor q"
    | .error _ => false) = true := by decide +kernel
/-- a parameter of an unknown function: the lookup's `ValueError` -/
example : (getParameterDocumentation (v13_exState .numpy) "pkg.D.nope" "q" "").map (fun r => r.1.description)
    = .error .valueError := by decide +kernel
/-- attributes: the class docstring; numpy also looks into the constructor's attributes section -/
example : (match getAttributeDocumentation (v13_exState .rest) "pkg/D" "a" with
    | .ok (r, _) => r.description == "attribute a" && v13_isType r.type v13_tStr
    | .error _ => false) = true := by decide +kernel
example : (match getAttributeDocumentation (v13_exState .numpy) "pkg/D" "b" with
    | .ok (r, _) => r.description == "attribute b" && v13_isType r.type v13_tInt
    | .error _ => false) = true := by decide +kernel
example : (match getAttributeDocumentation (v13_exState .rest) "pkg/D" "b" with
    | .ok (r, _) => r.description == "" && r.type.isNone
    | .error _ => false) = true := by decide +kernel
/-- results, numpy: one record per entry of the first returns section, with names -/
example : (match getResultDocumentation (v13_exState .numpy) "pkg.D.f" with
    | .ok (rs, _) => rs.map (fun r => (r.name, r.description)) == [("first", "the first"), ("second", "the second")]
        && (rs.map fun r => v13_isType r.type v13_tInt) == [true, false]
    | .error _ => false) = true := by decide +kernel
/-- results, rest/google: the first entry only, without its name -/
example : (match getResultDocumentation (v13_exState .rest) "pkg.D.f" with
    | .ok (rs, _) => rs.map (fun r => (r.name, r.description)) == [("", "the first")]
        && (rs.map fun r => v13_isType r.type v13_tInt) == [true]
    | .error _ => false) = true := by decide +kernel
/-- results, google: an entry without annotation — its name is the annotation; rest: no type -/
example : (match getResultDocumentation (v13_exState .google) "pkg.D.g" with
    | .ok (rs, _) => rs.map (fun r => (r.name, r.description)) == [("", "an int")]
        && (rs.map fun r => v13_isType r.type v13_tInt) == [true]
    | .error _ => false) = true := by decide +kernel
example : (match getResultDocumentation (v13_exState .rest) "pkg.D.g" with
    | .ok (rs, _) => rs.map (fun r => (r.name, r.description, r.type.isNone)) == [("", "an int", true)]
    | .error _ => false) = true := by decide +kernel
/-- class: the record of the class node; a constructor that does not exist is a `TypeError` -/
example : (match getClassDocumentation (v13_exState .rest) "pkg.D" with
    | .ok (r, _) => r.description == "Class D." && r.fullDocstring == "Class D."
    | .error _ => false) = true := by decide +kernel
example : (getClassDocumentation { root := v13_exRoot, style := .rest } "pkg.m.C.__init__").map (fun r => r.1.description)
    = .error .typeError := by decide +kernel
/-- the specification side, evaluated: the entries the parameter query selects from -/
example : (v13_paramEntries v13_exDocRoot .numpy "pkg.D.__init__" "p" "pkg/D").map (fun m => m.map (·.description))
    = .ok ["first p\n", "\nsecond p"] := by decide +kernel
example : v13_paramDocQname "pkg.D.__init__" "pkg/D" = "pkg.D" ∧ v13_paramDocQname "pkg.D.__init__" "" = "pkg.D.__init__"
    ∧ v13_paramDocQname "pkg.D.f" "pkg/D" = "pkg.D.f" := by decide +kernel

end Examples

end StubGen.C13a
