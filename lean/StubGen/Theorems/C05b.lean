/-
C05 — the two halves composed: from the mypy type of an annotation to the text in the stub.
-/
import StubGen.Theorems.C05
import StubGen.Theorems.C05a

namespace StubGen.C05b

open StubGen Spec.MypyMap

/-- the analyser's result for a hint IS the pure mapping `mapTypeUn` of the mypy type (and its un-analysed form) -/
theorem hint_type (env : AEnv) (t : MType) (un : Option MType) (st st' : VSt) (a : AType)
    (h : toAbstract env t un st = .ok (a, st')) : a = mapTypeUn (resolveOf env st) t un := by
  rw [C05a.toAbstract_spec] at h
  unfold outcome at h
  split at h
  · cases h
  · simp only [Except.ok.injEq, Prod.mk.injEq] at h
    exact h.1.symm

/-- FROM THE HINT TO THE STUB TEXT: whatever position the hint stands in, whatever state analyser and generator are in —
    if the analyser translates the mypy type `t` (un-analysed form `un`) and the generator renders the result, the text in
    the stub is the SPECIFIED text (`Spec.typeText`, written from the documented mapping) of the SPECIFIED API type
    (`Spec.MypyMap.mapTypeUn`, written from the property statement): the composition of the two halves is the composition
    of the two specifications. (`tt_litOk`: no union of one literal and `None` repeats a literal value — the
    kernel-checked counterexample without it is in `Theorems/C05`.) -/
theorem hint_to_stub_text (env : AEnv) (t : MType) (un : Option MType) (st st' : VSt) (a : AType)
    (genv : Env) (gst gst' : St) (s : String)
    (h1 : toAbstract env t un st = .ok (a, st')) (h2 : typeStr genv a gst = .ok (s, gst')) (hl : tt_litOk a = true) :
    s = Spec.typeText genv.safe (mapTypeUn (resolveOf env st) t un) := by
  rw [← hint_type env t un st st' a h1]
  exact C05.typeStr_text genv a gst gst' s h2 hl

/-- … and without any side condition in terms of the model's own text function -/
theorem hint_to_stub_text_model (env : AEnv) (t : MType) (un : Option MType) (st st' : VSt) (a : AType)
    (genv : Env) (gst gst' : St) (s : String)
    (h1 : toAbstract env t un st = .ok (a, st')) (h2 : typeStr genv a gst = .ok (s, gst')) :
    s = tt_typeText genv.safe (mapTypeUn (resolveOf env st) t un) := by
  rw [← hint_type env t un st st' a h1]
  exact C05.typeStr_text_model genv a gst gst' s h2

/-- a nested hint and the same hint at top level give the same text (compositionality across both halves) -/
theorem same_hint_same_text (env : AEnv) (t : MType) (st1 st1' st2 st2' : VSt) (a1 a2 : AType)
    (genv : Env) (g1 g1' g2 g2' : St) (s1 s2 : String)
    (hr : resolveOf env st1 = resolveOf env st2)
    (h1 : toAbstract env t none st1 = .ok (a1, st1')) (h2 : toAbstract env t none st2 = .ok (a2, st2'))
    (r1 : typeStr genv a1 g1 = .ok (s1, g1')) (r2 : typeStr genv a2 g2 = .ok (s2, g2')) : s1 = s2 := by
  rw [hint_to_stub_text_model env t none st1 st1' a1 genv g1 g1' s1 h1 r1,
      hint_to_stub_text_model env t none st2 st2' a2 genv g2 g2' s2 h2 r2, hr]

end StubGen.C05b
