/-
T2 obligations: the model's finite decision functions agree, on EVERY point of their domain, with the tables that
`tie/tabulate.py` computes by calling the real functions of /repo's working tree (`Generated/Decisions.lean`).
A change of behaviour of one of those functions changes a row and breaks a kernel-checked `decide` here.
-/
import StubGen.Generated.Decisions
import StubGen.Model.Analyze
import StubGen.Model.Gen

namespace StubGen.Decisions

open StubGen

def outcomeName {α : Type} (name : α → String) : Except PyErr α → String
  | .ok a => name a
  | .error e => "!" ++ e.name

def argOf (k : Nat) (posOnly isSelf isCls : Bool) : Arg :=
  { name := "a", isSelf := isSelf, isCls := isCls, kind := k, posOnly := posOnly, varType := none, annotation := none, init := none }

/-- `get_argument_kind` on all 6 × 2 × 2 × 2 arguments -/
theorem argument_kind_table :
    Generated.argumentKindTable.all (fun r =>
      outcomeName Assign.name (argumentKind (argOf r.1.1 r.1.2.1 r.1.2.2.1 r.1.2.2.2)) == r.2) = true := by
  decide +kernel

/-- `mypy_variance_parser` on 0 … 4 (3 and 4 raise `ValueError`) -/
theorem variance_table :
    Generated.varianceTable.all (fun r => outcomeName Variance.name (varianceOf r.1) == r.2) = true := by
  decide +kernel

/-- `has_correct_type_of_any` on `TypeOfAny` 0 … 12 -/
theorem type_of_any_table :
    Generated.typeOfAnyTable.all (fun r => correctTypeOfAny r.1 == r.2) = true := by
  decide +kernel

/-! ### `_create_parameter_string` on one parameter: 6 assignments × optional × 7 defaults × 3 types × 3 names × flag -/

def assignOf : Nat → Assign
  | 0 => .implicit | 1 => .positionOnly | 2 => .positionOrName | 3 => .positionalVararg | 4 => .nameOnly | _ => .namedVararg

def defaultOf : Nat → DefaultVal
  | 0 => .none | 1 => .bool true | 2 => .int 3 | 3 => .str "'s'" | 4 => .str "()" | 5 => .str "{}" | _ => .unknown

def intT : AType := .named "int" "builtins.int"

def typeOf : Nat → Option AType
  | 0 => none | 1 => some intT | _ => some (.tuple [intT])

def nameOf : Nat → String
  | 0 => "x" | 1 => "my_arg" | _ => "class"

def paramOf (a : Nat) (opt : Bool) (d t n : Nat) : Parameter :=
  { id := "p/m/f/" ++ nameOf n, name := nameOf n, isOptional := opt, «default» := defaultOf d, assignedBy := assignOf a, type := typeOf t }

/-- the model's text and (sorted) TODO keys for one parameter -/
def modelParameterString (a : Nat) (opt : Bool) (d t n : Nat) (safe : Bool) : String × List String :=
  let env : Env := { api := { package := "p" }, safe := safe }
  match (createParameterString env [paramOf a opt d t n] "" false).run { moduleId := "p/m" } with
  | .ok (s, st) => (s, sortStrings st.todos)
  | .error e => ("!" ++ e.name, [])

theorem parameter_string_table :
    Generated.parameterStringTable.all (fun r =>
      let m := modelParameterString r.1.1 r.1.2.1 r.1.2.2.1 r.1.2.2.2.1 r.1.2.2.2.2.1 r.1.2.2.2.2.2
      m.1 == r.2.1 && m.2 == r.2.2) = true := by
  decide +kernel

/-! ### `_create_class_attribute_string` on one attribute: public × static × 5 types × 3 names × flag -/

def attrTypeOf : Nat → Option AType
  | 0 => none | 1 => some intT | 2 => some (.tuple [intT]) | 3 => some (.typeVar "T") | _ => some (.set [intT])

def attrOf (pub static : Bool) (t n : Nat) : Attribute :=
  { id := "p/m/C/" ++ nameOf n, name := nameOf n, isPublic := pub, isStatic := static, type := attrTypeOf t }

/-- the model's text, (sorted) TODO keys and (sorted) attribute names -/
def modelAttributeString (pub static : Bool) (t n : Nat) (safe : Bool) : String × List String × List String :=
  let env : Env := { api := { package := "p" }, safe := safe }
  match (createClassAttributeString env [attrOf pub static t n] "    ").run { moduleId := "p/m" } with
  | .ok ((s, names), st) => (s, sortStrings st.todos, sortStrings names)
  | .error e => ("!" ++ e.name, [], [])

theorem attribute_string_table :
    Generated.attributeStringTable.all (fun r =>
      let m := modelAttributeString r.1.1 r.1.2.1 r.1.2.2.1 r.1.2.2.2.1 r.1.2.2.2.2
      m.1 == r.2.1 && m.2.1 == r.2.2.1 && m.2.2 == r.2.2.2) = true := by
  decide +kernel

/-! ### `_create_result_string` on result lists of length 0 … 2 over {no type, `None`, `int`, `tuple[int]`} × flag -/

def resTypeOf : Nat → Option AType
  | 0 => none | 1 => some (.named "None" "builtins.None") | 2 => some intT | _ => some (.tuple [intT])

def resultsOf : List Nat → Nat → List Result
  | [], _ => []
  | t :: ts, k => { id := "p/m/f/" ++ (if k == 0 then "result_1" else "val"), name := (if k == 0 then "result_1" else "val"),
                    type := resTypeOf t } :: resultsOf ts (k + 1)

def modelResultString (shape : List Nat) (safe : Bool) : String × List String :=
  let env : Env := { api := { package := "p" }, safe := safe }
  match (createResultString env (resultsOf shape 0)).run { moduleId := "p/m" } with
  | .ok (s, st) => (s, sortStrings st.todos)
  | .error e => ("!" ++ e.name, [])

theorem result_string_table :
    Generated.resultStringTable.all (fun r =>
      let m := modelResultString r.1.1 r.1.2
      m.1 == r.2.1 && m.2 == r.2.2) = true := by
  decide +kernel

end StubGen.Decisions
