/-
T2 obligations: the model's finite decision functions agree, on EVERY point of their domain, with the tables that
`tie/tabulate.py` computes by calling the real functions of /repo's working tree (`Generated/Decisions.lean`).
A change of behaviour of one of those functions changes a row and breaks a kernel-checked `decide` here.
-/
import StubGen.Generated.Decisions
import StubGen.Model.Analyze
import StubGen.Model.Gen

namespace StubGen.Decisions

open StubGen

def outcomeName {α : Type} (name : α → String) : Except PyErr α → String
  | .ok a => name a
  | .error e => "!" ++ e.name

def argOf (k : Nat) (posOnly isSelf isCls : Bool) : Arg :=
  { name := "a", isSelf := isSelf, isCls := isCls, kind := k, posOnly := posOnly, varType := none, annotation := none, init := none }

/-- `get_argument_kind` on all 6 × 2 × 2 × 2 arguments -/
theorem argument_kind_table :
    Generated.argumentKindTable.all (fun r =>
      outcomeName Assign.name (argumentKind (argOf r.1.1 r.1.2.1 r.1.2.2.1 r.1.2.2.2)) == r.2) = true := by
  decide +kernel

/-- `mypy_variance_parser` on 0 … 4 (3 and 4 raise `ValueError`) -/
theorem variance_table :
    Generated.varianceTable.all (fun r => outcomeName Variance.name (varianceOf r.1) == r.2) = true := by
  decide +kernel

/-- `has_correct_type_of_any` on `TypeOfAny` 0 … 12 -/
theorem type_of_any_table :
    Generated.typeOfAnyTable.all (fun r => correctTypeOfAny r.1 == r.2) = true := by
  decide +kernel

/-! ### `_create_parameter_string` on one parameter: 6 assignments × optional × 7 defaults × 3 types × 3 names × flag -/

def assignOf : Nat → Assign
  | 0 => .implicit | 1 => .positionOnly | 2 => .positionOrName | 3 => .positionalVararg | 4 => .nameOnly | _ => .namedVararg

def defaultOf : Nat → DefaultVal
  | 0 => .none | 1 => .bool true | 2 => .int 3 | 3 => .str "'s'" | 4 => .str "()" | 5 => .str "{}" | _ => .unknown

def intT : AType := .named "int" "builtins.int"

def typeOf : Nat → Option AType
  | 0 => none | 1 => some intT | _ => some (.tuple [intT])

def nameOf : Nat → String
  | 0 => "x" | 1 => "my_arg" | _ => "class"

def paramOf (a : Nat) (opt : Bool) (d t n : Nat) : Parameter :=
  { id := "p/m/f/" ++ nameOf n, name := nameOf n, isOptional := opt, «default» := defaultOf d, assignedBy := assignOf a, type := typeOf t }

/-- the model's text and (sorted) TODO keys for one parameter -/
def modelParameterString (a : Nat) (opt : Bool) (d t n : Nat) (safe : Bool) : String × List String :=
  let env : Env := { api := { package := "p" }, safe := safe }
  match (createParameterString env [paramOf a opt d t n] "" false).run { moduleId := "p/m" } with
  | .ok (s, st) => (s, sortStrings st.todos)
  | .error e => ("!" ++ e.name, [])

theorem parameter_string_table :
    Generated.parameterStringTable.all (fun r =>
      let m := modelParameterString r.1.1 r.1.2.1 r.1.2.2.1 r.1.2.2.2.1 r.1.2.2.2.2.1 r.1.2.2.2.2.2
      m.1 == r.2.1 && m.2 == r.2.2) = true := by
  decide +kernel

end StubGen.Decisions
