/-
C09, package segments — "… and package segments in lowerCamelCase, … and a Python-module annotation exactly when the
package path differs."

Until the repair 8e9a214 the tool converted a dotted package path as ONE name (`pkg.sub_pkg` was cut at the
underscores only, so the segment after a dot kept its case and a segment `_private` became `Private`); the property
was false of it.  Since the repair every segment is converted on its own, and these theorems say so for every path.
`convertAny` is the whole of `_convert_name_to_convention`; `convertPath` is what the three call sites with a dotted
argument compute (module header, import line, placeholder header).
-/
import StubGen.Proofs.PathConv
import StubGen.Proofs.Files

namespace StubGen.C09

/-- flag off: every package path is emitted verbatim -/
theorem path_off (p : String) : convertPath p false = p := pc_convertPath_off p

/-- the segments of the rendered path are the rendered segments, one for one and in order -/
theorem path_segments (p : String) (safe : Bool) :
    pySplit (convertPath p safe) '.' = (pySplit p '.').map (fun s => convertName s safe) :=
  pc_split_convertPath p safe

/-- the number of segments does not change -/
theorem path_segment_count (p : String) (safe : Bool) :
    (pySplit (convertPath p safe) '.').length = (pySplit p '.').length := by
  rw [path_segments, List.length_map]

/-- flag on: no segment of the rendered path contains an underscore (a segment that IS `_` is kept) -/
theorem path_segments_no_underscore (p s : String) (h : s ∈ pySplit (convertPath p true) '.') :
    s = "_" ∨ '_' ∉ s.toList := by
  rw [path_segments] at h
  obtain ⟨o, _, rfl⟩ := List.mem_map.mp h
  by_cases ho : o = "_"
  · left; subst ho; decide
  · right; exact convert_on_no_underscore o false ho

/-- flag on: a segment that is a convertible name is rendered as a legal identifier -/
theorem path_segments_legal (p : String) (h : ∀ o ∈ pySplit p '.', Convertible o.toList = true) :
    ∀ s ∈ pySplit (convertPath p true) '.', isIdent s.toList = true := by
  intro s hs
  rw [path_segments] at hs
  obtain ⟨o, ho, rfl⟩ := List.mem_map.mp hs
  exact convert_on_legal o false (h o ho)

/-- a segment is rendered the same wherever it stands: the rendering of a path depends on its segments only -/
theorem path_segment_consistent (p q : String) (safe : Bool) (i : Nat) (s : String)
    (hp : (pySplit p '.')[i]? = some s) (hq : (pySplit q '.')[i]? = some s) :
    (pySplit (convertPath p safe) '.')[i]? = (pySplit (convertPath q safe) '.')[i]? := by
  rw [path_segments, path_segments, List.getElem?_map, List.getElem?_map, hp, hq]

/-- the function the tool calls is the one function `convertAny`: on a dotted path the segment-wise conversion, on a
    name without a dot the conversion of the name -/
theorem convert_any_path (p : String) (safe : Bool) : convertAny p safe false = convertPath p safe :=
  pc_convertAny_path p safe

theorem convert_any_name (s : String) (safe cls : Bool) (h : '.' ∉ s.toList) :
    convertAny s safe cls = convertName s safe cls := pc_convertAny_name s safe cls h

/-- `(module annotation?, rendered package path)` as emitted in every stub header -/
def emitPath (p : String) (safe : Bool) : Option String × String :=
  let r := convertPath p safe
  (if p != r then some p else none, r)

def recoverPath (e : Option String × String) : String := e.1.getD e.2

/-- a Python-module annotation exactly when the package path differs -/
theorem module_annotation_iff_differs (p : String) (safe : Bool) :
    (emitPath p safe).1 = some p ↔ convertPath p safe ≠ p := by
  unfold emitPath
  by_cases h : p = convertPath p safe
  · simp [← h]
  · have h' : convertPath p safe ≠ p := fun e => h e.symm
    simp [h, h']

theorem module_annotation_none_iff (p : String) (safe : Bool) :
    (emitPath p safe).1 = none ↔ convertPath p safe = p := by
  unfold emitPath
  by_cases h : p = convertPath p safe
  · simp [← h]
  · have h' : convertPath p safe ≠ p := fun e => h e.symm
    simp [h, h']

/-- the Python package path is recoverable under both settings, and the settings agree -/
theorem recover_path_eq (p : String) (safe : Bool) : recoverPath (emitPath p safe) = p := by
  unfold recoverPath emitPath
  by_cases h : p = convertPath p safe
  · simp [← h]
  · simp [h]

theorem recover_path_flag_independent (p : String) :
    recoverPath (emitPath p true) = recoverPath (emitPath p false) := by
  rw [recover_path_eq, recover_path_eq]

/-- no module annotation at all with the flag off -/
theorem no_module_annotation_off (p : String) : (emitPath p false).1 = none :=
  (module_annotation_none_iff p false).mpr (path_off p)

/-- the module header of the generator IS `emitPath`: annotation line iff the option is there, then the package line -/
theorem module_header_is_emitPath (env : Env) (pkg : String) :
    packageHeader env pkg =
      (match (emitPath pkg env.safe).1 with
        | some o => "@PythonModule(\"" ++ o ++ "\")\n"
        | none => "")
      ++ "package " ++ escapePath (emitPath pkg env.safe).2 ++ "\n" := by
  unfold packageHeader emitPath
  by_cases h : pkg = convertPath pkg env.safe
  · simp [← h]
  · simp [h]

/-! Non-vacuity: what the defect looked like, and what is emitted now. -/
example : convertPath "pkg.sub_pkg.mod_name" true = "pkg.subPkg.modName" := by decide
example : convertPath "pkg._private.mod" true = "pkg.private.mod" := by decide
example : convertAny "pkg.sub_pkg.mod_name" true true = "Pkg.SubPkg.ModName" := by decide
example : emitPath "tests.data.my_package" true = (some "tests.data.my_package", "tests.data.myPackage")
    ∧ emitPath "tests.data.pkg" true = (none, "tests.data.pkg") := by decide
/-- the pre-repair rendering (the whole path as one name) differs from the repaired one exactly on such paths -/
example : convertName "pkg._private.mod" true ≠ convertPath "pkg._private.mod" true := by decide

end StubGen.C09
