/-
C05 (analyser half) — `mypy_type_to_abstract_type` is ONE fixed mapping.

The monadic model (`toAbstractNoUn` / `toAbstracts` / `toAbstract` of `StubGen/Model/Analyze.lean`) computes
the pure functions of `StubGen/Spec/MypyMap.lean`:

  `mapType R t`     the API type            `firstErr R t`     the exception raised instead
  `typeVarsOf R t`  recorded type variables `warningsOf R t`   logged warnings

where `R = resolveOf env st` is all the mapping reads of the visitor state: `_find_alias` in the module at
the bottom of the declaration stack, and that module's classes.  `R` depends on `st.stack` and
`st.fileFullname` only (`resolve_frame`), and a translation changes `typeVars` and `warnings` only (`after`),
so `R` is the same for every type translated while one module is analysed: parameter, result, attribute,
nested — the same function `mapType R`.

(1) `toAbstractNoUn_spec`, `toAbstractNoUn_ok`, `toAbstractNoUn_error_iff`, `error_enumeration`
(2) `toAbstract_*`: the four ways the un-analysed annotation is consulted (`unCase`)
(3) `toAbstracts_spec`, `position_independent`, the compositional equations `mapType_*`
(4) `mapType_unknown_iff`, `unknown_warned`, `typeVars_of_result`, `mapType_inst_args_order`
(5) kernel-checked examples; what the mapping does NOT do (unions are not normalised; an `Any` of an
    incorrect kind below the top is silently `Any`).
Proof machinery: `StubGen.Proofs.MypyTypes`.
-/
import StubGen.Proofs.MypyTypes

namespace StubGen.C05a

open StubGen Spec.MypyMap

/-! ### (0) what the mapping reads and writes -/

/-- the resolver depends on the declaration stack and the file name only … -/
theorem resolve_frame (env : AEnv) (s s' : VSt) (h1 : s'.stack = s.stack)
    (h2 : s'.fileFullname = s.fileFullname) : resolveOf env s' = resolveOf env s :=
  t05_resolveOf_congr env s s' h1 h2

/-- … which a translation does not touch: before and after, the resolver is the same -/
theorem resolve_after (env : AEnv) (st : VSt) (tvs : List (String × Option AType)) (ws : List String) :
    resolveOf env (after st tvs ws) = resolveOf env st := rfl

/-- `after`, spelled out: only `typeVars` and `warnings` move -/
theorem after_fields (st : VSt) (tvs : List (String × Option AType)) (ws : List String) :
    (after st tvs ws).typeVars = tvs.foldl (fun l tv => addTypeVar tv l) st.typeVars ∧
    (after st tvs ws).warnings = st.warnings ++ ws ∧
    (after st tvs ws).api = st.api ∧ (after st tvs ws).stack = st.stack ∧ (after st tvs ws).doc = st.doc ∧
    (after st tvs ws).fileFullname = st.fileFullname ∧ (after st tvs ws).fileName = st.fileName ∧
    (after st tvs ws).seenNone = st.seenNone :=
  ⟨rfl, rfl, rfl, rfl, rfl, rfl, rfl, rfl⟩

/-- `_find_alias` raises only when there is no module at the bottom of the declaration stack -/
theorem alias_error_iff (env : AEnv) (st : VSt) (n : String) (e : PyErr) :
    (resolveOf env st).alias n = .error e ↔ bottomModule st = none ∧ e = .typeError :=
  t05_findAlias_error_iff env st n e

/-! ### (1) the dispatch on the mypy type computes `mapType` -/

/-- the model is the pure mapping: value, exception, recorded type variables and warnings -/
theorem toAbstractNoUn_spec (env : AEnv) (t : MType) (st : VSt) :
    toAbstractNoUn env t st =
      outcome st (firstErr (resolveOf env st) t) (mapType (resolveOf env st) t)
        (typeVarsOf (resolveOf env st) t) (warningsOf (resolveOf env st) t) :=
  (t05_noUn_sem env _ t).run st rfl

theorem toAbstractNoUn_ok (env : AEnv) (t : MType) (st : VSt) (h : firstErr (resolveOf env st) t = none) :
    toAbstractNoUn env t st =
      .ok (mapType (resolveOf env st) t,
           after st (typeVarsOf (resolveOf env st) t) (warningsOf (resolveOf env st) t)) := by
  rw [toAbstractNoUn_spec, h]; rfl

/-- it raises exactly when `firstErr` says so, and that exception -/
theorem toAbstractNoUn_error_iff (env : AEnv) (t : MType) (st : VSt) (e : PyErr) :
    toAbstractNoUn env t st = .error e ↔ firstErr (resolveOf env st) t = some e := by
  rw [toAbstractNoUn_spec]; unfold outcome
  cases firstErr (resolveOf env st) t with
  | none => simp
  | some e' => simp

/-- the exception is the one raised at the first visited node (pre-order, left to right) that raises -/
theorem firstErr_eq_first_node (R : Resolve) (t : MType) :
    firstErr R t = (visited t).findSome? (nodeErr R) :=
  t05_firstErr_visited R t

theorem toAbstractNoUn_ok_iff (env : AEnv) (t : MType) (st : VSt) :
    (∃ r, toAbstractNoUn env t st = .ok r) ↔ ∀ u ∈ visited t, nodeErr (resolveOf env st) u = none := by
  rw [toAbstractNoUn_spec, ← List.findSome?_eq_none_iff, ← firstErr_eq_first_node]; unfold outcome
  cases firstErr (resolveOf env st) t with
  | none => simp
  | some e' => simp

/-- the enumeration of the raising nodes: `dict`/`Mapping` with fewer than two arguments (`IndexError`);
    an `Any` from an unimported type, or an un-analysed name that is neither `list`/`set` nor one of the six
    builtin names, while there is no module at the bottom of the declaration stack (`TypeError`) -/
theorem error_enumeration (env : AEnv) (st : VSt) (u : MType) (e : PyErr) :
    nodeErr (resolveOf env st) u = some e ↔
      (∃ name fq args, u = .inst name fq args ∧ (name = "dict" ∨ name = "Mapping") ∧ args.length < 2 ∧
          e = .indexError) ∨
      (∃ missing, u = .any fromUnimportedType missing ∧ bottomModule st = none ∧ e = .typeError) ∨
      (∃ name args, u = .unbound name args ∧ name ≠ "list" ∧ name ≠ "set" ∧ builtinUnbound name = false ∧
          bottomModule st = none ∧ e = .typeError) := by
  have hA : ∀ n, errOf (resolveAlias (resolveOf env st) n) = some e ↔ bottomModule st = none ∧ e = .typeError := by
    intro n
    rw [← alias_error_iff env st n e]
    unfold resolveAlias
    cases (resolveOf env st).alias n with
    | error e' => simp [errOf]
    | ok r => obtain ⟨n', q⟩ := r; dsimp only; split_ifs <;> simp [errOf]
  have hI : ∀ name fq args, nodeErr (resolveOf env st) (.inst name fq args) =
      if name == "dict" || name == "Mapping" then
        match args with
        | _ :: _ :: _ => none
        | _ => some .indexError
      else none := fun _ _ _ => rfl
  have hN : ∀ k missing, nodeErr (resolveOf env st) (.any k missing) =
      if k == fromUnimportedType then errOf (resolveAlias (resolveOf env st) (lastD "" (splitDot missing)))
      else none := fun _ _ => rfl
  have hB : ∀ name args, nodeErr (resolveOf env st) (.unbound name args) =
      if name == "list" || name == "set" || builtinUnbound name then none
      else errOf (resolveUnbound (resolveOf env st) name) := fun _ _ => rfl
  have hU : ∀ name, errOf (resolveUnbound (resolveOf env st) name) = some e ↔
      bottomModule st = none ∧ e = .typeError := by
    intro name
    unfold resolveUnbound
    have hc : (resolveOf env st).classes = (bottomModule st).map (·.classes) := rfl
    rw [hc]
    cases hb : bottomModule st with
    | none => simp [errOf, eq_comm]
    | some m =>
      dsimp only [Option.map]
      cases m.classes.find? (fun c => c.name == name) with
      | some c => simp [errOf]
      | none => dsimp only; rw [hA, hb]
  constructor
  · intro h
    cases u with
    | inst name fq args =>
      rw [hI] at h
      by_cases hd : (name == "dict" || name == "Mapping") = true
      · have hd' : name = "dict" ∨ name = "Mapping" := by simpa using hd
        rw [if_pos hd] at h
        rcases args with _ | ⟨k, _ | ⟨v, rest⟩⟩
        · exact Or.inl ⟨name, fq, [], rfl, hd', by decide, (Option.some.inj h).symm⟩
        · exact Or.inl ⟨name, fq, [k], rfl, hd', Nat.lt_succ_self 1, (Option.some.inj h).symm⟩
        · exact absurd h (by simp)
      · rw [if_neg hd] at h
        exact absurd h (by simp)
    | any k missing =>
      rw [hN] at h
      by_cases hk : (k == fromUnimportedType) = true
      · rw [if_pos hk, hA] at h
        have hk' : k = fromUnimportedType := by simpa using hk
        subst hk'
        exact Or.inr (Or.inl ⟨missing, rfl, h.1, h.2⟩)
      · rw [if_neg hk] at h
        exact absurd h (by simp)
    | unbound name args =>
      rw [hB] at h
      by_cases hc : (name == "list" || name == "set" || builtinUnbound name) = true
      · rw [if_pos hc] at h
        exact absurd h (by simp)
      · rw [if_neg hc, hU] at h
        simp only [Bool.or_eq_true, beq_iff_eq, not_or, Bool.not_eq_true] at hc
        exact Or.inr (Or.inr ⟨name, args, rfl, hc.1.1, hc.1.2, hc.2, h.1, h.2⟩)
    | tuple _ => exact absurd h (by simp [nodeErr])
    | union _ => exact absurd h (by simp [nodeErr])
    | callable _ _ => exact absurd h (by simp [nodeErr])
    | none => exact absurd h (by simp [nodeErr])
    | literal _ => exact absurd h (by simp [nodeErr])
    | typeVar _ _ _ => exact absurd h (by simp [nodeErr])
    | other _ _ => exact absurd h (by simp [nodeErr])
  · rintro (⟨name, fq, args, rfl, hd', hl, rfl⟩ | ⟨missing, rfl, hb, rfl⟩ | ⟨name, args, rfl, h1, h2, h3, hb, rfl⟩)
    · have hd : (name == "dict" || name == "Mapping") = true := by simpa using hd'
      rw [hI, if_pos hd]
      rcases args with _ | ⟨k, _ | ⟨v, rest⟩⟩
      · rfl
      · rfl
      · simp only [List.length_cons] at hl
        omega
    · rw [hN, if_pos (by rfl), hA]
      exact ⟨hb, rfl⟩
    · have hc : ¬ (name == "list" || name == "set" || builtinUnbound name) = true := by
        simp [h1, h2, h3]
      rw [hB, if_neg hc, hU]
      exact ⟨hb, rfl⟩

/-- with a module on the stack (always, while the visitor walks a file) only `IndexError` is possible -/
theorem only_indexError_in_module (env : AEnv) (t : MType) (st : VSt) (e : PyErr) (m : Module)
    (hm : bottomModule st = some m) (h : toAbstractNoUn env t st = .error e) : e = .indexError := by
  rw [toAbstractNoUn_error_iff, firstErr_eq_first_node] at h
  obtain ⟨u, _, hu⟩ := List.exists_of_findSome?_eq_some h
  rcases (error_enumeration env st u e).1 hu with ⟨_, _, _, _, _, _, he⟩ | ⟨_, _, hb, _⟩ | ⟨_, _, _, _, _, _, hb, _⟩
  · exact he
  · rw [hm] at hb; exact absurd hb (by simp)
  · rw [hm] at hb; exact absurd hb (by simp)

/-! ### (2) the un-analysed annotation -/

/-- without an annotation: the plain dispatch -/
theorem toAbstract_none (env : AEnv) (t : MType) : toAbstract env t none = toAbstractNoUn env t := by
  rw [t05_toAbstract_eq]; rfl

/-- the annotation is not consulted unless it is `Final[…]`, a tuple, or a name `list`/`set` while the
    analysed type has exactly one argument, an `Any` of an incorrect kind (`unCase`) -/
theorem toAbstract_eq_noUn (env : AEnv) (t : MType) (un : Option MType) (h : unCase t un = .plain) :
    toAbstract env t un = toAbstractNoUn env t := by
  rw [t05_toAbstract_eq, h]

/-- `x: list[A, B]` / `set[A, B]` (mypy analyses it to `list[Any]`): the ANNOTATION is translated, by the
    same dispatch -/
theorem toAbstract_un_reparse (env : AEnv) (t : MType) (un : Option MType) (u : MType)
    (h : unCase t un = .reparse u) : toAbstract env t un = toAbstractNoUn env u := by
  rw [t05_toAbstract_eq, h]

/-- tuple annotation: its items are translated, the analysed type is ignored -/
theorem toAbstract_un_tuple (env : AEnv) (t : MType) (un : Option MType) (items : List MType)
    (h : unCase t un = .tuple items) : toAbstract env t un = toAbstractNoUn env (.tuple items) := by
  rw [t05_toAbstract_eq, h]

/-- `Final[…]`: the arguments of the annotation are translated, the analysed type is ignored;
    no argument is a `ValueError`, several arguments become a union -/
theorem toAbstract_un_final (env : AEnv) (t : MType) (un : Option MType) (args : List MType)
    (h : unCase t un = .final args) :
    toAbstract env t un = (do
      let ts ← toAbstracts env args
      match ts with
      | [] => throwV .valueError
      | [x] => pure (.final x)
      | xs => pure (.final (.union xs))) := by
  rw [t05_toAbstract_eq, h]; rfl

/-- all four cases at once, as pure functions -/
theorem toAbstract_spec (env : AEnv) (t : MType) (un : Option MType) (st : VSt) :
    toAbstract env t un st =
      outcome st (firstErrUn (resolveOf env st) t un) (mapTypeUn (resolveOf env st) t un)
        (typeVarsOfUn (resolveOf env st) t un) (warningsOfUn (resolveOf env st) t un) :=
  (t05_toAbstract_sem env _ t un).run st rfl

/-- the case the documentation names: a `list`/`set` annotation with several arguments -/
theorem mapTypeUn_list (R : Resolve) (n fq : String) (k : Nat) (m : String) (args : List MType)
    (hk : correctTypeOfAny k = false) :
    mapTypeUn R (.inst n fq [.any k m]) (some (.unbound "list" args)) = .list (args.map (mapType R)) ∧
    mapTypeUn R (.inst n fq [.any k m]) (some (.unbound "set" args)) = .set (args.map (mapType R)) := by
  have h1 : unCase (.inst n fq [.any k m]) (some (.unbound "list" args)) = .reparse (.unbound "list" args) := by
    simp [unCase, hasName, argsOf, isIncorrectAny, hk]
  have h2 : unCase (.inst n fq [.any k m]) (some (.unbound "set" args)) = .reparse (.unbound "set" args) := by
    simp [unCase, hasName, argsOf, isIncorrectAny, hk]
  unfold mapTypeUn
  rw [h1, h2]
  dsimp only
  rw [mapType, mapType, t05_mapTypes_eq_map]
  exact ⟨rfl, rfl⟩

/-! ### (3) position independence -/

theorem mapTypes_eq_map (R : Resolve) (ts : List MType) : mapTypes R ts = ts.map (mapType R) :=
  t05_mapTypes_eq_map R ts

theorem firstErrs_eq (R : Resolve) (ts : List MType) : firstErrs R ts = ts.findSome? (firstErr R) :=
  t05_firstErrs_eq R ts

theorem typeVarsOfs_eq (R : Resolve) (ts : List MType) : typeVarsOfs R ts = ts.flatMap (typeVarsOf R) :=
  t05_typeVarsOfs_eq R ts

theorem warningsOfs_eq (R : Resolve) (ts : List MType) : warningsOfs R ts = ts.flatMap (warningsOf R) :=
  t05_warningsOfs_eq R ts

/-- the list version is the map of the single version; type variables and warnings accumulate in order,
    the first exception wins -/
theorem toAbstracts_spec (env : AEnv) (ts : List MType) (st : VSt) :
    toAbstracts env ts st =
      outcome st (ts.findSome? (firstErr (resolveOf env st))) (ts.map (mapType (resolveOf env st)))
        (ts.flatMap (typeVarsOf (resolveOf env st))) (ts.flatMap (warningsOf (resolveOf env st))) := by
  rw [← mapTypes_eq_map, ← firstErrs_eq, ← typeVarsOfs_eq, ← warningsOfs_eq]
  exact (t05_abstracts_sem env _ ts).run st rfl

/-- the successful case: the result list is `List.map (mapType R)` of the arguments -/
theorem toAbstracts_map (env : AEnv) (ts : List MType) (st : VSt)
    (h : ∀ t ∈ ts, firstErr (resolveOf env st) t = none) :
    toAbstracts env ts st =
      .ok (ts.map (mapType (resolveOf env st)),
           after st (ts.flatMap (typeVarsOf (resolveOf env st))) (ts.flatMap (warningsOf (resolveOf env st)))) := by
  rw [toAbstracts_spec, List.findSome?_eq_none_iff.2 h]; rfl

/-- the state is threaded: the head is translated first, the tail in the state the head left -/
theorem toAbstracts_cons (env : AEnv) (t : MType) (ts : List MType) :
    toAbstracts env (t :: ts) = (do
      let a ← toAbstractNoUn env t
      let as ← toAbstracts env ts
      pure (a :: as)) := by
  rw [toAbstracts]

/-- a type nested at position `i` of a list of arguments is translated to the very type the top-level
    dispatch gives it, in ANY state with the same module context -/
theorem position_independent (env : AEnv) (ts : List MType) (st st' : VSt) (as : List AType)
    (h : toAbstracts env ts st = .ok (as, st')) :
    as.length = ts.length ∧
    ∀ (i : Nat) (hi : i < ts.length) (hi' : i < as.length) (s : VSt), resolveOf env s = resolveOf env st →
      ∃ s', toAbstractNoUn env ts[i] s = .ok (as[i], s') := by
  rw [toAbstracts_spec] at h; unfold outcome at h
  cases he : ts.findSome? (firstErr (resolveOf env st)) with
  | some e => rw [he] at h; exact absurd h (by simp)
  | none =>
    rw [he] at h
    simp only [Except.ok.injEq, Prod.mk.injEq] at h
    obtain ⟨h1, -⟩ := h
    subst h1
    refine ⟨List.length_map _, fun i hi hi' s hs => ?_⟩
    rw [List.findSome?_eq_none_iff] at he
    have hne := he ts[i] (List.getElem_mem hi)
    rw [← hs] at hne
    rw [toAbstractNoUn_ok env ts[i] s hne, List.getElem_map, hs]
    exact ⟨_, rfl⟩

/-- the compositional equations: below every constructor the same `mapType R`, in order -/
theorem mapType_union (R : Resolve) (ts : List MType) : mapType R (.union ts) = .union (ts.map (mapType R)) := by
  rw [mapType, mapTypes_eq_map]

theorem mapType_tuple (R : Resolve) (ts : List MType) : mapType R (.tuple ts) = .tuple (ts.map (mapType R)) := by
  rw [mapType, mapTypes_eq_map]

/-- `Callable` keeps arity and order (the API type has no parameter names) -/
theorem mapType_callable (R : Resolve) (ps : List MType) (r : MType) :
    mapType R (.callable ps r) = .callable (ps.map (mapType R)) (mapType R r) := by
  rw [mapType, mapTypes_eq_map]

theorem mapType_callable_arity (R : Resolve) (ps : List MType) (r : MType) :
    ∃ ps', mapType R (.callable ps r) = .callable ps' (mapType R r) ∧ ps'.length = ps.length :=
  ⟨_, mapType_callable R ps r, List.length_map _⟩

theorem mapType_literal (R : Resolve) (v : Lit) : mapType R (.literal v) = .literal [v] := by rw [mapType]

theorem mapType_none (R : Resolve) : mapType R .none = .named "None" "builtins.None" := by rw [mapType]

/-- `Instance` types are dispatched on the SHORT name alone -/
theorem mapType_inst_scalar (R : Resolve) (name fq : String) (args : List MType)
    (h : name = "int" ∨ name = "str" ∨ name = "bool" ∨ name = "float") :
    mapType R (.inst name fq args) = .named name fq := by
  unfold mapType
  rw [if_pos (by rcases h with rfl | rfl | rfl | rfl <;> decide)]

theorem mapType_inst_list (R : Resolve) (name fq : String) (args : List MType)
    (h : name = "list" ∨ name = "Sequence" ∨ name = "Collection") :
    mapType R (.inst name fq args) = .list (args.map (mapType R)) := by
  unfold mapType
  rw [if_neg (by rcases h with rfl | rfl | rfl <;> decide), if_neg (by rcases h with rfl | rfl | rfl <;> decide),
    if_pos (by rcases h with rfl | rfl | rfl <;> decide), mapTypes_eq_map]

theorem mapType_inst_set (R : Resolve) (fq : String) (args : List MType) :
    mapType R (.inst "set" fq args) = .set (args.map (mapType R)) := by
  unfold mapType
  rw [if_neg (by decide), if_neg (by decide), if_neg (by decide), if_pos (by decide), mapTypes_eq_map]

theorem mapType_inst_tuple (R : Resolve) (fq : String) (args : List MType) :
    mapType R (.inst "tuple" fq args) = .tuple (args.map (mapType R)) := by
  unfold mapType
  rw [if_neg (by decide), if_pos (by decide), mapTypes_eq_map]

/-- `dict` / `Mapping`: the first two arguments, further ones are dropped -/
theorem mapType_inst_dict (R : Resolve) (name fq : String) (k v : MType) (rest : List MType)
    (h : name = "dict" ∨ name = "Mapping") :
    mapType R (.inst name fq (k :: v :: rest)) = .dict (mapType R k) (mapType R v) := by
  rw [mapType]
  rw [if_neg (by rcases h with rfl | rfl <;> decide), if_neg (by rcases h with rfl | rfl <;> decide),
    if_neg (by rcases h with rfl | rfl <;> decide), if_neg (by rcases h with rfl | rfl <;> decide),
    if_pos (by rcases h with rfl | rfl <;> decide)]

/-! ### (4) never a silently different type -/

/-- any other class: its own name and qualified name, the arguments mapped IN ORDER -/
theorem mapType_inst_args_order (R : Resolve) (name fq : String) (args : List MType)
    (h : instBuiltin name = false) :
    mapType R (.inst name fq args) =
      if args.isEmpty then .named name fq else .namedSeq name fq (args.map (mapType R)) := by
  simp only [instBuiltin, Bool.or_eq_false_iff] at h
  obtain ⟨⟨⟨⟨⟨⟨⟨⟨⟨⟨h1, h2⟩, h3⟩, h4⟩, h5⟩, h6⟩, h7⟩, h8⟩, h9⟩, h10⟩, h11⟩ := h
  unfold mapType
  simp only [h1, h2, h3, h4, h5, h6, h7, h8, h9, h10, h11, Bool.or_self, Bool.false_eq_true, if_false,
    mapTypes_eq_map]

/-- the result contains the unknown marker exactly when a visited node is one of the `unknownNode`s -/
theorem mapType_unknown_iff (R : Resolve) (t : MType) (h : firstErr R t = none) :
    hasUnknown (mapType R t) = true ↔ ∃ u ∈ visited t, unknownNode R u = true := by
  rw [t05_hasUnknown_visited, List.any_eq_true]
  rw [firstErr_eq_first_node, List.findSome?_eq_none_iff] at h
  constructor
  · rintro ⟨u, hu, hb⟩
    refine ⟨u, hu, ?_⟩
    unfold t05_bad at hb
    rw [h u hu] at hb
    simpa using hb
  · rintro ⟨u, hu, hb⟩
    refine ⟨u, hu, ?_⟩
    unfold t05_bad
    rw [hb]; rfl

/-- the `unknownNode`s: any other mypy type class; an `Any` from an unimported type whose last name
    component `_find_alias` cannot qualify; an un-analysed name that is not `list`/`set`/one of the six
    builtin names, not a class of the current module, and that `_find_alias` cannot qualify -/
theorem unknownNode_iff (R : Resolve) (u : MType) :
    unknownNode R u = true ↔
      (∃ c n, u = .other c n) ∨
      (∃ missing n, u = .any fromUnimportedType missing ∧ R.alias (lastD "" (splitDot missing)) = .ok (n, "")) ∨
      (∃ name args cs n, u = .unbound name args ∧ name ≠ "list" ∧ name ≠ "set" ∧ builtinUnbound name = false ∧
          R.classes = some cs ∧ cs.find? (fun c => c.name == name) = none ∧ R.alias name = .ok (n, "")) := by
  have hA : ∀ x, isUnknownRes (resolveAlias R x) = true ↔ ∃ n, R.alias x = .ok (n, "") := by
    intro x
    unfold resolveAlias
    cases R.alias x with
    | error e => simp [isUnknownRes]
    | ok r =>
      obtain ⟨n', q⟩ := r
      dsimp only
      by_cases hq : (q == "") = true
      · have : q = "" := by simpa using hq
        rw [if_pos hq]; simp [isUnknownRes, this]
      · have : q ≠ "" := by simpa using hq
        rw [if_neg hq]; simp [isUnknownRes, this]
  cases u with
  | other c n => simp [unknownNode]
  | any k missing =>
    simp only [unknownNode, Bool.and_eq_true, beq_iff_eq, hA]
    constructor
    · rintro ⟨rfl, n, hn⟩; exact Or.inr (Or.inl ⟨missing, n, rfl, hn⟩)
    · rintro (⟨_, _, h⟩ | ⟨m, n, h, hn⟩ | ⟨_, _, _, _, h, _⟩)
      · exact absurd h (by simp)
      · simp only [MType.any.injEq] at h
        obtain ⟨rfl, rfl⟩ := h
        exact ⟨rfl, n, hn⟩
      · exact absurd h (by simp)
  | unbound name args =>
    have hU : isUnknownRes (resolveUnbound R name) = true ↔
        ∃ cs n, R.classes = some cs ∧ cs.find? (fun c => c.name == name) = none ∧ R.alias name = .ok (n, "") := by
      unfold resolveUnbound
      cases hc : R.classes with
      | none => simp [isUnknownRes]
      | some cs =>
        dsimp only
        cases hf : cs.find? (fun c => c.name == name) with
        | some c =>
          constructor
          · intro h; exact absurd h (by simp [isUnknownRes])
          · rintro ⟨cs', n, h1, h2, -⟩
            simp only [Option.some.injEq] at h1
            subst h1
            rw [hf] at h2
            exact absurd h2 (by simp)
        | none =>
          dsimp only
          rw [hA]
          constructor
          · rintro ⟨n, hn⟩; exact ⟨cs, n, rfl, hf, hn⟩
          · rintro ⟨_, n, -, -, hn⟩; exact ⟨n, hn⟩
    simp only [unknownNode, Bool.and_eq_true, Bool.not_eq_true', Bool.or_eq_false_iff, beq_eq_false_iff_ne, hU]
    constructor
    · rintro ⟨⟨⟨h1, h2⟩, h3⟩, cs, n, h4, h5, h6⟩
      exact Or.inr (Or.inr ⟨name, args, cs, n, rfl, h1, h2, h3, h4, h5, h6⟩)
    · rintro (⟨_, _, h⟩ | ⟨_, _, h, _⟩ | ⟨name', args', cs, n, h, h1, h2, h3, h4, h5, h6⟩)
      · exact absurd h (by simp)
      · exact absurd h (by simp)
      · simp only [MType.unbound.injEq] at h
        obtain ⟨rfl, rfl⟩ := h
        exact ⟨⟨⟨h1, h2⟩, h3⟩, cs, n, h4, h5, h6⟩
  | _ => simp [unknownNode]

/-- never silently: every unknown marker in the result is logged, one warning each, and nothing else is -/
theorem unknown_warned (R : Resolve) (t : MType) (h : firstErr R t = none) :
    warningsOf R t = List.replicate (countUnknown (mapType R t)) unknownMsg :=
  (t05_eff R t h).1

/-- the recorded type variables are the type variables of the result (bounds first, left to right) -/
theorem typeVars_of_result (R : Resolve) (t : MType) (h : firstErr R t = none) :
    typeVarsOf R t = tvarsIn (mapType R t) :=
  (t05_eff R t h).2

/-- both, on the model: a successful translation logs one warning per unknown marker of its result and
    records the result's type variables -/
theorem toAbstractNoUn_effects (env : AEnv) (t : MType) (st st' : VSt) (a : AType)
    (h : toAbstractNoUn env t st = .ok (a, st')) :
    a = mapType (resolveOf env st) t ∧
    st' = after st (tvarsIn a) (List.replicate (countUnknown a) unknownMsg) := by
  rw [toAbstractNoUn_spec] at h; unfold outcome at h
  cases he : firstErr (resolveOf env st) t with
  | some e => rw [he] at h; exact absurd h (by simp)
  | none =>
    rw [he] at h
    simp only [Except.ok.injEq, Prod.mk.injEq] at h
    obtain ⟨h1, h2⟩ := h
    subst h1
    rw [← h2, unknown_warned _ _ he, typeVars_of_result _ _ he]
    exact ⟨rfl, rfl⟩

/-! ### (5) what the mapping does NOT do

The analyser keeps a union as mypy delivers it: members in order, `None` as the member
`NamedType("None", "builtins.None")` at its place, duplicates kept, nested unions kept nested (mypy itself
flattens and simplifies most unions before; the generator normalises later, see `Theorems/C05`). -/

/-- a union is translated member by member: same length, same order -/
theorem union_members (R : Resolve) (ts : List MType) :
    ∃ as, mapType R (.union ts) = .union as ∧ as.length = ts.length ∧
      ∀ (i : Nat) (h : i < ts.length) (h' : i < as.length), as[i] = mapType R ts[i] :=
  ⟨_, mapType_union R ts, List.length_map _, fun _ _ _ => List.getElem_map _⟩

/-- `None` inside a union stays a member, at its place -/
theorem union_none_kept (R : Resolve) (t : MType) :
    mapType R (.union [t, .none]) = .union [mapType R t, .named "None" "builtins.None"] ∧
    mapType R (.union [.none, t]) = .union [.named "None" "builtins.None", mapType R t] := by
  rw [mapType_union, mapType_union, List.map_cons, List.map_cons, List.map_cons, List.map_cons, mapType_none]
  exact ⟨rfl, rfl⟩

/-- duplicate members are kept -/
theorem union_duplicates_kept (R : Resolve) (t : MType) :
    mapType R (.union [t, t]) = .union [mapType R t, mapType R t] := by
  rw [mapType_union]; rfl

/-- nested unions are not flattened -/
theorem union_nested_kept (R : Resolve) (ts : List MType) (u : MType) :
    mapType R (.union [.union ts, u]) = .union [.union (ts.map (mapType R)), mapType R u] := by
  rw [mapType_union, List.map_cons, mapType_union]; rfl

/-- COUNTEREXAMPLE to "never a silently different type": an `Any` of an incorrect kind (unannotated = 1,
    omitted generics = 4, from error = 5, …) that is not filtered by the callers — they test the TOP of the
    type only (`isIncorrectAny`) — is translated to `typing.Any`, without a warning and without an error -/
theorem incorrect_any_is_silently_Any (R : Resolve) (k : Nat) (m : String)
    (h : isIncorrectAny (.any k m) = true) :
    mapType R (.any k m) = .named "Any" "typing.Any" ∧ warningsOf R (.any k m) = [] ∧
    firstErr R (.any k m) = none ∧ hasUnknown (mapType R (.any k m)) = false := by
  have hk : ¬ (k == fromUnimportedType) = true := by
    intro hk
    have : k = 3 := by simpa [fromUnimportedType] using hk
    subst this
    exact absurd h (by simp [isIncorrectAny, correctTypeOfAny])
  rw [mapType, warningsOf, firstErr, if_neg hk, if_neg hk, if_neg hk]
  exact ⟨rfl, rfl, rfl, rfl⟩

/-! ### (6) kernel-checked examples -/

private def exMod : Module :=
  { id := "pkg/mod", name := "mod", qualifiedImports := [⟨"numpy.ndarray", none⟩],
    classes := [{ id := "pkg/mod/Local", name := "Local", isPublic := true }] }
private def exSt : VSt :=
  { doc := { root := { name := "pkg" }, style := .numpy }, stack := [.module exMod],
    fileFullname := "pkg.mod", fileName := "mod" }
/-- the same state outside any module -/
private def exSt0 : VSt := { doc := { root := { name := "pkg" }, style := .numpy } }
private def exEnv : AEnv := { opts := {}, aliases := [("Path", ["pathlib.Path"])], infoBases := [] }
private def tInt : MType := .inst "int" "builtins.int" []
private def tStr : MType := .inst "str" "builtins.str" []
private def tBool : MType := .inst "bool" "builtins.bool" []
private def aInt : AType := .named "int" "builtins.int"
private def aStr : AType := .named "str" "builtins.str"

/-- `Optional[int]`: a union of `int` and `None`, nothing is made "nullable" here -/
example : toAbstractNoUn exEnv (.union [tInt, .none]) exSt =
    .ok (.union [aInt, .named "None" "builtins.None"], exSt) := rfl

/-- `dict[str, list[int]]` -/
example : toAbstractNoUn exEnv (.inst "dict" "builtins.dict" [tStr, .inst "list" "builtins.list" [tInt]]) exSt =
    .ok (.dict aStr (.list [aInt]), exSt) := rfl

/-- `Callable[[int, str], bool]` -/
example : toAbstractNoUn exEnv (.callable [tInt, tStr] tBool) exSt =
    .ok (.callable [aInt, aStr] (.named "bool" "builtins.bool"), exSt) := rfl

/-- `Literal["a", 1]` (mypy: a union of two literal types): one `LiteralType` per value, not merged -/
example : toAbstractNoUn exEnv (.union [.literal (.str "a"), .literal (.int 1)]) exSt =
    .ok (.union [.literal [.str "a"], .literal [.int 1]], exSt) := rfl

/-- a type variable with a bound: translated with the bound, and recorded -/
example : toAbstractNoUn exEnv (.typeVar "T" tInt "builtins.int") exSt =
    .ok (.typeVarB "T" aInt, { exSt with typeVars := [("T", some aInt)] }) := rfl

/-- `Callable[[T, T], T]` with an unbounded `T`: `type_var_types` is a set, one entry -/
example : toAbstractNoUn exEnv
    (.callable [.typeVar "T" .none "builtins.object", .typeVar "T" .none "builtins.object"]
      (.typeVar "T" .none "builtins.object")) exSt =
    .ok (.callable [.typeVar "T", .typeVar "T"] (.typeVar "T"), { exSt with typeVars := [("T", none)] }) := rfl

/-- `Self` with a bound is replaced by the bound and not recorded -/
example : toAbstractNoUn exEnv (.typeVar "Self" (.inst "C" "pkg.mod.C" []) "pkg.mod.C") exSt =
    .ok (.named "C" "pkg.mod.C", exSt) := rfl

/-- an `Any` of an incorrect kind (5 = from_error) below a `list`: silently `List<Any>` -/
example : toAbstractNoUn exEnv (.inst "list" "builtins.list" [.any 5 ""]) exSt =
    .ok (.list [.named "Any" "typing.Any"], exSt) := rfl

/-- an `Any` from an unimported type: resolved through the imports of the module … -/
example : toAbstractNoUn exEnv (.any 3 "numpy.ndarray") exSt =
    .ok (.named "ndarray" "numpy.ndarray", exSt) := rfl

/-- … or unknown, with the warning -/
example : toAbstractNoUn exEnv (.any 3 "scipy.sparse") exSt =
    .ok (.unknown, { exSt with warnings := [unknownMsg] }) := rfl

/-- un-analysed names: a class of the module, an alias, a builtin, an unknown name -/
example : toAbstractNoUn exEnv (.tuple [.unbound "Local" [], .unbound "Path" [], .unbound "float" [tInt],
      .unbound "Nope" []]) exSt =
    .ok (.tuple [.named "Local" "pkg.mod.Local", .named "Path" "pathlib.Path", .named "float" "builtins.float",
      .unknown], { exSt with warnings := [unknownMsg] }) := rfl

/-- any other mypy type class: unknown, with the warning -/
example : toAbstractNoUn exEnv (.other "TypeType" none) exSt =
    .ok (.unknown, { exSt with warnings := [unknownMsg] }) := rfl

/-- a user class with the short name `Sequence` is a list (the dispatch never looks at `fullname`) -/
example : toAbstractNoUn exEnv (.inst "Sequence" "pkg.mod.Sequence" [tInt]) exSt = .ok (.list [aInt], exSt) := rfl

/-- a generic class: arguments in order -/
example : toAbstractNoUn exEnv (.inst "Gen" "pkg.mod.Gen" [tStr, tInt]) exSt =
    .ok (.namedSeq "Gen" "pkg.mod.Gen" [aStr, aInt], exSt) := rfl

/-- the two exceptions -/
example : toAbstractNoUn exEnv (.inst "dict" "builtins.dict" [tInt]) exSt = .error .indexError := rfl
example : toAbstractNoUn exEnv (.tuple [tInt, .any 3 "numpy.ndarray"]) exSt0 = .error .typeError := rfl
example : toAbstractNoUn exEnv (.unbound "Path" []) exSt0 = .error .typeError := rfl
/-- left to right: the first exception wins -/
example : toAbstractNoUn exEnv (.tuple [.unbound "Path" [], .inst "Mapping" "typing.Mapping" []]) exSt0 =
    .error .typeError := rfl

/-- `x: list[int, str]`: mypy gives `list[Any]` (from_error); the annotation is translated instead -/
example : toAbstract exEnv (.inst "list" "builtins.list" [.any 5 ""]) (some (.unbound "list" [tInt, tStr])) exSt =
    .ok (.list [aInt, aStr], exSt) := rfl
example : toAbstract exEnv (.inst "set" "builtins.set" [.any 5 ""]) (some (.unbound "set" [tInt, tStr])) exSt =
    .ok (.set [aInt, aStr], exSt) := rfl
/-- … only then: with a correct argument the annotation is not consulted -/
example : toAbstract exEnv (.inst "list" "builtins.list" [tInt]) (some (.unbound "list" [tStr])) exSt =
    .ok (.list [aInt], exSt) := rfl
/-- `Final[int]`, `Final[int, str]`, `Final` without argument -/
example : toAbstract exEnv tInt (some (.unbound "Final" [tInt])) exSt = .ok (.final aInt, exSt) := rfl
example : toAbstract exEnv tInt (some (.unbound "Final" [tInt, tStr])) exSt =
    .ok (.final (.union [aInt, aStr]), exSt) := rfl
example : toAbstract exEnv tInt (some (.unbound "Final" [])) exSt = .error .valueError := rfl
/-- a tuple annotation replaces the analysed type -/
example : toAbstract exEnv (.inst "tuple" "builtins.tuple" [tInt]) (some (.tuple [tStr, tInt])) exSt =
    .ok (.tuple [aStr, aInt], exSt) := rfl

/-- unions: `None` first, duplicates, nesting — all kept as they come -/
example : toAbstractNoUn exEnv (.union [.none, tInt, tInt, .union [tStr, .none]]) exSt =
    .ok (.union [.named "None" "builtins.None", aInt, aInt, .union [aStr, .named "None" "builtins.None"]], exSt) := rfl

/-- the pure functions on the same inputs -/
example : mapType (resolveOf exEnv exSt) (.union [tInt, .none]) = .union [aInt, .named "None" "builtins.None"] := rfl
example : visited (.inst "dict" "builtins.dict" [tStr, tInt, tBool]) =
    [.inst "dict" "builtins.dict" [tStr, tInt, tBool], tStr, tInt] := rfl
example : unCase (.inst "list" "builtins.list" [.any 5 ""]) (some (.unbound "list" [tInt, tStr])) =
    .reparse (.unbound "list" [tInt, tStr]) := rfl

end StubGen.C05a
