/-
C02 (lexical half) — every identifier the generator emits is a legal Safe-DS `ID` token, keywords
are back-quoted, string literals and documentation comments are closed — and the exact conditions
on the analysed package under which this is true (names outside `Convertible`; docstrings containing `*/` are NOT
escaped by the tool: known finding, kept as a closed counterexample; string values ARE escaped since repair d913d69).

Token classes: `Spec/Tokens.lean`.  Helper lemmas (`lx_…`): `Proofs/Lexical.lean`.
-/
import StubGen.Proofs.Lexical
import StubGen.Proofs.PathConv
import StubGen.Model.Analyze

namespace StubGen.C02

open Spec

/-! ## 1. keyword escaping -/

/-- the escape table is exactly the keyword list of the grammar -/
theorem escapeKeyword_eq (n : String) :
    escapeKeyword n = if isKeyword n then "`" ++ n ++ "`" else n := lx_escapeKeyword_eq n

/-- a legal identifier, keyword or not, is emitted as one `ID` token -/
theorem escapeKeyword_token (n : String) (h : isIdent n.toList = true) :
    isIdentToken (escapeKeyword n) = true := lx_escapeKeyword_token h

/-- exactly the keywords are changed -/
theorem escapeKeyword_fix_iff (n : String) : escapeKeyword n = n ↔ ¬ isKeyword n = true := by
  rw [lx_escapeKeyword_eq]
  constructor
  · intro h hk
    rw [if_pos hk] at h
    exact lx_backquote_ne n h
  · intro hk
    rw [if_neg hk]

/-- every keyword is a legal identifier, hence its back-quoted form is a token; unquoted it is not -/
theorem keyword_tokens : ∀ k ∈ keywords33,
    isIdentToken (escapeKeyword k) = true ∧ isIdentToken k = false := by decide

/-! ## 2. names that go through convert + escape

Class, attribute, function, property, parameter, result, enum-member and type-parameter names are
all emitted as `escapeKeyword (convertName n env.safe cls)`. -/

/-- flag off, the name is emitted verbatim: a convertible name is in particular a legal identifier -/
theorem convertible_isIdent (cs : List Char) (h : Convertible cs = true) : isIdent cs = true :=
  lx_convertible_isIdent h

theorem rendered_name_ident (n : String) (safe cls : Bool) (h : Convertible n.toList = true) :
    isIdent (convertName n safe cls).toList = true := by
  cases safe with
  | true => exact C09.convert_on_legal n cls h
  | false => rw [C09.convert_off]; exact lx_convertible_isIdent h

theorem rendered_name_token (n : String) (safe cls : Bool) (h : Convertible n.toList = true) :
    isIdentToken (escapeKeyword (convertName n safe cls)) = true :=
  lx_escapeKeyword_token (rendered_name_ident n safe cls h)

/-- flag off, the weaker hypothesis "legal identifier" is enough (`_1` is emitted as `_1`) -/
theorem rendered_name_token_off (n : String) (cls : Bool) (h : isIdent n.toList = true) :
    isIdentToken (escapeKeyword (convertName n false cls)) = true := by
  rw [C09.convert_off]; exact lx_escapeKeyword_token h

/-! ## 3. outside `Convertible` the rendering is not a token (known finding, DESIGN A8) -/

/-- `__` is a legal Python identifier; with the flag on it is rendered as the empty string -/
example : isIdent "__".toList = true ∧ Convertible "__".toList = false ∧
    escapeKeyword (convertName "__" true) = "" ∧ isIdentToken (escapeKeyword (convertName "__" true)) = false := by decide
/-- `_1` is a legal Python identifier; with the flag on it is rendered as `1` -/
example : isIdent "_1".toList = true ∧ Convertible "_1".toList = false ∧
    escapeKeyword (convertName "_1" true) = "1" ∧ isIdentToken (escapeKeyword (convertName "_1" true)) = false := by decide
/-- with the flag off both are fine -/
example : isIdentToken (escapeKeyword (convertName "__" false)) = true ∧
    isIdentToken (escapeKeyword (convertName "_1" false)) = true := by decide
/-- non-vacuity: conversion can produce a keyword, which is then back-quoted -/
example : Convertible "_val".toList = true ∧ escapeKeyword (convertName "_val" true) = "`val`" ∧
    Convertible "in_".toList = true ∧ escapeKeyword (convertName "in_" true) = "`in`" := by decide

/-! ## 5. string literals -/

/-- EVERY string literal value is one closed `STRING` token: backslashes, quotes and line breaks are escaped (repair
    d913d69; before it a quote inside the value closed the literal early and a line break broke it) -/
theorem string_literal_closed (s : String) : isStringToken (Lit.render (.str s)) = true := lx_escape_closed s

/-- … the same function renders the string DEFAULT VALUES in the analyser (`_get_parameter_type_and_default_value`):
    every Python string default reaches the API as one closed `STRING` token -/
theorem string_default_value_closed (fid v : String) :
    ∃ t, defaultOf fid (.str v) = (.str t, false, []) ∧ isStringToken t = true :=
  ⟨_, rfl, lx_escape_closed v⟩

/-- the generator emits a string default unchanged, whatever kind of parameter it belongs to: with the text the analyser
    produces (`escapeStringLiteral v`) … -/
theorem string_default_emitted (a : Assign) (v : String) (st : St) :
    ∃ r, defaultString a (.str (escapeStringLiteral v)) st = .ok (r, st) ∧ r = escapeStringLiteral v ∧
      isStringToken r = true := by
  refine ⟨_, ?_, rfl, lx_escape_closed v⟩
  have hl : (escapeStringLiteral v).toList = '"' :: (v.toList.flatMap escapeStringChar ++ ['"']) := by
    unfold escapeStringLiteral; rw [String.toList_ofList]
  have h1 : (escapeStringLiteral v == "()") = false := by
    rw [beq_eq_false_iff_ne]; intro e
    have := congrArg String.toList e
    rw [hl] at this
    simp at this
  have h2 : (escapeStringLiteral v == "{}") = false := by
    rw [beq_eq_false_iff_ne]; intro e
    have := congrArg String.toList e
    rw [hl] at this
    simp at this
  simp only [defaultString, h1, h2, Bool.and_false, Bool.false_eq_true, if_false]
  rfl

/-- … and with any other pre-quoted text whose body needs no escape (API files written by hand or by older versions) -/
theorem string_default_closed (a : Assign) (v : String) (st : St) (h : stringBodySafe v.toList = true) :
    ∃ r, defaultString a (.str ("\"" ++ v ++ "\"")) st = .ok (r, st) ∧ r = "\"" ++ v ++ "\"" ∧
      isStringToken r = true := by
  refine ⟨_, ?_, rfl, lx_string_closed h⟩
  have h1 : ("\"" ++ v ++ "\"" == "()") = false := by
    rw [beq_eq_false_iff_ne]; intro e
    have := congrArg String.toList e
    simp [String.toList_append] at this
  have h2 : ("\"" ++ v ++ "\"" == "{}") = false := by
    rw [beq_eq_false_iff_ne]; intro e
    have := congrArg String.toList e
    simp [String.toList_append] at this
  simp only [defaultString, h1, h2, Bool.and_false, Bool.false_eq_true, if_false]
  rfl

/-- what was written before the repair, and what is written now -/
example : isStringToken "\"a\"b\"" = false ∧ Lit.render (.str "a\"b") = "\"a\\\"b\"" ∧
    isStringToken (Lit.render (.str "a\"b")) = true := by decide
example : Lit.render (.str "a\nb") = "\"a\\nb\"" ∧ Lit.render (.str "C:\\dir") = "\"C:\\\\dir\"" := by decide
/-- an escape sequence the Python string already spells out is escaped again (the value is data, not Safe-DS source) -/
example : Lit.render (.str "a\\nb") = "\"a\\\\nb\"" := by decide

/-! ## 6. parameters -/

/-- name and annotation of a rendered parameter, whatever its type and default value do -/
theorem param_name_eq (env : Env) (p : Parameter) (st st' : St) (out : ParamOut)
    (h : createParameter env p st = .ok (out, st')) :
    out.name = escapeKeyword (convertName p.name env.safe) ∧
    out.annotation = (if convertName p.name env.safe ≠ p.name then "@PythonName(\"" ++ p.name ++ "\") " else "") :=
  lx_createParameter_outs env p st _ h

theorem param_tokens (env : Env) (p : Parameter) (st st' : St) (out : ParamOut)
    (h : createParameter env p st = .ok (out, st')) (hp : Convertible p.name.toList = true) :
    isIdentToken out.name = true ∧
    (out.annotation = "" ∨ out.annotation = "@PythonName(\"" ++ p.name ++ "\") ") ∧
    isStringToken ("\"" ++ p.name ++ "\"") = true := by
  obtain ⟨h1, h2⟩ := param_name_eq env p st st' out h
  refine ⟨?_, ?_, lx_string_closed (lx_convertible_safe hp)⟩
  · rw [h1]; exact rendered_name_token _ _ _ hp
  · rw [h2]; split
    · right; rfl
    · left; rfl

/-- non-vacuity: a successful run, its name and annotation -/
example : ∃ out st', createParameter ⟨{}, true⟩
      { id := "f/in_", name := "in_", isOptional := false, default := .none, assignedBy := .positionOrName, type := none } {}
        = .ok (out, st') ∧ out.name = "`in`" ∧ out.annotation = "@PythonName(\"in_\") " :=
  ⟨_, _, rfl, by decide, by decide⟩

/-! ## 7. enums -/

/-- the exact text of an enum: the enum name is NOT converted, only keyword-escaped; every instance
    goes through convert + escape -/
theorem enum_tokens (env : Env) (e : Enum) :
    createEnumString env e =
      sdsDocstring env.safe e.doc.description "" [] [] e.doc.examples ++ "enum " ++ escapeKeyword e.name
        ++ (if e.instances = [] then ""
            else " {\n" ++ String.join (e.instances.map fun i =>
              "    " ++ (if convertName i.name env.safe ≠ i.name then "@PythonName(\"" ++ i.name ++ "\") " else "")
                ++ escapeKeyword (convertName i.name env.safe) ++ "\n") ++ "}") := by
  unfold createEnumString
  by_cases h : e.instances = []
  · simp [h]
  · have h' : e.instances.isEmpty = false := by simpa using h
    have hm : (e.instances.map fun i =>
        indentation ++ (if convertName i.name env.safe != i.name then nameAnnotation i.name ++ " " else "")
          ++ escapeKeyword (convertName i.name env.safe) ++ "\n") = e.instances.map fun i =>
              "    " ++ (if convertName i.name env.safe ≠ i.name then "@PythonName(\"" ++ i.name ++ "\") " else "")
                ++ escapeKeyword (convertName i.name env.safe) ++ "\n" := by
      apply List.map_congr_left
      intro i _
      by_cases hc : convertName i.name env.safe = i.name
      · simp [hc, indentation, Generated.indentation]
      · simp [hc, indentation, Generated.indentation, nameAnnotation, Generated.nameAnnotation, String.append_assoc]
    simp only [h', Bool.false_eq_true, if_false, h, hm]
    simp only [String.append_assoc]
    rfl

/-- the identifiers of an enum are tokens: the name when it is a legal identifier, each instance
    when it is convertible; the annotation's string body is then safe, too -/
theorem enum_name_token (e : Enum) (h : isIdent e.name.toList = true) :
    isIdentToken (escapeKeyword e.name) = true := lx_escapeKeyword_token h

theorem enum_instance_token (safe : Bool) (i : EnumInstance) (h : Convertible i.name.toList = true) :
    isIdentToken (escapeKeyword (convertName i.name safe)) = true ∧
    isStringToken ("\"" ++ i.name ++ "\"") = true :=
  ⟨rendered_name_token _ _ _ h, lx_string_closed (lx_convertible_safe h)⟩

/-! ## 8. documentation comments -/

/-- (a) the description part of a documentation comment contains the terminator only if the
    docstring text or the indentation does: a `*` the generator puts at the end of an empty line
    is followed by a newline, the ` * ` in front of a non-empty line by a space -/
theorem description_part_safe (d indent : String) (hd : commentBodySafe d = true)
    (hi : commentBodySafe indent = true) : commentBodySafe (descriptionPart d indent) = true :=
  lx_descriptionPart_safe d indent hd hi

theorem description_empty (indent : String) : sdsDocstringDescription "" indent = "" := by
  simp [sdsDocstringDescription]

/-- (b) a non-empty description gives `indent ++ comment ++ "\n"` where `comment` is ONE closed block
    comment (the first `*/` after the opening `/*` is the final one), provided the docstring text
    does not contain `*/`.  `commentBodySafe indent` holds for every indentation made of spaces
    (`comment_closed_spaces`). -/
theorem comment_closed (d indent : String) (hne : d ≠ "") (hd : commentBodySafe d = true)
    (hi : commentBodySafe indent = true) :
    let body := indent ++ " * " ++ descriptionPart d indent
    sdsDocstringDescription d indent = indent ++ ("/**\n" ++ body ++ indent ++ " */") ++ "\n" ∧
    isCommentToken ("/**\n" ++ body ++ indent ++ " */") = true ∧
    commentBodySafe body = true := by
  refine ⟨lx_sdsDocstringDescription_form d indent hne, lx_docComment_token d indent hd hi, ?_⟩
  rw [lx_safe_iff]
  obtain ⟨bi, hbi⟩ := Option.isSome_iff_exists.mp ((lx_safe_iff indent).mp hi)
  simp only [String.toList_append]
  rw [List.append_assoc, lx_scan_append, hbi]
  have : (" * " : String).toList = [' ', '*', ' '] := by decide
  simp only [Option.bind_some, this, List.cons_append, List.nil_append, lx_scan_sp, lx_scan_star]
  rw [lx_descriptionPart_scan d indent hd hi]; rfl

theorem comment_closed_spaces (d indent : String) (hne : d ≠ "") (hd : commentBodySafe d = true)
    (hi : indent.toList.all (· = ' ') = true) :
    sdsDocstringDescription d indent
      = indent ++ ("/**\n" ++ (indent ++ " * " ++ descriptionPart d indent) ++ indent ++ " */") ++ "\n" ∧
    isCommentToken ("/**\n" ++ (indent ++ " * " ++ descriptionPart d indent) ++ indent ++ " */") = true :=
  ⟨(comment_closed d indent hne hd (lx_spaces_safe indent hi)).1,
   (comment_closed d indent hne hd (lx_spaces_safe indent hi)).2.1⟩

/-- known finding: docstring text is not escaped.  A glob pattern in the description closes the
    comment early: the text up to the first `*/` is a complete comment, the whole is not. -/
example : commentBodySafe "Glob **/*.py files." = false ∧
    sdsDocstringDescription "Glob **/*.py files." "" = "/**\n * Glob **/*.py files.\n */\n" ∧
    isCommentToken "/**\n * Glob **/*.py files.\n */" = false ∧
    isCommentToken "/**\n * Glob **/" = true := by decide
/-- non-vacuity of (b): a two-paragraph description -/
example : sdsDocstringDescription "A.\n\nB*" "    " = "    /**\n     * A.\n     *\n     * B*\n     */\n" ∧
    isCommentToken "/**\n     * A.\n     *\n     * B*\n     */" = true := by decide

/-! ## 4. dotted paths -/

/-- a dotted path of legal identifiers: each segment is escaped on its own … -/
theorem escapePath_segments (p : String) (h : ∀ s ∈ pySplit p '.', isIdent s.toList = true) :
    pySplit (escapePath p) '.' = (pySplit p '.').map escapeKeyword := lx_escapePath_segments p h

/-- … hence the escaped path is a qualified name -/
theorem escapePath_qualified (p : String) (h : ∀ s ∈ pySplit p '.', isIdent s.toList = true) :
    isQualifiedToken (escapePath p) = true := lx_escapePath_qualified p h

/-- REPAIRED (8e9a214; before, `convertName` treated a dotted path as ONE name: `pkg._private.mod` became
    `pkg.Private.mod`, and a segment of underscores only vanished — `a._.b` became `a..b`, not a qualified name): the
    segments of the converted path are the converted segments -/
theorem converted_path_segments (p : String) (safe : Bool) :
    pySplit (convertPath p safe) '.' = (pySplit p '.').map (fun s => convertName s safe) :=
  pc_split_convertPath p safe

/-- when every segment is convertible, every segment of the converted path is a legal identifier … -/
theorem converted_path_segments_ident (p : String) (safe : Bool)
    (h : ∀ s ∈ pySplit p '.', Convertible s.toList = true) :
    ∀ s ∈ pySplit (convertPath p safe) '.', isIdent s.toList = true := by
  rw [converted_path_segments]
  intro s hs
  obtain ⟨q, hq, rfl⟩ := List.mem_map.mp hs
  cases safe with
  | true => exact C09.convert_on_legal q false (h q hq)
  | false => rw [C09.convert_off]; exact lx_convertible_isIdent (h q hq)

/-- … and the package / import path that is printed is a qualified name -/
theorem converted_path_qualified (p : String) (safe : Bool)
    (h : ∀ s ∈ pySplit p '.', Convertible s.toList = true) :
    isQualifiedToken (escapePath (convertPath p safe)) = true :=
  lx_escapePath_qualified _ (converted_path_segments_ident p safe h)

/-- the conversion of a path is, by definition, the segment-wise conversion -/
theorem converted_path_exact (p : String) (safe : Bool) :
    convertPath p safe = joinWith "." ((pySplit p '.').map (convertName · safe)) := rfl

/-- an inner segment with a leading underscore stays lowerCamelCase; trailing underscores and underscores inside a segment -/
example : convertPath "pkg._private.mod" true = "pkg.private.mod" ∧ convertPath "my_pkg_.sub_mod_.x" true = "myPkg.subMod.x" ∧
    convertPath "concurrent.futures._base" true = "concurrent.futures.base" := by decide
/-- a segment `_` is kept (and back-quoted as the keyword it is); outside `Convertible` segments the result need not be a
    qualified name: a segment `_1` becomes `1` -/
example : escapePath (convertPath "a._.b" true) = "a.`_`.b" ∧ isQualifiedToken (escapePath (convertPath "a._.b" true)) = true ∧
    isQualifiedToken (escapePath (convertPath "a._1.b" true)) = false ∧ convertPath "a._1.b" true = "a.1.b" := by decide
/-- keyword segments are back-quoted one by one -/
example : escapePath (convertPath "my_pkg.val.in_" true) = "myPkg.`val`.`in`" ∧
    isQualifiedToken "myPkg.`val`.`in`" = true := by decide

/-! ## 9. the package header -/

theorem header_eq (env : Env) (pkg : String) :
    packageHeader env pkg =
      (if pkg ≠ convertPath pkg env.safe then "@PythonModule(\"" ++ pkg ++ "\")\n" else "")
        ++ "package " ++ escapePath (convertPath pkg env.safe) ++ "\n" := by
  unfold packageHeader
  by_cases h : pkg = convertPath pkg env.safe
  · simp [← h]
  · simp [h]

/-- flag off: no annotation, the package path is printed verbatim (keywords back-quoted) and is a
    qualified name when its segments are legal identifiers -/
theorem header_tokens_off (env : Env) (pkg : String) (hs : env.safe = false)
    (h : ∀ s ∈ pySplit pkg '.', isIdent s.toList = true) :
    packageHeader env pkg = "package " ++ escapePath pkg ++ "\n" ∧ isQualifiedToken (escapePath pkg) = true := by
  refine ⟨?_, lx_escapePath_qualified pkg h⟩
  rw [header_eq, hs, pc_convertPath_off]
  simp

/-- either flag: with convertible segments the package path is a qualified name and the string
    body of the `@PythonModule` annotation is safe -/
theorem header_tokens (env : Env) (pkg : String) (h : ∀ s ∈ pySplit pkg '.', Convertible s.toList = true) :
    isQualifiedToken (escapePath (convertPath pkg env.safe)) = true ∧
    isStringToken ("\"" ++ pkg ++ "\"") = true :=
  ⟨converted_path_qualified pkg env.safe h,
   lx_string_closed (lx_path_safe pkg (fun s hs => lx_convertible_safe (h s hs)))⟩

/-- the import lines `from <path> import <name>` of `createImportsString`: an imported qualified
    name has at least two segments (`addToImports` drops names without a module path); when they are
    convertible, the `from` path is a qualified name and the imported name a token -/
theorem import_line_tokens (imp : String) (safe : Bool) (h2 : 2 ≤ (splitDot imp).length)
    (h : ∀ s ∈ splitDot imp, Convertible s.toList = true) :
    isQualifiedToken (escapePath (convertPath (joinWith "." (dropLast' (splitDot imp))) safe)) = true ∧
    isIdentToken (escapeKeyword (convertName (lastD "" (splitDot imp)) safe)) = true := by
  unfold splitDot at *
  refine ⟨converted_path_qualified _ safe ?_, rendered_name_token _ _ _ (h _ (lx_lastD_mem _ _ ?_))⟩
  · rw [lx_pySplit_module_part imp h2]
    exact fun s hs => h s (lx_mem_dropLast' _ s hs)
  · intro e; rw [e] at h2; simp at h2

/-- a name without module path would give `from  import x` — excluded by `addToImports` -/
example : joinWith "." (dropLast' (splitDot "x")) = "" ∧ isQualifiedToken (escapePath "") = false := by decide

end StubGen.C02
