/-
C02 (structural half) — in the text the generator model emits, round brackets, curly braces, angle
brackets (and square brackets), string literals, comments and back-quoted names are all closed, and
brackets are properly nested: `Spec.Balanced`, a one-pass scanner with lexical modes and a bracket
stack (`Spec/Balance.lean`).  `Theorems/C02.lean` is the lexical half (each name is an identifier
token, each string literal / comment is ONE token); this file is about the structure of the whole
text.

The theorems hold under the conditions on the analysed package collected in the `…Bal` predicates of
`Spec/Balance.lean` (names convertible / identifiers, string literal values without quote, backslash
and line break, textual default values balanced in themselves, docstring texts without `*/`, examples
without `*`).  Section 8 shows, by closed counterexamples, that these conditions cannot simply be
dropped: the generator escapes none of these texts.

Helper lemmas (`y02_…`): `Proofs/Balance.lean`.
-/
import StubGen.Proofs.Balance
import StubGen.Proofs.ShortestMem
import StubGen.Proofs.ImportTargets

namespace StubGen.C02a

open Spec

/-! ## 1. the scanner -/

/-- `Balanced` (scan from the empty stack) is the same as being a piece of text that can stand
    anywhere in code: read in `code` mode on top of ANY open brackets it comes back to `code` mode
    and leaves them as they were -/
theorem balanced_iff_closed (s : String) :
    Balanced s = true ↔ ∀ stk, scan .code stk s.toList = some (.code, stk) :=
  (y02_CS_iff s).symm

theorem balanced_append (a b : String) (ha : Balanced a = true) (hb : Balanced b = true) :
    Balanced (a ++ b) = true :=
  (y02_CS_iff _).1 (y02_CS_append (y02_CS_of_bal ha) (y02_CS_of_bal hb))

/-- a balanced text between a matching pair of brackets is balanced -/
theorem balanced_wrapped (p : String) (h : Balanced p = true) :
    Balanced ("(" ++ p ++ ")") = true ∧ Balanced ("{" ++ p ++ "}") = true ∧
    Balanced ("<" ++ p ++ ">") = true ∧ Balanced ("[" ++ p ++ "]") = true :=
  ⟨(y02_CS_iff _).1 (y02_CS_bracketed "(" ")" [')'] (by decide) (by decide) (y02_CS_of_bal h)),
   (y02_CS_iff _).1 (y02_CS_bracketed "{" "}" ['}'] (by decide) (by decide) (y02_CS_of_bal h)),
   (y02_CS_iff _).1 (y02_CS_bracketed "<" ">" ['>'] (by decide) (by decide) (y02_CS_of_bal h)),
   (y02_CS_iff _).1 (y02_CS_bracketed "[" "]" [']'] (by decide) (by decide) (y02_CS_of_bal h))⟩

/-- the scanner on small texts: arrows, comments, strings and back-quotes hide brackets; a wrong or
    missing closer, an open string and an open comment are rejected -/
example : Balanced "(a: Int) -> (r: List<Int>)" = true ∧ Balanced "fun f<T>(x: T = \")\") // :-)\n" = true ∧
    Balanced "/* { */ class `in` { attr a: Map<String, Int> }" = true ∧ Balanced "x = -1" = true ∧
    Balanced "class C {" = false ∧ Balanced "List<Int" = false ∧ Balanced "(a: Int>" = false ∧
    Balanced "fun f()) " = false ∧ Balanced "x = \"a" = false ∧ Balanced "/** doc" = false ∧
    Balanced "a -> b" = true ∧ Balanced "a > b" = false := by decide

/-! ## 2. tokens and fixed pieces -/

/-- a legal identifier, keyword-escaped or not -/
theorem ident_balanced (n : String) (h : isIdent n.toList = true) :
    Balanced n = true ∧ Balanced (escapeKeyword n) = true :=
  ⟨(y02_CS_iff _).1 (y02_CS_ident h), (y02_CS_iff _).1 (y02_CS_escapeKeyword h)⟩

/-- every name that goes through convert + escape -/
theorem rendered_name_balanced (n : String) (safe cls : Bool) (h : Convertible n.toList = true) :
    Balanced (escapeKeyword (convertName n safe cls)) = true := (y02_CS_iff _).1 (y02_CS_name safe cls h)

/-- a quoted string without quote, backslash and line break; the `@PythonName("…")` annotation -/
theorem string_balanced (s : String) (h : stringBodySafe s.toList = true) :
    Balanced ("\"" ++ s ++ "\"") = true ∧ Balanced (nameAnnotation s) = true :=
  ⟨(y02_CS_iff _).1 (y02_CS_quotedString h), (y02_CS_iff _).1 (y02_CS_nameAnnotation h)⟩

/-- the link to the lexical half: every text that `Spec/Tokens.lean` recognises as ONE identifier token,
    ONE closed string literal or ONE closed block comment is balanced -/
theorem token_balanced (s : String) :
    (isIdentToken s = true → Balanced s = true) ∧ (isStringToken s = true → Balanced s = true) ∧
    (isCommentToken s = true → Balanced s = true) :=
  ⟨fun h => (y02_CS_iff _).1 (y02_CS_identToken h), fun h => (y02_CS_iff _).1 (y02_CS_stringToken h),
   fun h => (y02_CS_iff _).1 (y02_CS_commentToken h)⟩

theorem number_balanced (i : Int) (n : Nat) : Balanced (toString i) = true ∧ Balanced (toString n) = true :=
  ⟨(y02_CS_iff _).1 (y02_CS_int i), (y02_CS_iff _).1 (y02_CS_nat n)⟩

/-- the pending TODO comments, whatever keys are pending: line comments closed by their line break -/
theorem todo_balanced (indent : String) (st st' : St) (s : String) (hi : indent.toList.all (· = ' ') = true)
    (h : createTodoMsg indent st = .ok (s, st')) : Balanced s = true :=
  (y02_CS_iff _).1 ((y02_createTodoMsg_outs hi).out _ _ _ h)

/-- documentation comments: the description-only form (modules, properties) … -/
theorem description_comment_balanced (d indent : String) (hd : commentBodySafe d = true)
    (hi : indent.toList.all (· = ' ') = true) : Balanced (sdsDocstringDescription d indent) = true :=
  (y02_CS_iff _).1 (y02_CS_sdsDocstringDescription hd hi)

/-- … and the full form with `@param`, `@result` and `@example` entries -/
theorem docstring_balanced (safe : Bool) (d indent : String) (ps : List Parameter) (rds : List ResultDoc)
    (exs : List String) (hi : indent.toList.all (· = ' ') = true) (hd : commentBodySafe d = true)
    (hps : ∀ p ∈ ps, Convertible p.name.toList = true ∧ commentBodySafe p.doc.description = true)
    (hrds : rds.all resultDocBal = true) (hexs : exs.all exampleBal = true) :
    Balanced (sdsDocstring safe d indent ps rds exs) = true :=
  (y02_CS_iff _).1 (y02_CS_sdsDocstring safe hi hd hps hrds hexs)

/-! ## 3. types -/

/-- the text the generator writes for a type (`tt_typeText`, see C05) is balanced -/
theorem typeText_model_closed (safe : Bool) (t : AType) (h : typeBal t = true) :
    Balanced (tt_typeText safe t) = true := (y02_CS_iff _).1 (y02_typeText_cs safe t h)

/-- the specified text `Spec.typeText`; `hl` is the hypothesis of `C05.typeStr_text` under which
    generator and specification agree -/
theorem typeText_closed (safe : Bool) (t : AType) (h : typeBal t = true) (hl : tt_litOk t = true) :
    Balanced (Spec.typeText safe t) = true := by
  rw [← tt_typeText_eq safe t hl]; exact typeText_model_closed safe t h

/-- whatever the generator renders for a type — in any state, for any API — is balanced -/
theorem typeStr_closed (env : Env) (t : AType) (st st' : St) (s : String) (h : typeStr env t st = .ok (s, st'))
    (ht : typeBal t = true) : Balanced s = true :=
  (y02_CS_iff _).1 ((y02_typeStr_outs env t ht).out _ _ _ h)

/-! ## 4. parameters, results, functions -/

theorem parameter_closed (env : Env) (p : Parameter) (st st' : St) (out : ParamOut)
    (h : createParameter env p st = .ok (out, st')) (hp : paramBal p = true) : Balanced out.render = true :=
  (y02_CS_iff _).1 ((y02_createParameter_outs env p hp).out _ _ _ h)

/-- the parameter list, as it stands between the parentheses and with them -/
theorem parameters_closed (env : Env) (ps : List Parameter) (indent : String) (im : Bool) (st st' : St) (s : String)
    (h : createParameterString env ps indent im st = .ok (s, st')) (hps : ps.all paramBal = true)
    (hi : indent.toList.all (· = ' ') = true) : Balanced s = true ∧ Balanced ("(" ++ s ++ ")") = true := by
  have := (y02_createParameterString_outs env ps indent im hps hi).out _ _ _ h
  exact ⟨(y02_CS_iff _).1 this, (balanced_wrapped s ((y02_CS_iff _).1 this)).1⟩

theorem results_closed (env : Env) (rs : List Result) (st st' : St) (s : String)
    (h : createResultString env rs st = .ok (s, st')) (hrs : rs.all resultBal = true) : Balanced s = true :=
  (y02_CS_iff _).1 ((y02_createResultString_outs env rs hrs).out _ _ _ h)

/-- functions and methods: the text returned by a successful `createFunctionString` -/
theorem function_closed (env : Env) (f : Function) (indent : String) (isMethod inRe : Bool) (st st' : St) (s : String)
    (h : createFunctionString env f indent isMethod inRe st = .ok (s, st')) (hf : functionBal f = true)
    (hi : indent.toList.all (· = ' ') = true) : Balanced s = true :=
  (y02_CS_iff _).1 ((y02_function_outs env f indent isMethod inRe hf hi).out _ _ _ h)

/-- properties -/
theorem property_closed (env : Env) (f : Function) (indent : String) (st st' : St) (s : String)
    (h : createPropertyFunctionString env f indent st = .ok (s, st')) (hf : functionBal f = true)
    (hi : indent.toList.all (· = ' ') = true) : Balanced s = true :=
  (y02_CS_iff _).1 ((y02_property_outs env f indent hf hi).out _ _ _ h)

/-! ## 5. attributes, enums -/

theorem attribute_closed (env : Env) (a : Attribute) (inner : String) (st st' : St) (s : String)
    (h : createAttribute env a inner st = .ok (some s, st')) (ha : attributeBal a = true)
    (hi : inner.toList.all (· = ' ') = true) : Balanced s = true :=
  (y02_CS_iff _).1 ((y02_attribute_outs env a inner ha hi).out _ _ _ h s rfl)

theorem enum_closed (env : Env) (e : Enum) (he : enumBal e = true) : Balanced (createEnumString env e) = true :=
  (y02_CS_iff _).1 (y02_enum_cs env e he)

/-! ## 6. classes

By induction on the fuel: the class body in braces, the public nested classes, the members of the
inlined private base classes (looked up in the class table of the API, hence `hapi`). -/

theorem class_closed (env : Env) (fuel : Nat) (c : Class) (indent : String) (inRe : Bool) (st st' : St) (s : String)
    (h : createClassString env fuel c indent inRe st = .ok (s, st'))
    (hc : classBal c = true) (hapi : ∀ c' ∈ env.api.classes, classBal c' = true)
    (hi : indent.toList.all (· = ' ') = true) : Balanced s = true :=
  (y02_CS_iff _).1 ((y02_class_outs env hapi fuel c indent inRe hc hi).out _ _ _ h)

/-- the members a class takes over from a private base class -/
theorem inlined_base_closed (env : Env) (fuel : Nat) (sc inner : String) (ad : List String) (st st' : St) (s : String)
    (h : createInternalClassString env fuel sc inner ad st = .ok (s, st'))
    (hapi : ∀ c' ∈ env.api.classes, classBal c' = true) (hi : inner.toList.all (· = ' ') = true) :
    Balanced s = true :=
  (y02_CS_iff _).1 (((y02_class_outs_aux env hapi fuel).2 sc inner ad hi).out _ _ _ h)

/-! ## 7. modules

`_partial`: the import lines are made from the qualified names registered in the generator state
(`st'.imports`: qualified names of the types and superclasses used, or the path of a class of the
package below its shortest re-export).  The hypothesis `himp` speaks about the final state, whose
`imports` are exactly the printed ones; it is not yet derived from conditions on the API (that needs
an invariant on the state through `addToImports`, i.e. conditions on the `qname`s inside the types, on
the class ids and on the re-export map).  Everything else is a condition on the module, the class table
and the package path. -/

theorem module_closed_partial (env : Env) (m : Module) (st st' : St) (text pkg : String)
    (h : createModuleString env m st = .ok ((text, pkg), st'))
    (hm : moduleBal m = true) (hapi : ∀ c ∈ env.api.classes, classBal c = true)
    (hpkg : pathBal pkg = true) (himp : ∀ imp ∈ st'.imports, pathBal imp = true) : Balanced text = true :=
  (y02_CS_iff _).1 (y02_module_cs env m st st' text pkg h hm hapi hpkg himp)

/-- the hypothesis about the package line is a condition on the API: it holds when the `/`-segments of the module's id and of
    the ids of the re-exporting modules are convertible names (`_get_shortest_public_reexport` returns the dotted id of a
    module of the re-export map or nothing, `Proofs/ShortestMem`).  What stays `_partial` is the import block. -/
theorem module_closed_partial' (env : Env) (m : Module) (st st' : St) (text pkg : String)
    (h : createModuleString env m st = .ok ((text, pkg), st'))
    (hm : moduleBal m = true) (hapi : ∀ c ∈ env.api.classes, classBal c = true)
    (hid : sm_idBal m.id = true) (hre : ∀ kv ∈ env.api.reexportMap, ∀ r ∈ kv.2, sm_idBal r.id = true)
    (himp : ∀ imp ∈ st'.imports, pathBal imp = true) : Balanced text = true := by
  have hp := (createModuleString_text h).1
  exact module_closed_partial env m st st' text pkg h hm hapi (by rw [hp]; exact sm_modulePackage_bal env m hid hre) himp

/-- the package a module stub announces is the module's own dotted id or the dotted id of a module of the re-export map -/
theorem module_package_is_own_or_reexporter (env : Env) (m : Module) :
    modulePackage env m = joinWith "." (splitSlash m.id) ∨
    ∃ kv ∈ env.api.reexportMap, ∃ r ∈ kv.2, modulePackage env m = joinWith "." (splitSlash r.id) := by
  unfold modulePackage
  rcases sm_shortest_is_reexporter env.api.reexportMap m.name "" true with h | ⟨kv, hkv, r, hr, h⟩
  · left; rw [h]; simp
  · split
    · right; exact ⟨kv, hkv, r, hr, h⟩
    · left; rfl

/-- towards the import block: the path `_add_to_imports` registers for a request `q` — `q` itself, the dotted id of the class
    of the package it resolves to, or `<re-exporting package>.<class name>` — is a bracket-free qualified name when `q` is one
    and the `/`-segments of the class ids and of the ids of the re-exporting modules are convertible names … -/
theorem import_target_balanced (env : Env) (q : String) (hq : pathBal q = true)
    (hcls : ∀ c ∈ env.api.classes, sm_idBal c.id = true)
    (hre : ∀ kv ∈ env.api.reexportMap, ∀ r ∈ kv.2, sm_idBal r.id = true) :
    pathBal (q11_target env q) = true := it_target_bal env q hq hcls hre

/-- … hence ONE registration step keeps the import set bracket-free.  (`himp` of `module_closed_partial` is this invariant at
    the end of the module; what is not yet derived is that every request the generator makes — the qualified names inside
    the types and the superclasses — is bracket-free, a condition on the `qname`s of the API.) -/
theorem import_registration_keeps_balance (env : Env) (q : String) (st st' : St) (u : Unit)
    (h : addToImports env q st = .ok (u, st')) (hq : pathBal q = true)
    (hcls : ∀ c ∈ env.api.classes, sm_idBal c.id = true)
    (hre : ∀ kv ∈ env.api.reexportMap, ∀ r ∈ kv.2, sm_idBal r.id = true)
    (hst : ∀ imp ∈ st.imports, pathBal imp = true) :
    ∀ imp ∈ st'.imports, pathBal imp = true := it_addToImports_keeps env q st st' u h hq hcls hre hst

/-- the same through `callGenerator` (which only resets the state first) -/
theorem stub_closed_partial (env : Env) (m : Module) (st st' : St) (text pkg : String)
    (h : callGenerator env m st = .ok ((text, pkg), st'))
    (hm : moduleBal m = true) (hapi : ∀ c ∈ env.api.classes, classBal c = true)
    (hpkg : pathBal pkg = true) (himp : ∀ imp ∈ st'.imports, pathBal imp = true) : Balanced text = true := by
  unfold callGenerator at h
  have hh := G_bind_ok h; clear h; obtain ⟨_, s1, _, h⟩ := hh
  have hh := G_bind_ok h; clear h; obtain ⟨_, s2, _, h⟩ := hh
  have hh := G_bind_ok h; clear h; obtain ⟨_, s3, _, h⟩ := hh
  exact module_closed_partial env m s3 st' text pkg h hm hapi hpkg himp

/-- the pieces of the module text that do not depend on the declarations -/
theorem header_balanced (env : Env) (pkg : String) (h : pathBal pkg = true) :
    Balanced (packageHeader env pkg) = true := (y02_CS_iff _).1 (y02_CS_packageHeader env pkg h)

theorem import_block_balanced (safe : Bool) (imports : List String) (h : ∀ imp ∈ imports, pathBal imp = true) :
    Balanced (q11_importBlock safe imports) = true := (y02_CS_iff _).1 (y02_CS_importBlock safe imports h)

/-! ## 8. the hypotheses cannot simply be dropped

The generator escapes nothing it prints.  Each example is a closed run of the model whose text the
scanner rejects, together with the `…Bal` condition it violates. -/

section Counterexamples

private def tStr : AType := .named "str" "builtins.str"
private def env0 : Env := { api := {}, safe := true }
private def textOf {α : Type} (f : α → String) (r : Except PyErr (α × St)) : String :=
  match r with
  | .ok (a, _) => f a
  | .error _ => "<error>"
private def mkP (n : String) (t : Option AType) (opt : Bool := false) (d : DefaultVal := .none) (doc : String := "") :
    Parameter :=
  { id := n, name := n, isOptional := opt, default := d, assignedBy := .positionOrName, type := t,
    doc := { description := doc } }
private def fDoc (d : String) (exs : List String := []) : Function :=
  { id := "m/f", name := "f", isPublic := true, doc := { description := d, examples := exs } }

/-- `defaultBal`: the string default `'a"b'` arrives as `"a"b"` and is printed as it is (cf. the
    known finding in `C02`: string values are not escaped) … -/
example : defaultBal (.str "\"a\"b\"") = false ∧
    textOf ParamOut.render (createParameter env0 (mkP "x" (some tStr) true (.str "\"a\"b\"")) {})
      = "x: String = \"a\"b\"" ∧ Balanced "x: String = \"a\"b\"" = false := by decide
/-- … and a default value taken from a docstring (`reconcileParameter`) is arbitrary text -/
example : defaultBal (.str "(1, 2") = false ∧
    textOf ParamOut.render (createParameter env0 (mkP "x" (some tStr) true (.str "(1, 2")) {})
      = "x: String = (1, 2" ∧ Balanced "x: String = (1, 2" = false := by decide
/-- `litBal` / `typeBal`: since the repair d913d69 a quote or a trailing backslash in a `Literal["…"]` value is escaped; the
    text that was written before (`literal<"a"b">`) was not balanced -/
example : typeBal (.literal [.str "a\"b"]) = true ∧ Spec.typeText true (.literal [.str "a\"b"]) = "literal<\"a\\\"b\">" ∧
    Balanced "literal<\"a\"b\">" = false ∧ Balanced (Spec.typeText true (.literal [.str "a\\"])) = true := by decide
/-- `docBal` (description): a `*/` in the docstring closes the documentation comment early; what follows
    is read as code.  (A comment that is closed early need not unbalance the text: the glob example
    of `C02` is lexically broken and still balanced.) -/
example : docBal (fDoc "Matches */ (or not.").doc = false ∧
    textOf id (createFunctionString env0 (fDoc "Matches */ (or not.") "" false true {})
      = "// TODO Result type information missing.\n/**\n * Matches */ (or not.\n */\n@Pure\nfun f()" ∧
    Balanced (textOf id (createFunctionString env0 (fDoc "Matches */ (or not.") "" false true {})) = false ∧
    Balanced (textOf id (createFunctionString env0 (fDoc "Glob **/*.py files.") "" false true {})) = true := by
  decide +kernel
/-- `exampleBal`: the example `>>> f(2 *>>> 3` contains no `*/`; replacing `>>>` by `//` creates one.
    The condition "no `*`" is sufficient, not necessary (`2 ** 3` is harmless). -/
example : commentBodySafe ">>> f(2 *>>> 3" = true ∧ exampleBal ">>> f(2 *>>> 3" = false ∧
    textOf id (createFunctionString env0 (fDoc "Doc." [">>> f(2 *>>> 3"]) "" false true {})
      = "// TODO Result type information missing.\n/**\n * Doc.\n *\n * @example\n * pipeline example {\n" ++
        " *     // f(2 *// 3\n * }\n */\n@Pure\nfun f()" ∧
    Balanced (textOf id (createFunctionString env0 (fDoc "Doc." [">>> f(2 *>>> 3"]) "" false true {})) = false ∧
    exampleBal ">>> f(2 ** 3)" = false ∧
    Balanced (textOf id (createFunctionString env0 (fDoc "Doc." [">>> f(2 ** 3)"]) "" false true {})) = true := by
  decide +kernel
/-- names: the model prints any string it is given as a name.  (For names that are legal Python
    identifiers `Convertible` is more than balance needs: `__` is rendered as the empty string and
    `_1` as `1`, which is not a token — `C02` — but balanced.) -/
example : typeBal (.named "A<" "m.A<") = false ∧ Balanced (Spec.typeText true (.named "A<" "m.A<")) = false ∧
    Convertible "__".toList = false ∧ Balanced (escapeKeyword (convertName "__" true)) = true := by decide

end Counterexamples

/-! ## 9. non-vacuity: closed runs of the generator model

(Texts are kept below 300 characters: `String.toList` of a literal is quadratic in the kernel.) -/

section Example

private def xInt : AType := .named "int" "builtins.int"
private def xStr : AType := .named "str" "builtins.str"
private def xNone : AType := .named "None" "builtins.None"

private def xBase : Class :=
  { id := "pkg/mod/_Base", name := "_Base", isPublic := false,
    methods := [{ id := "pkg/mod/_Base/helper", name := "helper", isPublic := true,
                  params := [mkP "self" none, mkP "n" (some xInt) true (.int (-1))],
                  results := [{ id := "r", name := "result_1", type := some (.list [xStr]) }] }] }
private def xInner : Class :=
  { id := "pkg/mod/Box/Inner", name := "Inner", isPublic := true,
    attributes := [{ id := "pkg/mod/Box/Inner/size", name := "size", isPublic := true, isStatic := false,
                     type := some xInt }] }
/-- a generic class with a documented constructor (keyword parameter name, string literal type, string
    default), a nested class, a property, a public and an inlined private base class -/
private def xBox : Class :=
  { id := "pkg/mod/Box", name := "Box", isPublic := true, superclasses := ["pkg.mod._Base", "other.Pub"],
    doc := { description := "A box." },
    ctor := some { id := "pkg/mod/Box/__init__", name := "__init__", isPublic := true,
                   params := [mkP "self" none,
                              mkP "in_" (some (.literal [.str "a", .int 1])) true (.str "\"a\"") "The mode."] },
    methods := [{ id := "pkg/mod/Box/area", name := "area", isPublic := true, isProperty := true,
                  results := [{ id := "r", name := "result_1", type := some (.union [xInt, xNone]) }] }],
    classes := [xInner],
    typeParams := [{ name := "T", type := some xInt, variance := .covariant }] }
/-- a generic function with a callable parameter, nested generics, a float default and an example -/
private def xFun : Function :=
  { id := "pkg/mod/apply_it", name := "apply_it", isPublic := true,
    doc := { description := "Apply.", examples := [">>> apply_it(f)"] },
    typeVars := [{ name := "T", upperBound := none }],
    params := [mkP "f" (some (.callable [xInt, .typeVar "T"] (.tuple [xInt, xStr]))),
               mkP "d" (some (.dict xStr (.set [xInt]))) true (.float "1e-05")],
    results := [{ id := "r", name := "result_1", type := some (.typeVar "T") }] }
/-- a module with a docstring, a function that needs an import, and an enum -/
private def xM : Module :=
  { id := "pkg/mod", name := "mod", docstring := "Shapes (2*3).",
    functions := [{ id := "pkg/mod/f", name := "f", isPublic := true,
                    params := [mkP "x" (some (.named "Pub" "other.Pub"))],
                    results := [{ id := "r", name := "result_1", type := some xNone }] }],
    enums := [{ id := "pkg/mod/Color", name := "Color",
                instances := [{ id := "pkg/mod/Color/RED", name := "RED" },
                              { id := "pkg/mod/Color/dark_blue", name := "dark_blue" }] }] }
private def xEnv : Env := { api := { package := "pkg", modules := [xM], classes := [xBox, xInner, xBase] }, safe := true }

/-- the function text without its last line … -/
private def xFunHead : String :=
    "// TODO Safe-DS does not support set types.\n" ++
    "/**\n * Apply.\n *\n * @example\n * pipeline example {\n *     // apply_it(f)\n * }\n */\n" ++
    "@Pure\n@PythonName(\"apply_it\")\nfun applyIt<T>(\n" ++
    "    f: (param1: Int, param2: T) -> (result1: Int, result2: String),\n" ++
    "    d: Map<String, Set<Int>> = 1e-05"
private def xFunText : String := xFunHead ++ "\n) -> result1: T"
/-- the class text without its closing brace … -/
private def xClassHead : String :=
    "/**\n * A box.\n *\n * @param in The mode.\n */\n" ++
    "class Box<out T sub Int>(\n    @PythonName(\"in_\") `in`: literal<\"a\", 1> = \"a\"\n) sub Pub {\n" ++
    "    class Inner() {\n        attr size: Int\n    }\n\n" ++
    "    @Pure\n    fun helper(\n        n: Int = -1\n    ) -> result1: List<String>\n\n" ++
    "    attr area: Int?\n"
private def xClassText : String := xClassHead ++ "}"
/-- the module text without the closing brace of the enum … -/
private def xModHead : String :=
    "/**\n * Shapes (2*3).\n */\n\npackage pkg.mod\n\nfrom other import Pub\n\n" ++
    "@Pure\nfun f(\n    x: Pub\n)\n\n" ++
    "enum Color {\n    RED\n    @PythonName(\"dark_blue\") darkBlue\n"
private def xModText : String := xModHead ++ "}\n"

/-- the generator writes these texts, … -/
example : textOf id (createFunctionString xEnv xFun "" false true {}) = xFunText := by decide +kernel
example : textOf id (createClassString xEnv 9 xBox "" true {}) = xClassText := by decide +kernel
example : (match callGenerator xEnv xM {} with
     | .ok (r, st') => r.1 == xModText && r.2 == "pkg.mod" && st'.imports.all pathBal
     | .error _ => false) = true := by decide +kernel

/-- … all hypotheses of `function_closed`, `class_closed` and `stub_closed_partial` hold for them (the
    hypothesis on the final imports is part of the previous example), … -/
example : functionBal xFun = true ∧ classBal xBox = true ∧ moduleBal xM = true ∧
    xEnv.api.classes.all classBal = true ∧ pathBal "pkg.mod" = true := by decide +kernel

/-- … the scanner accepts them, … -/
example : Balanced xFunText = true := by decide +kernel
example : Balanced xClassText = true := by decide +kernel
example : Balanced xModText = true := by decide +kernel

/-- … and rejects them when the closing parenthesis or brace is missing or of the wrong kind -/
example : Balanced xFunHead = false := by decide +kernel
example : Balanced (xFunHead ++ "\n} -> result1: T") = false := by decide +kernel
example : Balanced xClassHead = false := by decide +kernel
example : Balanced xModHead = false ∧ Balanced (xModHead ++ ")\n") = false := by decide +kernel

end Example

end StubGen.C02a
