/-
C19 — the type algebra of `_types.py` (model: `StubGen.Model.Types`):
`from_dict ∘ to_dict` is the identity, `==` is an equivalence relation that is
compatible with `hash`, and the sequence-like constructors are order-insensitive.
All statements are for all terms (no size bound).  Proof machinery: `StubGen.Proofs.Types`.
-/
import StubGen.Proofs.Types

namespace StubGen.C19

open StubGen

/-- (a) `from_dict(to_dict(t))` succeeds and returns `t` itself. -/
theorem roundtrip (t : AType) : AType.fromDict t.toDict = .ok t :=
  fromDict_toDict t

/-- (b) serialising the deserialised value gives the same dict. -/
theorem todict_stable (t t' : AType) (h : AType.fromDict t.toDict = .ok t') :
    t'.toDict = t.toDict := by
  rw [roundtrip t] at h
  cases h
  rfl

/-- (c) `t == t`. -/
theorem eq_refl (t : AType) : t.pyEq t = true :=
  pyEq_equiv.refl t trivial

/-- (d) `a == b → hash(a) == hash(b)`. -/
theorem eq_hash (a b : AType) : a.pyEq b = true → a.hashKey = b.hashKey :=
  hashKey_of_pyEq a b

/-- (f) `==` is transitive. -/
theorem eq_trans (a b c : AType) : a.pyEq b = true → b.pyEq c = true → a.pyEq c = true :=
  pyEq_equiv.trans a b c trivial trivial trivial

/-- (e) `(a == b) = (b == a)`. -/
theorem eq_symm (a b : AType) : a.pyEq b = b.pyEq a :=
  Bool.eq_iff_iff.2 ⟨pyEq_equiv.symm a b trivial trivial, pyEq_equiv.symm b a trivial trivial⟩

/-! (g) order-insensitivity of the seven sequence-like constructors -/

theorem perm_namedSeq (n q : String) (ts ts' : List AType) (h : List.Perm ts ts') :
    (AType.namedSeq n q ts).pyEq (AType.namedSeq n q ts') = true ∧
      (AType.namedSeq n q ts).hashKey = (AType.namedSeq n q ts').hashKey := by
  have h1 : (AType.namedSeq n q ts).pyEq (AType.namedSeq n q ts') = true := by
    simp [AType.pyEq, eqFns_permMatch_of_perm h]
  exact ⟨h1, eq_hash _ _ h1⟩

theorem perm_union (ts ts' : List AType) (h : List.Perm ts ts') :
    (AType.union ts).pyEq (AType.union ts') = true ∧
      (AType.union ts).hashKey = (AType.union ts').hashKey := by
  have h1 : (AType.union ts).pyEq (AType.union ts') = true := by
    simp [AType.pyEq, eqFns_permMatch_of_perm h]
  exact ⟨h1, eq_hash _ _ h1⟩

theorem perm_list (ts ts' : List AType) (h : List.Perm ts ts') :
    (AType.list ts).pyEq (AType.list ts') = true ∧
      (AType.list ts).hashKey = (AType.list ts').hashKey := by
  have h1 : (AType.list ts).pyEq (AType.list ts') = true := by
    simp [AType.pyEq, eqFns_permMatch_of_perm h]
  exact ⟨h1, eq_hash _ _ h1⟩

theorem perm_set (ts ts' : List AType) (h : List.Perm ts ts') :
    (AType.set ts).pyEq (AType.set ts') = true ∧
      (AType.set ts).hashKey = (AType.set ts').hashKey := by
  have h1 : (AType.set ts).pyEq (AType.set ts') = true := by
    simp [AType.pyEq, eqFns_permMatch_of_perm h]
  exact ⟨h1, eq_hash _ _ h1⟩

theorem perm_tuple (ts ts' : List AType) (h : List.Perm ts ts') :
    (AType.tuple ts).pyEq (AType.tuple ts') = true ∧
      (AType.tuple ts).hashKey = (AType.tuple ts').hashKey := by
  have h1 : (AType.tuple ts).pyEq (AType.tuple ts') = true := by
    simp [AType.pyEq, eqFns_permMatch_of_perm h]
  exact ⟨h1, eq_hash _ _ h1⟩

theorem perm_callable (ps ps' : List AType) (r : AType) (h : List.Perm ps ps') :
    (AType.callable ps r).pyEq (AType.callable ps' r) = true ∧
      (AType.callable ps r).hashKey = (AType.callable ps' r).hashKey := by
  have h1 : (AType.callable ps r).pyEq (AType.callable ps' r) = true := by
    simp [AType.pyEq, eqFns_permMatch_of_perm h, eq_refl r]
  exact ⟨h1, eq_hash _ _ h1⟩

theorem perm_literal (ls ls' : List Lit) (h : List.Perm ls ls') :
    (AType.literal ls).pyEq (AType.literal ls') = true ∧
      (AType.literal ls).hashKey = (AType.literal ls').hashKey := by
  have h1 : (AType.literal ls).pyEq (AType.literal ls') = true := by
    simp [AType.pyEq, lits_permMatch_of_perm h]
  exact ⟨h1, eq_hash _ _ h1⟩

/-- (h) the round-tripped value is `==` to the original. -/
theorem roundtrip_eq (t : AType) : ∃ t', AType.fromDict t.toDict = .ok t' ∧ t'.pyEq t = true :=
  ⟨t, roundtrip t, eq_refl t⟩

/-! ### Non-vacuity: the hypotheses are satisfiable by non-trivial concrete terms -/

section Examples

private def u1 : AType :=
  .union [.list [.named "int" "builtins.int", .named "str" "builtins.str"],
          .literal [.bool true, .str "a"], .typeVarB "T" (.set [.unknown])]
/-- `u1` with the union, the nested list and the literal permuted, and `True` replaced by `1` -/
private def u2 : AType :=
  .union [.literal [.str "a", .int 1], .typeVarB "T" (.set [.unknown]),
          .list [.named "str" "builtins.str", .named "int" "builtins.int"]]
private def u3 : AType :=
  .union [.typeVarB "T" (.set [.unknown]), .literal [.int 1, .str "a"],
          .list [.named "int" "builtins.int", .named "str" "builtins.str"]]

/-- hypothesis of `eq_hash` / `eq_trans` holds for syntactically different terms -/
example : u1.pyEq u2 = true := by decide
example : u2.pyEq u3 = true := by decide
example : u1.pyEq u3 = true := by decide
example : AType.beq u1 u2 = false := by decide
example : u1.hashKey = u2.hashKey := eq_hash _ _ (by decide)
/-- `==` is not trivially true -/
example : u1.pyEq (.union [.unknown]) = false := by decide
example : (AType.literal [.bool true]).pyEq (.literal [.int 1]) = true := by decide
example : (AType.literal [.bool true]).pyEq (.literal [.int 0]) = false := by decide
example : (AType.literal [.bool true]).hashKey = (AType.literal [.int 1]).hashKey :=
  eq_hash _ _ (by decide)
/-- multiplicities matter: `==` is multiset, not set, equality -/
example : (AType.list [.unknown, .unknown]).pyEq (.list [.unknown]) = false := by decide
/-- the hypothesis of `todict_stable` is satisfiable -/
example : (match AType.fromDict u1.toDict with
    | .ok t => AType.beq t u1
    | .error _ => false) = true := by decide
example : ∃ t', AType.fromDict u1.toDict = .ok t' := ⟨_, roundtrip u1⟩
/-- the hypothesis of the `perm_*` theorems with a non-identity permutation -/
example : List.Perm [AType.unknown, .named "a" "m.a", .list [.unknown]]
    [.list [.unknown], .unknown, .named "a" "m.a"] :=
  List.perm_append_comm (l₁ := [AType.unknown, .named "a" "m.a"]) (l₂ := [.list [.unknown]])
example : (AType.set [.unknown, .named "a" "m.a", .list [.unknown]]).pyEq
    (.set [.list [.unknown], .unknown, .named "a" "m.a"]) = true := by decide
example : (AType.callable [.unknown, .named "a" "m.a"] u1).pyEq
    (.callable [.named "a" "m.a", .unknown] u2) = true := by decide
/-- boundary: `max_inclusive` is ignored exactly when `max` is `"Infinity"` -/
example : (AType.boundary "int" (.int 0) (.str "Infinity") true true).pyEq
    (.boundary "int" (.int 0) (.str "Infinity") true false) = true := by decide
example : (AType.boundary "int" (.int 0) (.int 5) true true).pyEq
    (.boundary "int" (.int 0) (.int 5) true false) = false := by decide

end Examples

end StubGen.C19
