/-
C08 — determinism: the output is a function of the package's files and the options alone.

In the model every source of non-determinism of the Python code is an explicit ORDER of a list that
stands for a Python `set` (hash-seed dependent iteration) or for the `Path.glob` enumeration.  The
theorems below are permutation-invariance statements, one per item of the property's mechanism list:

 1. `sorted(...)` is canonical on permutation classes           (`sortBy_perm_invariant`, …)
 2. `_get_shortest_public_reexport`                              (`shortestPublicReexport_perm`, `pickShortest_spec`)
 3. the `// TODO` block and the import block                     (`todo_block_perm`, `imports_block_perm`)
 4. the placeholder stubs for classes outside the package        (`placeholder_order`)
 5. `reexported_by` is sorted by id by the visitor               (`reexportedBy_sorted`)
 6. the packages phase only ADDS to the re-export map            (`reexport_map_add_commutes`, `RmEquiv` consumers)
 7. file discovery and AST selection                             (`discovery_enumeration_order`)
 8. the former scope exclusions, now theorems: `_find_alias` iterates `sorted(qnames)`
    (`findAlias_perm`, for every known qualified name; `findAlias_known`: a non-empty known name wins,
    the candidates are not consulted),
    the inferred return types come in SOURCE order (`InferTie` is no exclusion any
    more), the re-exported elements are sorted by `(name, id)` (`reexport_elements_order`)
 9. non-vacuity examples.

Helper lemmas are in `Proofs/Order.lean`.
-/
import StubGen.Proofs.Order

namespace StubGen.C08

open List

/-! ### 1. sorting -/

/-- Insertion sort (`sortBy`, the model of `sorted(..., key=...)`) by a total preorder gives the same
    list for every enumeration order of its input, provided the preorder is antisymmetric on the
    elements of the list (ties are only between equal elements). -/
theorem sortBy_perm_invariant {α : Type} (le : α → α → Bool)
    (total : ∀ a b, le a b = true ∨ le b a = true)
    (trans : ∀ a b c, le a b = true → le b c = true → le a c = true)
    {l l' : List α}
    (antisymm : ∀ a ∈ l, ∀ b ∈ l, le a b = true → le b a = true → a = b)
    (h : l ~ l') : sortBy le l = sortBy le l' :=
  p08_sortBy_perm_invariant le total trans antisymm h

/-- Without antisymmetry: if `le` compares a key by a total order on keys, the KEY SEQUENCE of the
    sorted list is the same for every enumeration order. -/
theorem sortBy_perm_invariant_key {α κ : Type} (key : α → κ) (le : α → α → Bool) (leK : κ → κ → Bool)
    (hle : ∀ a b, le a b = leK (key a) (key b))
    (total : ∀ a b, leK a b = true ∨ leK b a = true)
    (trans : ∀ a b c, leK a b = true → leK b c = true → leK a c = true)
    (antisymm : ∀ a b, leK a b = true → leK b a = true → a = b)
    {l l' : List α} (h : l ~ l') : (sortBy le l).map key = (sortBy le l').map key :=
  p08_sortBy_map_key key le leK hle total trans antisymm h

/-- `sorted(strings)` -/
theorem sortStrings_perm {l l' : List String} (h : l ~ l') : sortStrings l = sortStrings l' :=
  p08_sortStrings_perm h

/-- sorting records by a string key that is injective on the list (e.g. modules by id) -/
theorem sortBy_key_perm {α : Type} (key : α → String) {l l' : List α}
    (hinj : ∀ a ∈ l, ∀ b ∈ l, key a = key b → a = b) (h : l ~ l') :
    sortBy (fun a b => strLe (key a) (key b)) l = sortBy (fun a b => strLe (key a) (key b)) l' :=
  p08_sortBy_key_perm key hinj h

/-- The instance for the `(module id, alias)` tuples of `_get_shortest_public_reexport`.  `tupleLe`
    reads an alias `None` as `""`, so it identifies `(id, None)` and `(id, "")`; what is invariant is the
    sorted sequence of `(id, alias or "")` — which is all the caller uses (`alias.getD ""`). -/
theorem sortBy_tupleLe_perm {l l' : List (String × Option String)} (h : l ~ l') :
    (sortBy tupleLe l).map (fun t => (t.1, t.2.getD "")) = (sortBy tupleLe l').map (fun t => (t.1, t.2.getD "")) :=
  p08_sortBy_tupleLe_perm h

/-- … and the sorted list itself when no two elements differ only by `None` / `""` -/
theorem sortBy_tupleLe_perm_eq {l l' : List (String × Option String)}
    (hinj : ∀ a ∈ l, ∀ b ∈ l, (a.1, a.2.getD "") = (b.1, b.2.getD "") → a = b) (h : l ~ l') :
    sortBy tupleLe l = sortBy tupleLe l' :=
  p08_sortBy_tupleLe_perm_eq hinj h

/-- the identification is real: the raw sorted list does depend on the order for such a pair -/
example : sortBy tupleLe [("a", none), ("a", some "")] ≠ sortBy tupleLe [("a", some ""), ("a", none)] := by
  decide

/-! ### 2. `_get_shortest_public_reexport` -/

/-- `rm'` arises from `rm` by permuting the module lists inside the values (`set[Module]` iteration
    order) and then permuting the entries. -/
abbrev RmPerm := p08_RmPerm

/-- `m` is in the module set stored under key `k` -/
abbrev PairMem := p08_PairMem

/-- The result depends on the re-export map only through the SET of `(key, module)` pairs. -/
theorem shortestPublicReexport_set {rm rm' : List (String × List ModRef)}
    (h : ∀ k m, PairMem rm k m ↔ PairMem rm' k m) (name qname : String) (isModule : Bool) :
    shortestPublicReexport rm name qname isModule = shortestPublicReexport rm' name qname isModule :=
  p08_shortest_congr h name qname isModule

/-- (a) permuting the module lists inside the map's values and (b) permuting the entries of the map
    does not change the result (the repaired hash-seed dependence F08-reexport-tie: the candidate
    tuples are de-duplicated, SORTED, and the first strictly shortest one is picked).
    Distinctness of the keys is not even needed. -/
theorem shortestPublicReexport_perm {rm rm' : List (String × List ModRef)} (h : RmPerm rm rm')
    (name qname : String) (isModule : Bool) :
    shortestPublicReexport rm name qname isModule = shortestPublicReexport rm' name qname isModule :=
  p08_shortest_congr h.pairMem name qname isModule

/-- `pickShortest none l` returns the FIRST element of `l` among those with the fewest `/`-segments:
    every earlier candidate has strictly more segments, every later one at least as many.
    (Applied to the sorted candidate list this is the least `(id, alias)` among the shortest.) -/
theorem pickShortest_spec (l : List (String × Option String)) (hne : l ≠ []) :
    ∃ pre u post, l = pre ++ u :: post ∧ pickShortest none l = some (splitSlash u.1, u.2) ∧
      (∀ p ∈ pre, (splitSlash u.1).length < (splitSlash p.1).length) ∧
      (∀ q ∈ post, (splitSlash u.1).length ≤ (splitSlash q.1).length) :=
  p08_pickShortest_spec l hne

theorem pickShortest_nil : pickShortest none [] = none := rfl

/-! ### 3. the `// TODO` block and the import block -/

/-- `_create_todo_msg` gives the same result (text, final state, or `KeyError`) for every order of
    the pending-marker set. -/
theorem todo_block_perm (indent : String) (s : St) (todos' : List String) (h : s.todos ~ todos') :
    createTodoMsg indent { s with todos := todos' } = createTodoMsg indent s := by
  rw [p08_createTodoMsg_eq, p08_createTodoMsg_eq]
  have hc : (∀ k ∈ todos', (assocGet? Generated.todoMessages k).isSome = true) ↔
      (∀ k ∈ s.todos, (assocGet? Generated.todoMessages k).isSome = true) :=
    ⟨fun H k hk => H k (h.mem_iff.1 hk), fun H k hk => H k (h.mem_iff.2 hk)⟩
  simp only [hc, p08_renderTodos_perm indent h.symm]

/-- the same for two duplicate-free lists with the same members (two iteration orders of one set) -/
theorem todo_block_set (indent : String) (s : St) (todos' : List String) (hnd : s.todos.Nodup)
    (hnd' : todos'.Nodup) (h : ∀ k, k ∈ s.todos ↔ k ∈ todos') :
    createTodoMsg indent { s with todos := todos' } = createTodoMsg indent s :=
  todo_block_perm indent s todos' ((List.perm_ext_iff_of_nodup hnd hnd').2 h)

/-- `_create_imports_string` prints the same text for every order of the import set (it never fails
    and does not change the state). -/
theorem imports_block_perm (env : Env) (s : St) (imports' : List String) (h : s.imports ~ imports') :
    ∃ text, createImportsString env s = .ok (text, s) ∧
      createImportsString env { s with imports := imports' } = .ok (text, { s with imports := imports' }) := by
  refine ⟨p08_importsText env.safe s.imports, p08_createImportsString_eq env s, ?_⟩
  rw [p08_createImportsString_eq, p08_importsText_perm env.safe h]

/-- union members: the text depends on the SET of rendered members only -/
theorem union_block_set {l l' : List String} (h : ∀ a, a ∈ l ↔ a ∈ l') (hasNamed : Bool) :
    finishUnion l hasNamed = finishUnion l' hasNamed :=
  p08_finishUnion_congr h hasNamed

/-! ### 4. placeholder stubs -/

/-- `create_stub_files` processes `classes_outside_package` in sorted order: the complete write log
    is the same for every iteration order of that set.  (Duplicate-freeness is not needed.) -/
theorem placeholder_order (safe : Bool) (stubs : List StubData) (outside outside' pre : List String)
    (h : outside ~ outside') :
    createStubFiles safe stubs outside pre = createStubFiles safe stubs outside' pre :=
  p08_createStubFiles_perm safe stubs pre h

theorem placeholder_order_set (safe : Bool) (stubs : List StubData) (outside outside' pre : List String)
    (hnd : outside.Nodup) (hnd' : outside'.Nodup) (h : ∀ c, c ∈ outside ↔ c ∈ outside') :
    createStubFiles safe stubs outside pre = createStubFiles safe stubs outside' pre :=
  placeholder_order safe stubs outside outside' pre ((List.perm_ext_iff_of_nodup hnd hnd').2 h)

/-! ### 5. `reexported_by` -/

/-- same keys in the same order, every module list permuted -/
abbrev ValuesPerm := p08_ValuesPerm

/-- The visitor sorts `reexported_by` by module id: for maps that differ by the iteration order of
    the module sets — ids within each set distinct — the sorted list is the same. -/
theorem reexportedBy_sorted (s s' : VSt) (qname : String)
    (hperm : ValuesPerm s.api.reexportMap s'.api.reexportMap)
    (hids : ∀ kv ∈ s.api.reexportMap, (kv.2.map (·.id)).Nodup) :
    sortModRefs (getReexportedBy s qname) = sortModRefs (getReexportedBy s' qname) := by
  rw [p08_getReexportedBy_eq, p08_getReexportedBy_eq]
  exact p08_sorted_grb_congr (p08_lookD_ids_nodup hids) hperm.lookD qname

/-- the collected modules have pairwise distinct ids (so the sort by id has no ties) -/
theorem reexportedBy_ids_nodup (s : VSt) (qname : String)
    (hids : ∀ kv ∈ s.api.reexportMap, (kv.2.map (·.id)).Nodup) :
    ((getReexportedBy s qname).map (·.id)).Nodup := by
  rw [p08_getReexportedBy_eq]
  exact (p08_grb_perm (p08_lookD_ids_nodup hids) (fun _ => Perm.refl _) qname).2

/-- hence the fold of `_has_node_shorter_reexport` (first strictly shortest id wins) sees a canonical order -/
theorem hasNodeShorterReexport_canonical (s s' : VSt) (qname nodeName : String) (node : Node)
    (hperm : ValuesPerm s.api.reexportMap s'.api.reexportMap)
    (hids : ∀ kv ∈ s.api.reexportMap, (kv.2.map (·.id)).Nodup) :
    hasNodeShorterReexport nodeName (sortModRefs (getReexportedBy s qname)) node =
      hasNodeShorterReexport nodeName (sortModRefs (getReexportedBy s' qname)) node := by
  rw [reexportedBy_sorted s s' qname hperm hids]

/-- the hypothesis on ids is needed: two module objects with one id in one set, first one wins -/
example :
    let a1 : ModRef := { id := "p", qualifiedImports := [⟨"p.m.f", none⟩] }
    let a2 : ModRef := { id := "p", qualifiedImports := [⟨"p.m.f", some "g"⟩] }
    let s : VSt := { doc := { root := { name := "p" }, style := .numpy }, api := { reexportMap := [("p.m.f", [a1, a2])] } }
    let s' : VSt := { doc := { root := { name := "p" }, style := .numpy }, api := { reexportMap := [("p.m.f", [a2, a1])] } }
    sortModRefs (getReexportedBy s "p.m.f") ≠ sortModRefs (getReexportedBy s' "p.m.f") := by
  decide +kernel

/-! ### 6. the packages phase only adds to the re-export map -/

/-- distinct keys; distinct module ids inside every module list -/
abbrev RmWf := p08_RmWf

/-- `RmEquiv rm rm'`: every key has the same module set in both maps (the lists are equal up to
    order; a missing key counts as the empty set).  The order of the KEYS is not constrained. -/
abbrev RmEquiv := p08_RmEquiv

/-- `_add_reexports` for two different `__init__` modules commutes up to `RmEquiv`, and keeps the
    map well-formed.  What does NOT commute is the order of the keys: a new key is appended when it
    is first met (see the example below). -/
theorem reexport_map_add_commutes (api : AnaResult) (m1 m2 : Module) (hne : m1.id ≠ m2.id)
    (w : RmWf api.reexportMap) :
    RmEquiv (addReexports (addReexports api m1) m2).reexportMap (addReexports (addReexports api m2) m1).reexportMap
    ∧ RmWf (addReexports (addReexports api m1) m2).reexportMap
    ∧ RmWf (addReexports (addReexports api m2) m1).reexportMap :=
  ⟨p08_addReexports_comm api m1 m2 hne, p08_wf_addReexports _ _ (p08_wf_addReexports _ _ w),
    p08_wf_addReexports _ _ (p08_wf_addReexports _ _ w)⟩

/-- every map the packages phase can build (from the empty map, in any order) is well-formed -/
theorem reexport_map_wf (ms : List Module) : RmWf (ms.foldl addReexports {}).reexportMap := by
  have : ∀ (api : AnaResult), RmWf api.reexportMap → RmWf (ms.foldl addReexports api).reexportMap := by
    induction ms with
    | nil => intro api w; exact w
    | cons m ms ih => intro api w; exact ih _ (p08_wf_addReexports api m w)
  exact this {} p08_wf_nil

/-- adding is idempotent -/
theorem reexport_map_add_idempotent (api : AnaResult) (m : Module) :
    RmEquiv (addReexports (addReexports api m) m).reexportMap (addReexports api m).reexportMap :=
  p08_addReexports_idem api m

/-- adding respects the equivalence (so any two analysis orders of the packages give equivalent maps) -/
theorem reexport_map_add_congr {api api' : AnaResult} (h : RmEquiv api.reexportMap api'.reexportMap) (m : Module) :
    RmEquiv (addReexports api m).reexportMap (addReexports api' m).reexportMap :=
  p08_addReexports_congr h m

/-- the contents of the map after `_add_reexports(m)`, key by key -/
theorem reexport_map_add_lookup (api : AnaResult) (m : Module) (k : String) :
    p08_lookD (addReexports api m).reexportMap k =
      if k ∈ m.qualifiedImports.map (·.qualifiedName) ++ m.wildcardImports.map (· ++ ".*")
      then addToSetById (p08_lookD api.reexportMap k) m.ref else p08_lookD api.reexportMap k :=
  p08_lookD_addReexports api m k

/-- the KEY order does depend on the order in which the packages are analysed -/
example :
    let m1 : Module := { id := "p/a", name := "__init__", qualifiedImports := [⟨"p.a.x.f", none⟩] }
    let m2 : Module := { id := "p/b", name := "__init__", qualifiedImports := [⟨"p.b.y.g", none⟩] }
    (addReexports (addReexports {} m1) m2).reexportMap ≠ (addReexports (addReexports {} m2) m1).reexportMap := by
  decide +kernel

/-- equivalent well-formed maps hold the same `(key, module)` pairs -/
theorem RmEquiv_pairs {rm rm' : List (String × List ModRef)} (h : RmEquiv rm rm') (w : RmWf rm) (w' : RmWf rm')
    (k : String) (m : ModRef) : PairMem rm k m ↔ PairMem rm' k m :=
  h.pairMem w.keys w'.keys k m

/-- maps related by `RmPerm` are equivalent -/
theorem RmPerm_equiv {rm rm' : List (String × List ModRef)} (w : RmWf rm) (h : RmPerm rm rm') :
    RmEquiv rm rm' ∧ RmWf rm' :=
  h.equiv w

/-- Everything the later phases compute from the map is invariant under `RmEquiv`:
    (item 2) the shortest public re-export, -/
theorem RmEquiv_shortestPublicReexport {rm rm' : List (String × List ModRef)} (h : RmEquiv rm rm')
    (w : RmWf rm) (w' : RmWf rm') (name qname : String) (isModule : Bool) :
    shortestPublicReexport rm name qname isModule = shortestPublicReexport rm' name qname isModule :=
  p08_shortest_congr (RmEquiv_pairs h w w') name qname isModule

/-- (item 5) the sorted `reexported_by` list, -/
theorem RmEquiv_reexportedBy (s s' : VSt) (h : RmEquiv s.api.reexportMap s'.api.reexportMap)
    (w : RmWf s.api.reexportMap) (qname : String) :
    sortModRefs (getReexportedBy s qname) = sortModRefs (getReexportedBy s' qname) := by
  rw [p08_getReexportedBy_eq, p08_getReexportedBy_eq]
  exact p08_sorted_grb_congr (p08_lookD_ids_nodup w.ids) h qname

/-- `_check_publicity_in_reexports` (an `any` over keys and modules), -/
theorem RmEquiv_checkPublicity (s s' : VSt) (hf : s.fileFullname = s'.fileFullname) (hn : s.fileName = s'.fileName)
    (h : RmEquiv s.api.reexportMap s'.api.reexportMap)
    (w : RmWf s.api.reexportMap) (w' : RmWf s'.api.reexportMap) (name qname : String) (parentOk : Bool) :
    checkPublicityInReexports s name qname parentOk = checkPublicityInReexports s' name qname parentOk :=
  p08_checkPublicity_congr hf hn (RmEquiv_pairs h w w') name qname parentOk

/-- and `_is_path_connected_to_class` (an `any`). -/
theorem RmEquiv_isPathConnectedToClass {rm rm' : List (String × List ModRef)} (h : RmEquiv rm rm')
    (w : RmWf rm) (w' : RmWf rm') (path classPath : String) :
    isPathConnectedToClass rm path classPath = isPathConnectedToClass rm' path classPath :=
  p08_isPathConnectedToClass_congr (RmEquiv_pairs h w w') path classPath

/-! ### 7. discovery -/

/-- `root.glob("./**/*.py")` enumeration order: the kept files and the package directories are
    permuted along (the loop is an order-preserving filter), the `ValueError` for "no files" does
    not depend on it, and `_get_mypy_asts` uses both lists as sets only — so the selected ASTs, in
    mypy's graph order (an input outside the model), are the same. -/
theorem discovery_enumeration_order (isTestRun : Bool) {files files' : List PathParts} (h : files ~ files') :
    (discoverLoop isTestRun files).walkable ~ (discoverLoop isTestRun files').walkable ∧
    (discoverLoop isTestRun files).packages ~ (discoverLoop isTestRun files').packages ∧
    ∀ graph, selectAsts graph (discoverLoop isTestRun files) = selectAsts graph (discoverLoop isTestRun files') := by
  obtain ⟨h1, h2⟩ := p08_discoverLoop_perm isTestRun h
  exact ⟨h1, h2, fun graph => p08_selectAsts_congr graph (fun _ => h1.mem_iff) (fun _ => h2.mem_iff)⟩

/-- `selectAsts graph d` depends on `d` only through the member sets -/
theorem selectAsts_sets (graph : List String) {d d' : Discovered}
    (hw : ∀ p, p ∈ d.walkable ↔ p ∈ d'.walkable) (hp : ∀ p, p ∈ d.packages ↔ p ∈ d'.packages) :
    selectAsts graph d = selectAsts graph d' :=
  p08_selectAsts_congr graph hw hp

/-- `discover` raises for one enumeration order iff it raises for the other -/
theorem discover_enumeration_order (isTestRun : Bool) {files files' : List PathParts} (h : files ~ files') :
    (∃ e, discover files isTestRun = .error e ∧ discover files' isTestRun = .error e) ∨
    (∃ d d', discover files isTestRun = .ok d ∧ discover files' isTestRun = .ok d' ∧
        d.walkable ~ d'.walkable ∧ d.packages ~ d'.packages) :=
  p08_discover_perm isTestRun h

/-- the same for `get_api`'s whole discovery step, including the replacement of the root by the unique
    topmost package directory (`_get_nearest_init_dirs`): same root, same error, permuted lists -/
theorem discoverFrom_enumeration_order (root : PathParts) (isTestRun : Bool) {files files' : List PathParts}
    (h : files ~ files') :
    (∃ e, discoverFrom root files isTestRun = .error e ∧ discoverFrom root files' isTestRun = .error e) ∨
    (∃ r d d', discoverFrom root files isTestRun = .ok (r, d) ∧ discoverFrom root files' isTestRun = .ok (r, d') ∧
        d.walkable ~ d'.walkable ∧ d.packages ~ d'.packages) :=
  p08_discoverFrom_perm root isTestRun h

/-! ### 8. the former scope exclusions are theorems now

After the repairs (`for alias_qname in sorted(qnames)`; the inferred types collected in an
insertion-ordered dict; `elements.sort(key=lambda x: (x.name, x.id))`) no order of a Python `set` is
left that reaches the output.  The situations that used to be excluded (`FindAliasTie`,
`FindAliasNoHit`, `InferTie`) are kept as definitions: they describe inputs on which the result is now
DETERMINED by a rule (first hit in sorted order / last name in sorted order / source order), and the
examples below are positive. -/

/-- the alias table with every candidate list permuted (`dict[str, set[str]]`: same keys, the
    iteration order of each value set is free) -/
abbrev AliasesPerm := p08_AliasesPerm

/-- The loop `for alias_qname in sorted(qnames)`: whatever the loop body and the start value, the
    result is the same for every iteration order of the candidate set. -/
theorem findAlias_loop_perm {β : Type} (step : β → String → β) (init : β) {qs qs' : List String}
    (h : qs ~ qs') : (sortStrings qs).foldl step init = (sortStrings qs').foldl step init :=
  p08_sorted_foldl_perm step init h

/-- `_find_alias` gives the same answer for every iteration order of `aliases[typeName]` — with NO
    side condition, and for EVERY known qualified name `k` the caller passes (`known_qname`; the
    default `""` gives the three-argument statement).  (A single candidate is returned directly; a
    permutation of a singleton is the same singleton and permutations keep the length, so both sides
    take the same branch; with a non-empty `known_qname` the candidates are not consulted at all, so
    the invariance is trivial in that branch.) -/
theorem findAlias_perm (env env' : AEnv) (s : VSt) (typeName : String) {qs qs' : List String}
    (h1 : assocGet? env.aliases typeName = some qs) (h2 : assocGet? env'.aliases typeName = some qs')
    (h : qs ~ qs') (k : String := "") :
    findAlias env s typeName k = findAlias env' s typeName k :=
  p08_findAlias_perm env env' s typeName h1 h2 h k

/-- … and for two environments whose alias tables differ by the iteration order of every candidate
    set, for every looked-up name (`findAlias` reads nothing else of the environment). -/
theorem findAlias_perm_all (env env' : AEnv) (s : VSt) (typeName : String)
    (h : AliasesPerm env.aliases env'.aliases) (k : String := "") :
    findAlias env s typeName k = findAlias env' s typeName k :=
  p08_findAlias_perm_all env env' s typeName h k

/-- The known qualified name wins.  If the name has no hit in the qualified imports of the current
    module and the qualified name `k` the caller already knows (`enterClassdef`: the superclass's full
    name, when mypy resolved it to a class definition) is not empty, then `_find_alias` returns `k`
    (with its last dotted component as the name) — whatever `aliases[typeName]` is: neither the
    candidates nor the sorted loop with its substring heuristic are consulted. -/
theorem findAlias_known (env : AEnv) (s : VSt) (typeName k : String) {m : Module}
    (hm : bottomModule s = some m)
    (himp : ((searchAliasInImports m.qualifiedImports typeName).1 != "" &&
      (searchAliasInImports m.qualifiedImports typeName).2 != "") = false)
    (hk : k ≠ "") :
    findAlias env s typeName k = .ok (lastD "" (splitDot k), k) :=
  p08_findAlias_known env s typeName k hm himp hk

/-- (i) FORMERLY EXCLUDED, now decided by the sorted order: the name is defined in several modules
    (`aliases[name]` has ≥ 2 qualified names) and more than one of them has a module path that
    contains the current module's full name as a substring.  The loop `break`s at the first hit in
    SORTED order. -/
def FindAliasTie (env : AEnv) (s : VSt) (typeName : String) : Prop :=
  ∃ qs, assocGet? env.aliases typeName = some qs ∧
    2 ≤ (qs.filter fun aq => pyIn s.fileFullname (joinWith "." (dropLast' (splitDot aq)))).length

/-- (i') FORMERLY EXCLUDED, now decided by the sorted order: none of the candidates matches and
    they do not all end in the same name: the loop leaves the name of the LAST candidate in SORTED
    order (with the qualified name found before the loop). -/
def FindAliasNoHit (env : AEnv) (s : VSt) (typeName : String) : Prop :=
  ∃ qs, assocGet? env.aliases typeName = some qs ∧ 2 ≤ qs.length ∧
    (qs.all fun aq => !pyIn s.fileFullname (joinWith "." (dropLast' (splitDot aq)))) ∧
    ∃ a ∈ qs, ∃ b ∈ qs, lastD "" (splitDot a) ≠ lastD "" (splitDot b)

/-- (ii) NO LONGER AN EXCLUSION — order = source order.  `_infer_type_from_return_stmts` sorts the
    inferred types by a key (the name of a named type, the length of a tuple) that does not separate
    all types; the sort is stable, so types with equal keys keep the order in which they were
    collected.  The Python code now collects them in an insertion-ordered dict, i.e. in the order of
    their first occurrence in the SOURCE TEXT — exactly what the model's `inferFromReturns` computes
    (first-occurrence order, then a stable sort by `inferSortKey`).  The member order of the result
    is therefore a function of the source, and no `set` order is involved.  `InferTie` only describes
    when the stable sort leaves something to the source order. -/
def InferTie (types : List AType) : Prop :=
  ∃ a ∈ types, ∃ b ∈ types, a.pyEq b = false ∧ inferSortKey a = inferSortKey b

/-- The scope condition of C08 on the model side is EMPTY: no exclusion is left.  (Formerly: no
    `FindAliasTie`/`FindAliasNoHit` for any alias lookup and no `InferTie` for any inferred return
    set.  `findAlias_perm` needs no hypothesis any more, and the order of the inferred types is the
    source order, which is part of the input.)  Kept, with its old signature, so that statements
    mentioning the scope stay well-formed. -/
def NoTies (_env : AEnv) (_s : VSt) (_typeNames : List String) (_inferred : List (List AType)) : Prop := True

theorem noTies_trivial (env : AEnv) (s : VSt) (typeNames : List String) (inferred : List (List AType)) :
    NoTies env s typeNames inferred := trivial

/-- the old statement, kept: its two tie hypotheses are not needed any more (see `findAlias_perm`) -/
theorem findAlias_noTies (env env' : AEnv) (s : VSt) (typeName : String) {qs qs' : List String}
    (h1 : assocGet? env.aliases typeName = some qs) (h2 : assocGet? env'.aliases typeName = some qs')
    (h : qs ~ qs') (_hTie : ¬ FindAliasTie env s typeName) (_hNoHit : ¬ FindAliasNoHit env s typeName)
    (k : String := "") :
    findAlias env s typeName k = findAlias env' s typeName k :=
  findAlias_perm env env' s typeName h1 h2 h k

/-- The sort step alone, as a statement about an arbitrary enumeration of a SET of types (pairwise
    different) without two members of equal sort key: every enumeration gives the same list.  (In the
    model and in the repaired Python code the input of the sort is not a set but the source-ordered
    list, so this is no longer needed for determinism; it says when the result does not even depend on
    the order of the `return` statements.) -/
theorem inferSort_noTies {types types' : List AType}
    (hset : types.Pairwise (fun a b => a.pyEq b = false)) (hno : ¬ InferTie types) (h : types ~ types') :
    sortBy (fun a b => strLe (inferSortKey a) (inferSortKey b)) types
      = sortBy (fun a b => strLe (inferSortKey a) (inferSortKey b)) types' :=
  p08_infer_sort_perm hset (fun a ha b hb hp e => hno ⟨a, ha, b, hb, hp, e⟩) h

/-- The re-exported elements of one module are sorted by `(name, id)`
    (`elements.sort(key=lambda x: (x.name, x.id))`, `nodeLe`): as soon as `(name, id)` identifies an
    element, the sorted list is the same for every order in which the elements were queued. -/
theorem reexport_elements_order {l l' : List Node} (h : l ~ l')
    (hinj : ∀ a ∈ l, ∀ b ∈ l, a.name = b.name → a.id = b.id → a = b) :
    sortBy nodeLe l = sortBy nodeLe l' :=
  p08_sortBy_nodeLe_perm h hinj

/-- without the hypothesis: the sequence of `(name, id)` pairs of the sorted list is determined -/
theorem reexport_elements_order_key {l l' : List Node} (h : l ~ l') :
    (sortBy nodeLe l).map (fun n => (n.name, n.id)) = (sortBy nodeLe l').map (fun n => (n.name, n.id)) :=
  p08_sortBy_nodeLe_perm_key h

/-- consequence for `create_reexport_module_strings`: the whole computation (stubs, final state,
    error) for a re-export module is the same for both orders of its element list -/
theorem reexport_modules_order (env : Env) (moduleId : String) {l l' : List Node}
    (rest : List (String × List Node)) (h : l ~ l')
    (hinj : ∀ a ∈ l, ∀ b ∈ l, a.name = b.name → a.id = b.id → a = b) :
    createReexportModules env ((moduleId, l) :: rest) = createReexportModules env ((moduleId, l') :: rest) :=
  p08_createReexportModules_perm env moduleId rest h hinj

def exVSt : VSt :=
  { doc := { root := { name := "pkg" }, style := .numpy },
    stack := [.module { id := "pkg/mod", name := "mod" }], fileFullname := "pkg.mod", fileName := "mod" }

def exEnv (qs : List String) : AEnv := { opts := {}, aliases := [("T", qs)], infoBases := [] }

/-- (i) two iteration orders of `aliases["T"]`, both candidates match: ONE answer, the first in sorted order -/
example :
    findAlias (exEnv ["pkg.mod.a.T", "pkg.mod.b.T"]) exVSt "T" = .ok ("T", "pkg.mod.a.T") ∧
    findAlias (exEnv ["pkg.mod.b.T", "pkg.mod.a.T"]) exVSt "T" = .ok ("T", "pkg.mod.a.T") := by
  decide +kernel

/-- the situation is the formerly excluded one, in both orders -/
example : FindAliasTie (exEnv ["pkg.mod.a.T", "pkg.mod.b.T"]) exVSt "T" ∧
    FindAliasTie (exEnv ["pkg.mod.b.T", "pkg.mod.a.T"]) exVSt "T" :=
  ⟨⟨_, rfl, by decide +kernel⟩, ⟨_, rfl, by decide +kernel⟩⟩

/-- … and the theorem applies to it -/
example : findAlias (exEnv ["pkg.mod.a.T", "pkg.mod.b.T"]) exVSt "T" = findAlias (exEnv ["pkg.mod.b.T", "pkg.mod.a.T"]) exVSt "T" :=
  findAlias_perm _ _ exVSt "T" rfl rfl (List.Perm.swap _ _ _)

/-- (i') no candidate matches: ONE answer, the last one in sorted order names the result -/
example :
    findAlias (exEnv ["x.a.T", "y.b.U"]) exVSt "T" = .ok ("U", "") ∧
    findAlias (exEnv ["y.b.U", "x.a.T"]) exVSt "T" = .ok ("U", "") := by
  decide +kernel

example : FindAliasNoHit (exEnv ["x.a.T", "y.b.U"]) exVSt "T" ∧ FindAliasNoHit (exEnv ["y.b.U", "x.a.T"]) exVSt "T" :=
  ⟨⟨_, rfl, by decide +kernel, by decide +kernel, "x.a.T", by decide +kernel, "y.b.U", by decide +kernel, by decide +kernel⟩,
   ⟨_, rfl, by decide +kernel, by decide +kernel, "x.a.T", by decide +kernel, "y.b.U", by decide +kernel, by decide +kernel⟩⟩

example : findAlias (exEnv ["x.a.T", "y.b.U"]) exVSt "T" = findAlias (exEnv ["y.b.U", "x.a.T"]) exVSt "T" :=
  findAlias_perm_all (exEnv ["x.a.T", "y.b.U"]) (exEnv ["y.b.U", "x.a.T"]) exVSt "T"
    (List.Forall₂.cons ⟨rfl, List.Perm.swap _ _ _⟩ List.Forall₂.nil)

/-- the special case of a single candidate: returned as it is, whether or not it matches -/
example : findAlias (exEnv ["x.a.T"]) exVSt "T" = .ok ("T", "x.a.T") := by decide +kernel

def exVStM : VSt :=
  { doc := { root := { name := "pkg" }, style := .numpy },
    stack := [.module { id := "pkg/m", name := "m" }], fileFullname := "pkg.m", fileName := "m" }

def exEnvTable (qs : List String) : AEnv := { opts := {}, aliases := [("Table", qs)], infoBases := [] }

/-- the known qualified name wins: both candidates contain the module name `pkg.m`; with the known
    name `pkg.m.Table` (what mypy resolved) the answer is that one, in both iteration orders, whereas
    with the default `""` the sorted loop stops at `pkg.m.A.Table` (`'A' < 'T'`) -/
example :
    findAlias (exEnvTable ["pkg.m.A.Table", "pkg.m.Table"]) exVStM "Table" "pkg.m.Table" = .ok ("Table", "pkg.m.Table") ∧
    findAlias (exEnvTable ["pkg.m.Table", "pkg.m.A.Table"]) exVStM "Table" "pkg.m.Table" = .ok ("Table", "pkg.m.Table") ∧
    findAlias (exEnvTable ["pkg.m.A.Table", "pkg.m.Table"]) exVStM "Table" = .ok ("Table", "pkg.m.A.Table") ∧
    findAlias (exEnvTable ["pkg.m.Table", "pkg.m.A.Table"]) exVStM "Table" = .ok ("Table", "pkg.m.A.Table") := by
  decide +kernel

/-- … the same by the theorem (its hypotheses hold here) -/
example : findAlias (exEnvTable ["pkg.m.A.Table", "pkg.m.Table"]) exVStM "Table" "pkg.m.Table" = .ok ("Table", "pkg.m.Table") :=
  findAlias_known _ exVStM "Table" "pkg.m.Table" (m := { id := "pkg/m", name := "m" }) rfl (by decide +kernel)
    (by decide)

/-- ONLY the nested class is a candidate (the module-level `Table` is not in the alias table): the
    known name `pkg.m.Table` is returned all the same; with the default `""` the single candidate is -/
example :
    findAlias (exEnvTable ["pkg.m.A.Table"]) exVStM "Table" "pkg.m.Table" = .ok ("Table", "pkg.m.Table") ∧
    findAlias (exEnvTable ["pkg.m.A.Table"]) exVStM "Table" = .ok ("Table", "pkg.m.A.Table") := by
  decide +kernel

/-- … and the permutation theorem with a known name -/
example : findAlias (exEnvTable ["pkg.m.A.Table", "pkg.m.Table"]) exVStM "Table" "pkg.m.Table" =
    findAlias (exEnvTable ["pkg.m.Table", "pkg.m.A.Table"]) exVStM "Table" "pkg.m.Table" :=
  findAlias_perm _ _ exVStM "Table" rfl rfl (List.Perm.swap _ _ _) "pkg.m.Table"

/-- a known name that is NOT among the candidates is returned as well (the candidates are not consulted) -/
example : findAlias (exEnvTable ["pkg.m.A.Table", "pkg.m.Table"]) exVStM "Table" "other.Table" = .ok ("Table", "other.Table") := by
  decide +kernel

def exTupInt : Expr := .tuple [.int 1, .int 2]
def exTupStr : Expr := .tuple [.str "a", .str "b"]

/-- what is observed: the members of the inferred result, as structural equality with an expected list
    (`TupleType.__eq__`/`__hash__` are order-insensitive, so `pyEq`/`hashKey` cannot see the member order;
    `to_dict` — the API JSON — does) -/
def inferIs (r : Except PyErr (Option AType)) (expected : List AType) : Bool :=
  match r with
  | .ok (some (.tuple ts)) => AType.beqL ts expected
  | _ => false

def exTInt : AType := .tuple [.named "int" "builtins.int", .named "int" "builtins.int"]
def exTStr : AType := .tuple [.named "str" "builtins.str", .named "str" "builtins.str"]

/-- (ii) order = source order: two tuples of the same length keep the order of their `return`
    statements (the sort is stable); swapping the statements in the SOURCE swaps the members — a
    different input, not a non-determinism -/
example :
    inferIs (inferFromReturns [.ret (some exTupInt), .ret (some exTupStr)]) [exTInt, exTStr] = true ∧
    inferIs (inferFromReturns [.ret (some exTupStr), .ret (some exTupInt)]) [exTStr, exTInt] = true ∧
    AType.beqL [exTInt, exTStr] [exTStr, exTInt] = false := by
  decide +kernel

example : InferTie [exTInt, exTStr] :=
  ⟨_, List.mem_cons_self, _, List.mem_cons_of_mem _ List.mem_cons_self, by decide +kernel, by decide +kernel⟩

def exFn (id name : String) : Node := .fn { id := id, name := name, isPublic := true }

/-- re-exported elements: same name from two modules — the id decides, whatever the queue order;
    the raw lists differ -/
example :
    [exFn "pkg/b/f" "f", exFn "pkg/a/f" "f", exFn "pkg/a/e" "e"].map Node.id ≠
      [exFn "pkg/a/e" "e", exFn "pkg/a/f" "f", exFn "pkg/b/f" "f"].map Node.id ∧
    (sortBy nodeLe [exFn "pkg/b/f" "f", exFn "pkg/a/f" "f", exFn "pkg/a/e" "e"]).map Node.id = ["pkg/a/e", "pkg/a/f", "pkg/b/f"] ∧
    (sortBy nodeLe [exFn "pkg/a/f" "f", exFn "pkg/a/e" "e", exFn "pkg/b/f" "f"]).map Node.id = ["pkg/a/e", "pkg/a/f", "pkg/b/f"] := by
  decide +kernel

/-- the hypothesis of `reexport_elements_order` is needed: two different nodes with one `(name, id)`
    keep their queue order (stable sort) -/
example :
    let a : Node := .fn { id := "p/f", name := "f", isPublic := true }
    let b : Node := .fn { id := "p/f", name := "f", isPublic := false }
    (sortBy nodeLe [a, b]).map (fun n => match n with | .fn f => f.isPublic | _ => false) = [true, false] ∧
    (sortBy nodeLe [b, a]).map (fun n => match n with | .fn f => f.isPublic | _ => false) = [false, true] := by
  decide +kernel

/-! ### 9. non-vacuity -/

def exA : ModRef := { id := "pkg/a", qualifiedImports := [⟨"pkg.mod.f", none⟩] }
def exB : ModRef := { id := "pkg/b", qualifiedImports := [⟨"pkg.mod.f", some "g"⟩] }
def exC : ModRef := { id := "pkg/sub/c", wildcardImports := ["pkg.mod"] }

def exRm1 : List (String × List ModRef) := [("pkg.mod.f", [exB, exA]), ("pkg.mod.*", [exC])]
def exRm2 : List (String × List ModRef) := [("pkg.mod.*", [exC]), ("pkg.mod.f", [exA, exB])]

theorem exRm_perm : RmPerm exRm1 exRm2 :=
  ⟨[("pkg.mod.f", [exA, exB]), ("pkg.mod.*", [exC])],
    List.Forall₂.cons ⟨rfl, List.Perm.swap _ _ _⟩ (List.Forall₂.cons ⟨rfl, Perm.refl _⟩ List.Forall₂.nil),
    List.Perm.swap _ _ _⟩

/-- item 2: a tie between `pkg/a` and `pkg/b` (two segments each; `pkg/sub/c` is longer): the sorted
    order decides, whatever the set order — and the two maps really differ -/
example :
    exRm1 ≠ exRm2 ∧
    shortestPublicReexport exRm1 "f" "pkg.mod.f" false = ("pkg.a", "") ∧
    shortestPublicReexport exRm2 "f" "pkg.mod.f" false = ("pkg.a", "") := by
  decide +kernel

example : shortestPublicReexport exRm1 "f" "pkg.mod.f" false = shortestPublicReexport exRm2 "f" "pkg.mod.f" false :=
  shortestPublicReexport_perm exRm_perm _ _ _

def exS (rm : List (String × List ModRef)) : VSt :=
  { doc := { root := { name := "pkg" }, style := .numpy }, api := { reexportMap := rm } }

/-- item 5: the raw lists differ, the sorted ones agree -/
example :
    getReexportedBy (exS exRm1) "pkg.mod.f" ≠ getReexportedBy (exS [("pkg.mod.f", [exA, exB]), ("pkg.mod.*", [exC])]) "pkg.mod.f" ∧
    sortModRefs (getReexportedBy (exS exRm1) "pkg.mod.f") = [exA, exB, exC] ∧
    sortModRefs (getReexportedBy (exS [("pkg.mod.f", [exA, exB]), ("pkg.mod.*", [exC])]) "pkg.mod.f") = [exA, exB, exC] := by
  decide +kernel

example : RmWf exRm1 := ⟨by decide +kernel, by decide +kernel⟩

/-- item 6 on a concrete pair of `__init__` modules that share a key -/
example :
    let m1 : Module := { id := "p/a", name := "__init__", qualifiedImports := [⟨"p.x.f", none⟩] }
    let m2 : Module := { id := "p/b", name := "__init__", qualifiedImports := [⟨"p.x.f", some "g"⟩] }
    (addReexports (addReexports {} m1) m2).reexportMap = [("p.x.f", [m1.ref, m2.ref])] ∧
    (addReexports (addReexports {} m2) m1).reexportMap = [("p.x.f", [m2.ref, m1.ref])] := by
  decide +kernel

end StubGen.C08
