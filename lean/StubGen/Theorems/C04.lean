/-
C04 — "No declaration that is private by Python convention … appears in any stub file, unless a package
`__init__` re-exports it under a public name."  GENERATOR side, on the emission log: the generator decides
by the `isPublic` flags of the API model (the re-export exemption is the analyser's business: it is what
sets `isPublic`).  Exact logs: `StubGen.C03`; machinery: `StubGen.Proofs.Emission`.

Findings stated as they are:
* K04-private-enum — `createModuleString` emits EVERY enum; `Enum` has no `isPublic` field at all, so an enum
  named `_E` is emitted (`private_enum_is_logged`).
* inside an INLINED private base the filter is by NAME, not by flag: a method is dropped only if it is
  private AND its name starts with `_`; inner classes are kept iff their name does not start with `_`
  (`inlined_methods_rule`, see `C03.internalLog_eq`).
-/
import StubGen.Proofs.Emission

namespace StubGen.C04

open StubGen

/-- every entry `createFunctions` logs is `fun`/`moved` of a PUBLIC function of the list; a function with
    `isPublic = false` leaves no entry -/
theorem private_function_not_logged (env : Env) (inRe : Bool) (fs : List Function) (st st' : St) (text : String)
    (h : createFunctions env inRe fs st = .ok (text, st')) :
    ∃ Δ, st'.log = st.log ++ Δ ∧
      ∀ e ∈ Δ, ∃ f ∈ fs, f.isPublic = true ∧ e.2 = f.id ∧ (e.1 = "fun" ∨ e.1 = "moved") := by
  refine ⟨_, (n03_createFunctions_tr env inRe fs st text st' h).log, ?_⟩
  intro e he
  rw [n03_functionsLog_eq_map, List.mem_map] at he
  obtain ⟨f, hf, rfl⟩ := he
  obtain ⟨hf1, hf2⟩ := List.mem_filter.1 hf
  refine ⟨f, hf1, by simpa using hf2, rfl, ?_⟩
  dsimp only
  split
  · exact Or.inr rfl
  · exact Or.inl rfl

/-- the top-level entries `createClasses` logs are `class`/`moved` of classes with `isPublic` that do not
    derive from an exception; a private class leaves no top-level entry -/
theorem private_class_not_logged (env : Env) (inRe : Bool) (cs : List Class) (st st' : St) (text : String)
    (h : createClasses env inRe cs st = .ok (text, st')) :
    ∃ Δ, st'.log = st.log ++ Δ ∧
      ∀ e ∈ n03_top 0 Δ, ∃ c ∈ cs, c.isPublic = true ∧ c.inheritsFromException = false ∧ e.2 = c.id ∧
        (e.1 = "class" ∨ e.1 = "moved") := by
  refine ⟨_, (n03_createClasses_tr env inRe cs st text st' h).log, ?_⟩
  intro e he
  rw [n03_top_classesLog, List.mem_map] at he
  obtain ⟨c, hc, rfl⟩ := he
  obtain ⟨hc1, hc2⟩ := List.mem_filter.1 hc
  have : c.isPublic = true ∧ c.inheritsFromException = false := by simpa [n03_clsShown] using hc2
  refine ⟨c, hc1, this.1, this.2, rfl, ?_⟩
  dsimp only
  split
  · exact Or.inr rfl
  · exact Or.inl rfl

/-- module level: seen from the top, a module stub consists of its public functions, its public
    non-exception classes and its enums — nothing else -/
theorem module_top_level (env : Env) (m : Module) (st st' : St) (r : String × String)
    (h : createModuleString env m st = .ok (r, st')) :
    ∃ Δ, st'.log = st.log ++ Δ ∧
      n03_top 0 Δ =
        ((m.functions.filter (·.isPublic)).map fun f =>
          (if n03_movedB (getModuleId st) false (n03_modInRe env m) f.reexportedBy then "moved" else "fun", f.id))
        ++ ((m.classes.filter fun c => c.isPublic && !c.inheritsFromException).map fun c =>
          (if n03_movedB (getModuleId st) false (n03_modInRe env m) c.reexportedBy then "moved" else "class", c.id))
        ++ m.enums.map fun e => ("enum", e.id) := by
  refine ⟨_, (n03_createModuleString_tr env m st r st' h).log, ?_⟩
  have hleaf : ∀ (l : List LogEntry), (∀ e ∈ l, e.1 ≠ "class" ∧ e.1 ≠ "endclass") → n03_top 0 l = l := by
    intro l hl
    induction l with
    | nil => rfl
    | cons e es ih =>
      rw [n03_top, if_neg (hl e (by simp)).1, if_neg (hl e (by simp)).2, if_pos rfl,
        ih fun e' he' => hl e' (by simp [he'])]
  have hf : ∀ e ∈ n03_functionsLog (getModuleId st) (n03_modInRe env m) m.functions,
      e.1 ≠ "class" ∧ e.1 ≠ "endclass" := by
    intro e he
    rw [n03_functionsLog_eq_map, List.mem_map] at he
    obtain ⟨f, _, rfl⟩ := he
    dsimp only
    split
    · exact ⟨by decide, by decide⟩
    · exact ⟨by decide, by decide⟩
  have he : ∀ e ∈ m.enums.map (fun e => (("enum", e.id) : LogEntry)), e.1 ≠ "class" ∧ e.1 ≠ "endclass" := by
    intro e he
    rw [List.mem_map] at he
    obtain ⟨x, _, rfl⟩ := he
    exact ⟨by show "enum" ≠ "class"; decide, by show "enum" ≠ "endclass"; decide⟩
  have hcb : n03_Bal (n03_classesLog env (getModuleId st) (n03_modInRe env m) m.classes) := by
    unfold n03_classesLog
    apply n03_Bal.flatMap
    intro c _
    unfold n03_clsLog
    split
    · exact n03_Bal.leaf _ _ (by show "moved" ≠ "class"; decide) (by show "moved" ≠ "endclass"; decide) n03_Bal.nil
    · exact (n03_classLog_bal env _).1 c
  rw [n03_moduleLog, List.append_assoc, n03_top_bal_zero (n03_Bal.leaves _ hf), n03_top_bal_zero hcb,
    hleaf _ hf, hleaf _ he, n03_top_classesLog, n03_functionsLog_eq_map, List.append_assoc]
  rfl

/-- class level: every `attr` entry belongs to a public attribute (whose type is not a bare type variable) -/
theorem private_attribute_not_logged (env : Env) (inner : String) (as : List Attribute) (st st' : St)
    (r : List String × List String) (h : createAttributes env inner as st = .ok (r, st')) :
    ∃ Δ, st'.log = st.log ++ Δ ∧ ∀ e ∈ Δ, ∃ a ∈ as, a.isPublic = true ∧ e = ("attr", a.id) := by
  refine ⟨_, (n03_createAttributes_tr env inner as st r st' h).2.2.log, ?_⟩
  intro e he
  simp only [n03_attrLog, List.mem_map] at he
  obtain ⟨a, ha, rfl⟩ := he
  obtain ⟨h1, h2⟩ := List.mem_filter.1 ha
  have : a.isPublic = true ∧ isTypeVarType a.type = false := by simpa [n03_attrShown] using h2
  exact ⟨a, h1, this.1, rfl⟩

/-- class level, ordinary class: every `fun`/`prop` entry belongs to a public method -/
theorem private_method_not_logged (env : Env) (inner : String) (already : List String) (ms : List Function)
    (st st' : St) (r : List String × List String × List String)
    (h : createMethods env inner false already ms st = .ok (r, st')) :
    ∃ Δ, st'.log = st.log ++ Δ ∧
      ∀ e ∈ Δ, ∃ m ∈ ms, m.isPublic = true ∧ e = (if m.isProperty then "prop" else "fun", m.id) := by
  refine ⟨_, (n03_createMethods_tr env inner false already ms st r st' h).2.2.2.log, ?_⟩
  intro e he
  simp only [n03_methLog, List.mem_map] at he
  obtain ⟨m, hm, rfl⟩ := he
  obtain ⟨h1, h2⟩ := List.mem_filter.1 hm
  have hs : methodSkipped m false already = false := by simpa using h2
  refine ⟨m, h1, ?_, rfl⟩
  by_contra hp
  have : methodSkipped m false already = true :=
    (n03_methodSkipped_public m already).2 (Or.inl (by simpa using hp))
  rw [hs] at this
  cases this

/-- class level: only the PUBLIC inner classes of a class get a block (the class block is
    `C03.class_log_shape`; this is its inner-classes part, seen from the top) -/
theorem private_inner_class_not_logged (env : Env) (fuel : Nat) (cs : List Class) :
    n03_top 0 ((cs.filter (·.isPublic)).flatMap (n03_classLog env (fuel + 1))) =
      (cs.filter (·.isPublic)).map fun ic => ("class", ic.id) := by
  induction cs.filter (·.isPublic) with
  | nil => rfl
  | cons c cs ih =>
    rw [List.flatMap_cons, n03_top_bal_zero ((n03_classLog_bal env _).1 c), ih, n03_classLog_members,
      n03_top_block _ _ (n03_members_bal env fuel c)]
    rfl

/-- inlined private base: the rule is by name — a method is kept iff it is public or its name has no `_`
    prefix (and its name is not yet defined) -/
theorem inlined_methods_rule (m : Function) (already : List String) :
    methodSkipped m true already = false ↔
      ((m.isPublic = true ∨ isInternal m.name = false) ∧ m.name ∉ already) := by
  have := n03_methodSkipped_internal m already
  constructor
  · intro h
    rw [h] at this
    have h' : ¬ ((m.isPublic = false ∧ isInternal m.name = true) ∨ m.name ∈ already) := fun x => by
      have := this.2 x; cases this
    refine ⟨?_, fun hx => h' (Or.inr hx)⟩
    cases hp : m.isPublic
    · right
      cases hi : isInternal m.name
      · rfl
      · exact absurd (Or.inl ⟨hp, hi⟩) h'
    · exact Or.inl rfl
  · rintro ⟨h1, h2⟩
    cases hs : methodSkipped m true already
    · rfl
    · rcases this.1 hs with ⟨h3, h4⟩ | h3
      · rcases h1 with h1 | h1
        · rw [h3] at h1; cases h1
        · rw [h4] at h1; cases h1
      · exact absurd h3 h2

/-! ### K04-private-enum, kernel-checked -/

private def mEnum : Module :=
  { id := "pkg/mod", name := "mod", enums := [{ id := "pkg/mod/_E", name := "_E" }] }

/-- an enum with a `_` name is emitted (log and text) -/
theorem private_enum_is_logged :
    (match callGenerator ⟨{}, true⟩ mEnum {} with
      | .ok (r, st') => (r.1, st'.log)
      | .error _ => ("", [])) =
    ("package pkg.mod\n\nenum _E\n", [("module", "pkg/mod"), ("enum", "pkg/mod/_E")]) := by
  decide +kernel

/-- non-vacuity of the filters: a private function, a private class and an exception class leave no entry -/
private def mPriv : Module :=
  { id := "pkg/mod", name := "mod",
    functions := [{ id := "pkg/mod/_g", name := "_g", isPublic := false },
                  { id := "pkg/mod/f", name := "f", isPublic := true }],
    classes := [{ id := "pkg/mod/_P", name := "_P", isPublic := false },
                { id := "pkg/mod/MyError", name := "MyError", isPublic := true, inheritsFromException := true },
                { id := "pkg/mod/C", name := "C", isPublic := true,
                  attributes := [{ id := "pkg/mod/C/_a", name := "_a", isPublic := false, isStatic := false,
                                   type := none }],
                  methods := [{ id := "pkg/mod/C/_m", name := "_m", isPublic := false }],
                  classes := [{ id := "pkg/mod/C/_I", name := "_I", isPublic := false }] }] }

example :
    (match callGenerator ⟨{}, true⟩ mPriv {} with
      | .ok (_, st') => st'.log
      | .error _ => []) =
    [("module", "pkg/mod"), ("fun", "pkg/mod/f"), ("class", "pkg/mod/C"), ("endclass", "pkg/mod/C")] := by
  decide +kernel

end StubGen.C04
