/-
C06 (analyser side) — "… each parameter keeps its name, kind (positional-only, positional-or-keyword,
keyword-only, *args, **kwargs), default value (int, float, str, bool, None literals, negative numbers)
and optionality."

Property theorems about `argumentKind` (`get_argument_kind`), `defaultOf`
(`_get_parameter_type_and_default_value`: `mypy_expression_to_python_value` and the handling of
what it cannot read), `parseParameter` and `parseParameters` (`_parse_parameter_data`) of
`StubGen.Model.Analyze`.  Vocabulary and helper lemmas: `StubGen/Proofs/Inference.lean` (`u07_`):

* `u07_declaredType env a`       — the first block of `parseParameter`: the translated `variable.type`
                                   of an annotated parameter;
* `u07_defaultTriple fid a argT` — `(default, default_is_none, type)` after looking at the initializer;
* `u07_LitDefault e`             — `e` is a literal default (`1`, `1.5`, `"x"`, `None`, `True`, `False`, `-1`, `-1.5`).

Where things are decided.  IMPLICIT is decided in `argumentKind`, from the flags `is_self` / `is_cls`
of the argument's variable (NOT from the position of the parameter or the kind of the function).
The `*args → List<…>` / `**kwargs → Map<String, …>` wrapping is NOT done by the analyser: the
analyser stores the translated `variable.type` as it is; the wrapping is the generator's
(`createParameter`, C06 generator side).
-/
import StubGen.Proofs.Inference

namespace StubGen.C06a

open StubGen

/-! ### 7. the kind of a parameter -/

/-- (7) total decision table of `argumentKind` over `(is_self ∨ is_cls, kind, pos_only)`; `kind` is
    mypy's `ArgKind` value: 0 `ARG_POS`, 1 `ARG_OPT`, 2 `ARG_STAR`, 3 `ARG_NAMED`, 4 `ARG_STAR2`,
    5 `ARG_NAMED_OPT`.  The only error: a kind outside 0…5 (`ValueError`). -/
theorem argumentKind_table (a : Arg) :
    (a.isSelf = true ∨ a.isCls = true → argumentKind a = .ok .implicit) ∧
    (a.isSelf = false → a.isCls = false →
      ((a.kind = 0 ∨ a.kind = 1) → a.posOnly = true → argumentKind a = .ok .positionOnly) ∧
      ((a.kind = 0 ∨ a.kind = 1) → a.posOnly = false → argumentKind a = .ok .positionOrName) ∧
      (a.kind = 2 → argumentKind a = .ok .positionalVararg) ∧
      ((a.kind = 3 ∨ a.kind = 5) → argumentKind a = .ok .nameOnly) ∧
      (a.kind = 4 → argumentKind a = .ok .namedVararg) ∧
      (6 ≤ a.kind → argumentKind a = .error .valueError)) :=
  u07_argumentKind_cases a

/-- (7, the table is total) every mypy kind has an entry -/
theorem argumentKind_total (a : Arg) (h : a.kind ≤ 5) : ∃ k, argumentKind a = .ok k := by
  have T := argumentKind_table a
  cases hs : a.isSelf with
  | true => exact ⟨_, T.1 (.inl hs)⟩
  | false =>
    cases hc : a.isCls with
    | true => exact ⟨_, T.1 (.inr hc)⟩
    | false =>
      obtain ⟨t1, t2, t3, t4, t5, _⟩ := T.2 hs hc
      have hk : a.kind = 0 ∨ a.kind = 1 ∨ a.kind = 2 ∨ a.kind = 3 ∨ a.kind = 4 ∨ a.kind = 5 := by omega
      rcases hk with hk | hk | hk | hk | hk | hk
      · cases hp : a.posOnly with
        | true => exact ⟨_, t1 (.inl hk) hp⟩
        | false => exact ⟨_, t2 (.inl hk) hp⟩
      · cases hp : a.posOnly with
        | true => exact ⟨_, t1 (.inr hk) hp⟩
        | false => exact ⟨_, t2 (.inr hk) hp⟩
      · exact ⟨_, t3 hk⟩
      · exact ⟨_, t4 (.inl hk)⟩
      · exact ⟨_, t5 hk⟩
      · exact ⟨_, t4 (.inr hk)⟩

/-- (7, error case exactly) -/
theorem argumentKind_error_iff (a : Arg) (e : PyErr) :
    argumentKind a = .error e ↔ e = .valueError ∧ a.isSelf = false ∧ a.isCls = false ∧ 6 ≤ a.kind := by
  have T := argumentKind_table a
  constructor
  · intro h
    cases hs : a.isSelf with
    | true => rw [T.1 (.inl hs)] at h; cases h
    | false =>
      cases hc : a.isCls with
      | true => rw [T.1 (.inr hc)] at h; cases h
      | false =>
        by_cases hk : a.kind ≤ 5
        · obtain ⟨k, hk'⟩ := argumentKind_total a hk
          rw [hk'] at h; cases h
        · rw [(T.2 hs hc).2.2.2.2.2 (by omega)] at h
          cases h
          exact ⟨rfl, rfl, rfl, by omega⟩
  · rintro ⟨rfl, hs, hc, hk⟩
    exact (T.2 hs hc).2.2.2.2.2 hk

/-- (7) IMPLICIT iff the variable is flagged `is_self` or `is_cls` -/
theorem implicit_iff (a : Arg) : argumentKind a = .ok .implicit ↔ (a.isSelf = true ∨ a.isCls = true) := by
  have T := argumentKind_table a
  refine ⟨fun h => ?_, T.1⟩
  cases hs : a.isSelf with
  | true => exact .inl rfl
  | false =>
    cases hc : a.isCls with
    | true => exact .inr rfl
    | false =>
      exfalso
      obtain ⟨t1, t2, t3, t4, t5, t6⟩ := T.2 hs hc
      by_cases hk : a.kind ≤ 5
      · have hk : a.kind = 0 ∨ a.kind = 1 ∨ a.kind = 2 ∨ a.kind = 3 ∨ a.kind = 4 ∨ a.kind = 5 := by omega
        rcases hk with hk | hk | hk | hk | hk | hk
        · cases hp : a.posOnly with
          | true => rw [t1 (.inl hk) hp] at h; cases h
          | false => rw [t2 (.inl hk) hp] at h; cases h
        · cases hp : a.posOnly with
          | true => rw [t1 (.inr hk) hp] at h; cases h
          | false => rw [t2 (.inr hk) hp] at h; cases h
        · rw [t3 hk] at h; cases h
        · rw [t4 (.inl hk)] at h; cases h
        · rw [t5 hk] at h; cases h
        · rw [t4 (.inr hk)] at h; cases h
      · rw [t6 (by omega)] at h; cases h

/-! ### 8. default values -/

/-- the warning for a call as default value -/
def callWarning (fid : String) : String :=
  "Could not parse parameter type for function " ++ fid ++ ": Safe-DS does not support call expressions as types."

/-- a number text is "plain" if it carries no sign -/
def plain (txt : String) : Bool := !(pyStartsWith txt "-") && !(pyStartsWith txt "+")

/-- (8) `defaultOf fid e = (default value, "the default is None", warnings)`, form by form.
    Strings keep their text between double quotes; a float is its source text.
    A unary operator is understood on a non-negative int and an unsigned float only, with `-` and `+`;
    everything else under a unary operator is the marker `unknown` plus a warning.
    A name other than `None`/`True`/`False`, a tuple, a member access, a conditional expression and
    every `other` expression give NO default (`none`, not None): such a parameter is NOT optional
    (`defaultOf_unreadable`); a call additionally leaves a warning. -/
theorem defaultOf_spec (fid : String) :
    (∀ v, defaultOf fid (.int v) = (.int v, false, [])) ∧
    (∀ r, defaultOf fid (.float r) = (.float r, false, [])) ∧
    (∀ v, defaultOf fid (.str v) = (.str (escapeStringLiteral v), false, [])) ∧
    (∀ fq b tn tq, defaultOf fid (.name "None" fq b tn tq) = (.none, true, [])) ∧
    (∀ fq b tn tq, defaultOf fid (.name "True" fq b tn tq) = (.bool true, false, [])) ∧
    (∀ fq b tn tq, defaultOf fid (.name "False" fq b tn tq) = (.bool false, false, [])) ∧
    (∀ n fq b tn tq, n ≠ "None" → n ≠ "True" → n ≠ "False" →
        defaultOf fid (.name n fq b tn tq) = (.none, false, [])) ∧
    (∀ v : Int, 0 ≤ v → defaultOf fid (.unary "-" (.int v)) = (.int (-v), false, [])) ∧
    (∀ v : Int, 0 ≤ v → defaultOf fid (.unary "+" (.int v)) = (.int v, false, [])) ∧
    (∀ v : Int, v < 0 → ∀ op, defaultOf fid (.unary op (.int v)) = (.unknown, false, ["unexpected operator"])) ∧
    (∀ r, plain r = true → defaultOf fid (.unary "-" (.float r)) = (.float ("-" ++ r), false, [])) ∧
    (∀ r, plain r = true → defaultOf fid (.unary "+" (.float r)) = (.float r, false, [])) ∧
    (∀ r, plain r = false → ∀ op, defaultOf fid (.unary op (.float r)) = (.unknown, false, ["unexpected operator"])) ∧
    (∀ op v, op ≠ "-" → op ≠ "+" → defaultOf fid (.unary op (.int v)) = (.unknown, false, ["unexpected operator"])) ∧
    (∀ op r, op ≠ "-" → op ≠ "+" → defaultOf fid (.unary op (.float r)) = (.unknown, false, ["unexpected operator"])) ∧
    defaultOf fid .call = (.none, false, [callWarning fid]) ∧
    (∀ items, defaultOf fid (.tuple items) = (.none, false, [])) ∧
    defaultOf fid .member = (.none, false, []) ∧
    (∀ a b, defaultOf fid (.cond a b) = (.none, false, [])) ∧
    (∀ k, defaultOf fid (.other k) = (.none, false, [])) := by
  refine ⟨fun _ => rfl, fun _ => rfl, fun _ => rfl, fun _ _ _ _ => rfl, fun _ _ _ _ => rfl, fun _ _ _ _ => rfl,
    ?_, ?_, ?_, ?_, ?_, ?_, ?_, ?_, ?_, rfl, fun _ => rfl, rfl, fun _ _ => rfl, fun _ => rfl⟩
  · intro n fq b tn tq h1 h2 h3
    simp [defaultOf, h1, h2, h3]
  · intro v hv
    simp [defaultOf, hv]
  · intro v hv
    simp [defaultOf, hv]
  · intro v hv op
    have : ¬ (0 ≤ v) := by omega
    simp [defaultOf, this]
  · intro r hr
    unfold plain at hr
    simp [defaultOf, hr]
  · intro r hr
    unfold plain at hr
    simp [defaultOf, hr]
  · intro r hr op
    unfold plain at hr
    simp [defaultOf, hr]
  · intro op v h1 h2
    simp [defaultOf, h1, h2]
  · intro op r h1 h2
    simp [defaultOf, h1, h2]

/-- (8, any other operand of a unary operator) the operand's "is None" flag and warnings are kept, the
    value is `unknown`, one more warning -/
theorem defaultOf_unary_other (fid op : String) (e : Expr)
    (hi : ∀ i, (defaultOf fid e).1 ≠ .int i) (hf : ∀ r, (defaultOf fid e).1 ≠ .float r) :
    defaultOf fid (.unary op e) =
      (.unknown, (defaultOf fid e).2.1, (defaultOf fid e).2.2 ++ ["unexpected operator"]) := by
  rw [defaultOf]
  generalize defaultOf fid e = tr at hi hf ⊢
  obtain ⟨v, n, ws⟩ := tr
  cases v with
  | int i => exact absurd rfl (hi i)
  | float r => exact absurd rfl (hf r)
  | _ => rfl

/-- optionality as `parseParameter` computes it from the pair (default, default-is-None) -/
def optionalOf (t : DefaultVal × Bool × List String) : Bool := t.1 != .none || t.2.1

/-- (8) every literal default makes the parameter optional … -/
theorem defaultOf_literal_optional (fid : String) (e : Expr) (h : u07_LitDefault e) :
    optionalOf (defaultOf fid e) = true := by
  cases h with
  | int v => rfl
  | float r => rfl
  | str v => rfl
  | none => rfl
  | true => rfl
  | false => rfl
  | negInt v =>
    by_cases hv : 0 ≤ v
    · rw [(defaultOf_spec fid).2.2.2.2.2.2.2.1 v hv]; rfl
    · rw [(defaultOf_spec fid).2.2.2.2.2.2.2.2.2.1 v (by omega)]; rfl
  | negFloat r =>
    cases hp : plain r with
    | true => rw [(defaultOf_spec fid).2.2.2.2.2.2.2.2.2.2.1 r hp]; rfl
    | false => rw [(defaultOf_spec fid).2.2.2.2.2.2.2.2.2.2.2.2.1 r hp]; rfl

/-- (8) … and so does everything under a unary operator (value `unknown` at worst) -/
theorem defaultOf_unary_optional (fid op : String) (e : Expr) :
    optionalOf (defaultOf fid (.unary op e)) = true := by
  rw [defaultOf]
  generalize defaultOf fid e = tr
  obtain ⟨v, n, ws⟩ := tr
  cases v with
  | int i =>
    dsimp only
    split
    · rfl
    · split <;> rfl
  | float r =>
    dsimp only
    split
    · rfl
    · split <;> rfl
  | _ => rfl

/-- (8, what is NOT kept) a default that is a name other than `None`/`True`/`False`, a call, a tuple,
    a member access, a conditional expression or any other expression: the parameter has no default
    and is NOT optional in the API model -/
theorem defaultOf_unreadable (fid : String) (e : Expr)
    (h : (∃ n fq b tn tq, e = .name n fq b tn tq ∧ n ≠ "None" ∧ n ≠ "True" ∧ n ≠ "False") ∨ e = .call ∨
      (∃ items, e = .tuple items) ∨ e = .member ∨ (∃ a b, e = .cond a b) ∨ (∃ k, e = .other k)) :
    (defaultOf fid e).1 = .none ∧ optionalOf (defaultOf fid e) = false := by
  rcases h with ⟨n, fq, b, tn, tq, rfl, h1, h2, h3⟩ | rfl | ⟨items, rfl⟩ | rfl | ⟨a, b, rfl⟩ | ⟨k, rfl⟩
  · rw [(defaultOf_spec fid).2.2.2.2.2.2.1 n fq b tn tq h1 h2 h3]; exact ⟨rfl, rfl⟩
  all_goals exact ⟨rfl, rfl⟩

/-! ### 9. the fields of a parameter -/

/-- (8, `parseParameter` level) without an initializer: no default, not optional, the declared type -/
theorem defaultOf_none (fid : String) (a : Arg) (argT : Option AType) (h : a.init = none) :
    u07_defaultTriple fid a argT = (.none, false, argT) := by
  unfold u07_defaultTriple; rw [h]

/-- (9) with an initializer `e`: default and "is None" from `defaultOf`; the type is the declared type
    if there is one; an un-annotated parameter gets the type of the initializer (`exprToType e`) when
    the default was readable (default ≠ none or the default is `None`), and stays untyped otherwise -/
theorem defaultTriple_some (fid : String) (a : Arg) (argT : Option AType) (e : Expr) (h : a.init = some e) :
    (u07_defaultTriple fid a argT).1 = (defaultOf fid e).1 ∧
    (u07_defaultTriple fid a argT).2.1 = (defaultOf fid e).2.1 ∧
    (∀ t, argT = some t → (u07_defaultTriple fid a argT).2.2 = some t) ∧
    (argT = none → optionalOf (defaultOf fid e) = true →
        ∃ t, exprToType e = .ok t ∧ (u07_defaultTriple fid a argT).2.2 = some t) ∧
    (argT = none → optionalOf (defaultOf fid e) = false → (u07_defaultTriple fid a argT).2.2 = none) := by
  unfold u07_defaultTriple; rw [h]
  refine ⟨rfl, rfl, ?_, ?_, ?_⟩
  · rintro t rfl; rfl
  · rintro rfl ho
    refine ⟨_, u07_exprToType_eq e, ?_⟩
    unfold optionalOf at ho
    have : ((defaultOf fid e).2.1 || (defaultOf fid e).1 != .none) = true := by rw [Bool.or_comm]; exact ho
    simp [this]
  · rintro rfl ho
    unfold optionalOf at ho
    have : ((defaultOf fid e).2.1 || (defaultOf fid e).1 != .none) = false := by rw [Bool.or_comm]; exact ho
    simp [this]

/-- (9) the declared type: nothing without `variable.type` (`ValueError`); no type if that type is an
    `Any` that does not come from an explicit annotation, or if the parameter is not annotated; otherwise
    `variable.type` translated by `toAbstract` — except for an un-analysed annotation `list[…]`/`set[…]`
    with two or more arguments, which is translated itself -/
theorem declaredType_cases (env : AEnv) (a : Arg) :
    (a.varType = none → ∀ s, u07_declaredType env a s = .error .valueError) ∧
    (∀ mt, a.varType = some mt → isIncorrectAny mt = true → ∀ s, u07_declaredType env a s = .ok (none, s)) ∧
    (∀ mt, a.varType = some mt → a.annotation = none → ∀ s, u07_declaredType env a s = .ok (none, s)) ∧
    (∀ mt n args, a.varType = some mt → isIncorrectAny mt = false → a.annotation = some (.unbound n args) →
        (n = "list" ∨ n = "set") → 2 ≤ args.length →
        u07_declaredType env a = (do let t ← toAbstract env (.unbound n args) none; pure (some t))) ∧
    (∀ mt an, a.varType = some mt → isIncorrectAny mt = false → a.annotation = some an →
        (∀ n args, an = .unbound n args → ¬ ((n = "list" ∨ n = "set") ∧ 2 ≤ args.length)) →
        u07_declaredType env a = (do let t ← toAbstract env mt none; pure (some t))) := by
  refine ⟨?_, ?_, ?_, ?_, ?_⟩
  · intro h s; unfold u07_declaredType; rw [h]; rfl
  · intro mt h hi s; unfold u07_declaredType; rw [h]; simp only [hi, if_true]; rfl
  · intro mt h ha s; unfold u07_declaredType; rw [h, ha]
    dsimp only
    split <;> rfl
  · intro mt n args h hi ha hn hl
    unfold u07_declaredType; rw [h, ha]
    have : ((n == "list" || n == "set") && decide (args.length ≥ 2)) = true := by
      rcases hn with rfl | rfl <;> simp [hl]
    simp only [hi, this, if_true, Bool.false_eq_true, if_false]
  · intro mt an h hi ha hn
    unfold u07_declaredType; rw [h, ha]
    simp only [hi, Bool.false_eq_true, if_false]
    cases an with
    | unbound n args =>
      have : ((n == "list" || n == "set") && decide (args.length ≥ 2)) = false := by
        have := hn n args rfl
        rw [Bool.eq_false_iff]
        intro hc
        apply this
        simpa using hc
      simp only [this, Bool.false_eq_true, if_false]
    | _ => rfl

/-- (9) the fields of a successfully parsed parameter: name and id, the kind of the table (7), default
    and optionality from the initializer (8), the type from the annotation or the initializer.  The
    docstring part (`doc`) is the only other field. -/
theorem parseParameter_fields (env : AEnv) (f : FuncDef) (fid : String) (a : Arg) (s s' : VSt) (p : Parameter)
    (h : parseParameter env f fid a s = .ok (p, s')) :
    p.name = a.name ∧ p.id = fid ++ "/" ++ a.name ∧
    argumentKind a = .ok p.assignedBy ∧
    ∃ argT s1, u07_declaredType env a s = .ok (argT, s1) ∧
      p.default = (u07_defaultTriple fid a argT).1 ∧
      p.isOptional = ((u07_defaultTriple fid a argT).1 != .none || (u07_defaultTriple fid a argT).2.1) ∧
      p.type = (u07_defaultTriple fid a argT).2.2 := by
  obtain ⟨argT, s1, kind, h1, hk, hid, hn, ha, hd, ho, ht⟩ := u07_parseParameter_ok h
  exact ⟨hn, hid, by rw [ha]; exact hk, argT, s1, h1, hd, ho, ht⟩

/-- (9, spelled out for the two cases of the initializer) -/
theorem parseParameter_default (env : AEnv) (f : FuncDef) (fid : String) (a : Arg) (s s' : VSt) (p : Parameter)
    (h : parseParameter env f fid a s = .ok (p, s')) :
    (a.init = none → p.default = .none ∧ p.isOptional = false) ∧
    (∀ e, a.init = some e → p.default = (defaultOf fid e).1 ∧ p.isOptional = optionalOf (defaultOf fid e)) := by
  obtain ⟨_, _, _, argT, s1, _, hd, ho, _⟩ := parseParameter_fields env f fid a s s' p h
  refine ⟨fun hi => ?_, fun e hi => ?_⟩
  · rw [defaultOf_none fid a argT hi] at hd ho
    exact ⟨hd, ho⟩
  · obtain ⟨h1, h2, _⟩ := defaultTriple_some fid a argT e hi
    rw [h1] at hd ho; rw [h2] at ho
    exact ⟨hd, ho⟩

/-- (9) a literal default is kept and makes the parameter optional -/
theorem parseParameter_literal_default (env : AEnv) (f : FuncDef) (fid : String) (a : Arg) (s s' : VSt)
    (p : Parameter) (e : Expr) (h : parseParameter env f fid a s = .ok (p, s')) (hi : a.init = some e)
    (hl : u07_LitDefault e) : p.default = (defaultOf fid e).1 ∧ p.isOptional = true := by
  obtain ⟨hd, ho⟩ := (parseParameter_default env f fid a s s' p h).2 e hi
  exact ⟨hd, by rw [ho]; exact defaultOf_literal_optional fid e hl⟩

/-! ### 10. order and arity -/

/-- (10) `parseParameters` keeps the parameters in order, one per argument, names and ids included -/
theorem parseParameters_order (env : AEnv) (f : FuncDef) (fid : String) (args : List Arg) (s s' : VSt)
    (ps : List Parameter) (h : parseParameters env f fid args s = .ok (ps, s')) :
    ps.map (·.name) = args.map (·.name) ∧ ps.length = args.length ∧
    ∀ p ∈ ps, p.id = fid ++ "/" ++ p.name := by
  have o := (k12_parseParameters_out env f fid args).run _ _ _ h
  refine ⟨o.1, ?_, o.2⟩
  have := congrArg List.length o.1
  simpa using this

/-- (10, position by position) the `i`-th parameter is the parsed `i`-th argument: `parseParameters`
    succeeds iff … and then every parameter has the fields of (9) for its argument -/
theorem parseParameters_pointwise (env : AEnv) (f : FuncDef) (fid : String) :
    ∀ (args : List Arg) (s s' : VSt) (ps : List Parameter),
      parseParameters env f fid args s = .ok (ps, s') →
      List.Forall₂ (fun (a : Arg) (p : Parameter) => ∃ s1 s2, parseParameter env f fid a s1 = .ok (p, s2)) args ps
  | [], s, s', ps, h => by
    rw [parseParameters] at h
    rw [(k12_pure_ok h).1]; exact .nil
  | a :: as, s, s', ps, h => by
    rw [parseParameters] at h
    have hh := k12_bind_ok h; clear h; obtain ⟨p, s1, h1, h⟩ := hh
    have hh := k12_bind_ok h; clear h; obtain ⟨ps', s2, h2, h⟩ := hh
    rw [(k12_pure_ok h).1]
    exact .cons ⟨s, s1, h1⟩ (parseParameters_pointwise env f fid as s1 s2 ps' h2)

/-! ### 11. examples (kernel-checked) -/

def exEnv : AEnv := { opts := {}, aliases := [], infoBases := [] }
def exSt : VSt := { doc := { root := { name := "m" }, style := .numpy } }
def exF : FuncDef :=
  { name := "f", fullname := "m.C.f", isStatic := false, isClass := false, isProperty := false, args := [],
    hasCallableType := false, retType := none, unanalyzedRet := none, unanalyzedRetLiteralIsNone := false, body := [] }

/-- what is observed of a parsed parameter: name, id, kind, optional, default, type, and the new warnings -/
def view (a : Arg) : Except PyErr (String × String × Assign × Bool × DefaultVal × Option AType × List String) :=
  match parseParameter exEnv exF "m/C/f" a exSt with
  | .ok (p, s) => .ok (p.name, p.id, p.assignedBy, p.isOptional, p.default, p.type, s.warnings)
  | .error e => .error e

def unannotated : Option MType := some (.any 1 "")
def tInt : MType := .inst "int" "builtins.int" []
def arg (name : String) (kind : Nat) (init : Option Expr := none) (posOnly : Bool := false) : Arg :=
  { name := name, isSelf := false, isCls := false, kind := kind, posOnly := posOnly,
    varType := unannotated, annotation := none, init := init }

/-- `self` — IMPLICIT, whatever its kind -/
example :
    view { name := "self", isSelf := true, isCls := false, kind := 0, posOnly := false,
           varType := some (.inst "C" "m.C" []), annotation := none, init := none }
      = .ok ("self", "m/C/f/self", .implicit, false, .none, none, []) := rfl

/-- `a: int, /` — positional-only, annotated -/
example :
    view { name := "a", isSelf := false, isCls := false, kind := 0, posOnly := true,
           varType := some tInt, annotation := some (.unbound "int" []), init := none }
      = .ok ("a", "m/C/f/a", .positionOnly, false, .none, some (.named "int" "builtins.int"), []) := rfl

/-- `b=-5` — positional-or-keyword, negative default, type from the default -/
example :
    view (arg "b" 1 (some (.unary "-" (.int 5))))
      = .ok ("b", "m/C/f/b", .positionOrName, true, .int (-5), some (.named "int" "builtins.int"), []) := rfl

/-- `*args` -/
example : view (arg "args" 2) = .ok ("args", "m/C/f/args", .positionalVararg, false, .none, none, []) := rfl

/-- `*, c=1.5` — keyword-only with default -/
example :
    view (arg "c" 5 (some (.float "1.5")))
      = .ok ("c", "m/C/f/c", .nameOnly, true, .float "1.5", some (.named "float" "builtins.float"), []) := rfl

/-- `d="x"` -/
example :
    view (arg "d" 5 (some (.str "x")))
      = .ok ("d", "m/C/f/d", .nameOnly, true, .str "\"x\"", some (.named "str" "builtins.str"), []) := rfl

/-- `e=None` — no default VALUE but optional; the type is the class `None` with the name's fullname -/
example :
    view (arg "e" 5 (some (.name "None" "builtins.None" false "" "")))
      = .ok ("e", "m/C/f/e", .nameOnly, true, .none, some (.named "None" "builtins.None"), []) := rfl

/-- `g=True` -/
example :
    view (arg "g" 5 (some (.name "True" "builtins.True" false "" "")))
      = .ok ("g", "m/C/f/g", .nameOnly, true, .bool true, some (.named "bool" "builtins.bool"), []) := rfl

/-- `h=f()` — a call: no default, NOT optional, no type, one warning -/
example :
    view (arg "h" 5 (some .call))
      = .ok ("h", "m/C/f/h", .nameOnly, false, .none, none, [callWarning "m/C/f"]) := rfl

/-- `i=SOME_CONSTANT` — a name: no default, NOT optional, no warning -/
example :
    view (arg "i" 1 (some (.name "SOME_CONSTANT" "m.SOME_CONSTANT" false "" "")))
      = .ok ("i", "m/C/f/i", .positionOrName, false, .none, none, []) := rfl

/-- `j: int = 3` — annotated with default: the annotation wins -/
example :
    view { name := "j", isSelf := false, isCls := false, kind := 1, posOnly := false,
           varType := some tInt, annotation := some (.unbound "int" []), init := some (.int 3) }
      = .ok ("j", "m/C/f/j", .positionOrName, true, .int 3, some (.named "int" "builtins.int"), []) := rfl

/-- `k=-x` — unary operator on something unreadable: value `unknown`, optional, type from the operand -/
example :
    view (arg "k" 1 (some (.unary "-" (.name "x" "m.x" false "" ""))))
      = .ok ("k", "m/C/f/k", .positionOrName, true, .unknown, some (.named "x" "m.x"), ["unexpected operator"]) := rfl

/-- `**kwargs` -/
example : view (arg "kwargs" 4) = .ok ("kwargs", "m/C/f/kwargs", .namedVararg, false, .none, none, []) := rfl

/-- an unknown kind is a `ValueError`; no `variable.type` is a `ValueError` -/
example : view (arg "z" 6) = .error .valueError := rfl
example :
    view { name := "z", isSelf := false, isCls := false, kind := 0, posOnly := false,
           varType := none, annotation := none, init := none } = .error .valueError := rfl

/-- order and arity: a whole parameter list -/
example :
    (match parseParameters exEnv exF "m/C/f"
        [arg "a" 0 none true, arg "b" 1 (some (.int 1)), arg "args" 2, arg "c" 3, arg "kwargs" 4] exSt with
     | .ok (ps, _) => ps.map (fun p => (p.name, p.assignedBy))
     | .error _ => [])
      = [("a", .positionOnly), ("b", .positionOrName), ("args", .positionalVararg), ("c", .nameOnly),
         ("kwargs", .namedVararg)] := rfl

end StubGen.C06a
