/-
C20 — TODO markers (model: `StubGen.Model.Gen`; specification of the deserved keys:
`StubGen.Spec.Markers`).  "A declaration in a stub is preceded by the corresponding TODO marker
exactly when it exhibits a construct Safe-DS cannot express.  Markers sit on that declaration and on
no other."  The generator collects marker keys in `St.todos` (a duplicate-free list used as a set)
and `createTodoMsg` prints them sorted and empties the set.  All statements are for all inputs and
all generator states unless a hypothesis is stated.  Proof machinery: `StubGen.Proofs.Markers`.
-/
import StubGen.Proofs.Markers

namespace StubGen.C20

open StubGen

/-! ### 1. types -/

/-- every key but the state-dependent one is pending after `typeStr` iff it was pending before or the
    type deserves it -/
theorem typeStr_todos (env : Env) (t : AType) (st st' : St) (s : String)
    (h : typeStr env t st = .ok (s, st')) (k : String) (hk : k ≠ "internal class as type") :
    k ∈ st'.todos ↔ (k ∈ st.todos ∨ k ∈ Spec.typeKeys t) :=
  (typeStr_grows env t st s st' h).mem k hk

/-- the state-dependent key appears only if the type mentions a class named `_…` -/
theorem typeStr_internal (env : Env) (t : AType) (st st' : St) (s : String)
    (h : typeStr env t st = .ok (s, st')) :
    "internal class as type" ∈ st'.todos →
      "internal class as type" ∈ st.todos ∨ Spec.mentionsInternal t = true :=
  (typeStr_grows env t st s st' h).internal

theorem typeStr_nodup (env : Env) (t : AType) (st st' : St) (s : String)
    (h : typeStr env t st = .ok (s, st')) : st.todos.Nodup → st'.todos.Nodup :=
  (typeStr_grows env t st s st' h).nodup

/-- `typeStr` changes nothing of the state except `todos`, `imports`, `outside` -/
theorem typeStr_frame (env : Env) (t : AType) (st st' : St) (s : String)
    (h : typeStr env t st = .ok (s, st')) :
    st'.log = st.log ∧ st'.reexports = st.reexports ∧ st'.classGenerics = st.classGenerics ∧
      st'.moduleId = st.moduleId ∧ st'.reexportModuleId = st.reexportModuleId ∧
      st'.creatingReexport = st.creatingReexport :=
  let g := typeStr_grows env t st s st' h
  ⟨g.log, g.reexports, g.classGenerics, g.moduleId, g.reexportModuleId, g.creatingReexport⟩

/-! ### 2. parameters -/

theorem createParameter_todos (env : Env) (p : Parameter) (st st' : St) (out : ParamOut)
    (h : createParameter env p st = .ok (out, st')) (hp : Spec.optionalIsTyped p = true)
    (k : String) (hk : k ≠ "internal class as type") :
    k ∈ st'.todos ↔ (k ∈ st.todos ∨ k ∈ Spec.paramKeys p) :=
  (createParameter_grows env p hp st out st' h).mem k hk

theorem createParameter_nodup (env : Env) (p : Parameter) (st st' : St) (out : ParamOut)
    (h : createParameter env p st = .ok (out, st')) (hp : Spec.optionalIsTyped p = true) :
    st.todos.Nodup → st'.todos.Nodup :=
  (createParameter_grows env p hp st out st' h).nodup

/-- the hypothesis `optionalIsTyped` is needed: an untyped optional parameter whose default could not
    be parsed deserves "unknown value", but the generator drops the default of an untyped parameter -/
private def untypedOptional : Parameter :=
  { id := "m/f/x", name := "x", isOptional := true, default := .unknown, assignedBy := .positionOrName,
    type := none }

example : Spec.optionalIsTyped untypedOptional = false := by decide
example : "unknown value" ∈ Spec.paramKeys untypedOptional := by decide
example : (match createParameter ⟨{}, true⟩ untypedOptional {} with
    | .ok (_, st') => st'.todos
    | .error _ => []) = ["param without type"] := by decide

/-! ### 3. flushing -/

theorem createTodoMsg_flushes (indent : String) (st st' : St) (s : String)
    (h : createTodoMsg indent st = .ok (s, st')) : st'.todos = [] ∧ st' = { st with todos := [] } := by
  have := ((createTodoMsg_ok indent st (s, st')).1 h).2
  cases this
  exact ⟨rfl, rfl⟩

/-- the marker line of key `k` (`todoMsgOf` of the proof file) -/
abbrev msg (k : String) : String := todoMsgOf k

example (k : String) : msg k = Generated.todoPrefix ++ (assocGet? Generated.todoMessages k).getD "" := rfl

/-- the marker block of a key set (`renderTodos` of the proof file): the sorted marker lines, each
    indented and terminated by a newline -/
abbrev todoBlock (indent : String) (keys : List String) : String := renderTodos indent keys

example (indent : String) (keys : List String) : todoBlock indent keys =
    if keys = [] then "" else indent ++ joinWith ("\n" ++ indent) (sortStrings (keys.map msg)) ++ "\n" := rfl

/-- when every pending key has a message the call succeeds and prints the sorted marker lines -/
theorem createTodoMsg_text (indent : String) (st : St)
    (hkeys : ∀ k ∈ st.todos, (assocGet? Generated.todoMessages k).isSome) :
    ∃ s st', createTodoMsg indent st = .ok (s, st') ∧
      s = if st.todos = [] then ""
          else indent ++ joinWith ("\n" ++ indent) (sortStrings (st.todos.map msg)) ++ "\n" :=
  ⟨_, _, (createTodoMsg_ok indent st _).2 ⟨hkeys, rfl⟩, rfl⟩

/-- and whenever the call succeeds that is its text -/
theorem createTodoMsg_text' (indent : String) (st st' : St) (s : String)
    (h : createTodoMsg indent st = .ok (s, st')) :
    (∀ k ∈ st.todos, (assocGet? Generated.todoMessages k).isSome) ∧
    s = if st.todos = [] then ""
        else indent ++ joinWith ("\n" ++ indent) (sortStrings (st.todos.map msg)) ++ "\n" := by
  have := (createTodoMsg_ok indent st (s, st')).1 h
  refine ⟨this.1, ?_⟩
  have h2 := this.2
  cases h2
  rfl

/-! ### 4. markers never move to a neighbouring declaration -/

theorem flushed_function (env : Env) (f : Function) (indent : String) (isMethod inRe : Bool)
    (st st' : St) (text : String)
    (h : createFunctionString env f indent isMethod inRe st = .ok (text, st')) :
    st'.todos = [] ∨ (text = "" ∧ st'.todos = st.todos) :=
  createFunctionString_flushed env f indent isMethod inRe st text st' h

theorem flushed_property (env : Env) (f : Function) (indent : String) (st st' : St) (text : String)
    (h : createPropertyFunctionString env f indent st = .ok (text, st')) : st'.todos = [] :=
  createPropertyFunctionString_flushed env f indent st text st' h

theorem flushed_attribute (env : Env) (a : Attribute) (inner : String) (st st' : St) (text : String)
    (h : createAttribute env a inner st = .ok (some text, st')) : st'.todos = [] :=
  (createAttribute_flushed env a inner st _ st' h).2 (by simp)

theorem skipped_attribute (env : Env) (a : Attribute) (inner : String) (st st' : St)
    (h : createAttribute env a inner st = .ok (none, st')) : st' = st :=
  (createAttribute_flushed env a inner st _ st' h).1 rfl

theorem flushed_class (env : Env) (fuel : Nat) (c : Class) (indent : String) (inRe : Bool)
    (st st' : St) (text : String)
    (h : createClassString env fuel c indent inRe st = .ok (text, st')) :
    st'.todos = [] ∨ (text = "" ∧ st'.todos = st.todos) :=
  createClassString_flushed env fuel c indent inRe st text st' h

theorem flushed_module (env : Env) (m : Module) (st st' : St) (r : String × String)
    (h : createModuleString env m st = .ok (r, st')) (h0 : st.todos = []) : st'.todos = [] :=
  createModuleString_keeps env m st h0 r st' h

/-! ### 5. marker iff feature: functions

`function_markers` as proposed — with `Spec.functionKeys` and no condition on the result types — is
false of the model: `Spec.resultKeys` asks for "result without type" when every typed result
`Spec.rendersEmpty` (unions all of whose members render empty, under `Final`s), but the generator
renders one more kind of type as the empty string (`rendersEmptyM`): type variables whose converted
name is empty (`__` under the Safe-DS naming convention), and the marker appears for them too.
(The former counterexample `union [union []]` is now covered by `Spec.rendersEmpty`, see below.) -/

private def gBad : Function :=
  { id := "m/g", name := "g", isPublic := true,
    results := [{ id := "m/g/r", name := "r", type := some (.typeVar "__") }] }

/-- the former counterexample: specification and generator now agree on it -/
private def gNested : Function :=
  { id := "m/g", name := "g", isPublic := true,
    results := [{ id := "m/g/r", name := "r", type := some (.union [.union []]) }] }

example : (match createFunctionString ⟨{}, true⟩ gNested "" false false {} with
    | .ok (text, st') => (text, st'.todos)
    | .error _ => ("", [])) = ("// TODO Result type information missing.\n@Pure\nfun g()", []) := by decide
example : Spec.functionKeys gNested false gNested.typeVars = ["result without type"] := by decide
example : rendersEmptyM true (.union [.union []]) = true ∧ Spec.rendersEmpty (.union [.union []]) = true := by
  decide

/-- counterexample: all hypotheses of `function_markers` hold (empty pending set, not re-exported, no
    parameters), the stub carries the marker "result without type", the specification's key set is empty -/
example : (match createFunctionString ⟨{}, true⟩ gBad "" false false {} with
    | .ok (text, st') => (text, st'.todos)
    | .error _ => ("", [])) = ("// TODO Result type information missing.\n@Pure\nfun g()", []) := by decide
example : Spec.functionKeys gBad false gBad.typeVars = [] := by decide
example : rendersEmptyM true (.typeVar "__") = true ∧ Spec.rendersEmpty (.typeVar "__") = false ∧
    mk_tvNonempty true (.typeVar "__") = false := by decide

/-- `function_markers` as proposed: `Spec.functionKeys`, no condition on the result types -/
def FunctionMarkersProposed : Prop :=
  ∀ (env : Env) (f : Function) (indent : String) (isMethod inRe : Bool) (st st' : St) (text : String),
    createFunctionString env f indent isMethod inRe st = .ok (text, st') → st.todos = [] →
    (isMethod = true ∨ inRe = true ∨ f.reexportedBy = []) →
    (∀ p ∈ f.params, Spec.optionalIsTyped p = true) →
    ∃ keys rest, keys.Nodup ∧
      (∀ k, k ≠ "internal class as type" →
        (k ∈ keys ↔ k ∈ Spec.functionKeys f isMethod
          (f.typeVars.filter fun tv =>
            !isMethod || !st.classGenerics.contains (escapeKeyword (convertName tv.name env.safe))))) ∧
      text = todoBlock indent keys ++ rest ∧
      pyStartsWith rest (indent ++ "// TODO") = false

/-- … is refuted by `gBad` -/
theorem function_markers_proposed_false : ¬ FunctionMarkersProposed := by
  intro H
  have hex : (match createFunctionString ⟨{}, true⟩ gBad "" false false {} with
      | .ok (text, st') => (text, st'.todos)
      | .error _ => ("", [])) = ("// TODO Result type information missing.\n@Pure\nfun g()", []) := by decide
  cases hrun : createFunctionString ⟨{}, true⟩ gBad "" false false {} with
  | error e =>
    rw [hrun] at hex
    simp only [Prod.mk.injEq] at hex
    exact absurd hex.1 (by decide)
  | ok r =>
    obtain ⟨text, st'⟩ := r
    rw [hrun] at hex
    simp only [Prod.mk.injEq] at hex
    obtain ⟨keys, rest, hnd, hk, htext, hrest⟩ :=
      H _ _ _ _ _ _ _ _ hrun rfl (Or.inr (Or.inr rfl)) (by decide)
    have hsub : ∀ k ∈ keys, k = "internal class as type" := by
      intro k hkm
      by_contra hne
      have := (hk k hne).1 hkm
      have he : Spec.functionKeys gBad false
          (gBad.typeVars.filter fun tv => !false || !({} : St).classGenerics.contains
            (escapeKeyword (convertName tv.name (⟨{}, true⟩ : Env).safe))) = [] := by decide
      rw [he] at this
      simp at this
    rw [hex.1] at htext
    match keys, hnd, hsub with
    | [], _, _ =>
      have : rest = "// TODO Result type information missing.\n@Pure\nfun g()" := by
        rw [htext]; simp [todoBlock, renderTodos]
      rw [this] at hrest
      revert hrest; decide
    | [k], _, hs =>
      have hk' := hs k (by simp)
      subst hk'
      have hb : todoBlock "" ["internal class as type"] =
          "// TODO An internal class must not be used as a type in a public class.\n" := by decide
      rw [hb] at htext
      have := congrArg String.toList htext
      simp [String.toList_append] at this
    | k1 :: k2 :: _, hnd, hs =>
      have h1 := hs k1 (by simp)
      have h2 := hs k2 (by simp)
      rw [h1, h2] at hnd
      simp at hnd

/-- the same inside a union: every member renders empty in the model, not in the specification -/
example : rendersEmptyM true (.union [.typeVar "__", .union []]) = true ∧
    Spec.rendersEmpty (.union [.typeVar "__", .union []]) = false := by decide

/-- `rendersEmptyM` and `Spec.rendersEmpty` differ only through such type variables: they agree on
    every type in which no type variable with an empty converted name sits under unions / `Final`s
    (`mk_tvNonempty`), in particular on every type without type variables -/
theorem rendersEmpty_agree (safe : Bool) (t : AType) (h : mk_tvNonempty safe t = true) :
    rendersEmptyM safe t = Spec.rendersEmpty t :=
  mk_rendersEmptyM_eq safe t h

theorem rendersEmpty_agree_of_noTypeVar (safe : Bool) (t : AType) (h : mk_hasTypeVar t = false) :
    rendersEmptyM safe t = Spec.rendersEmpty t :=
  mk_rendersEmptyM_eq_of_noTypeVar safe t h

/-- and the specification's notion always implies the model's -/
theorem rendersEmpty_sound (safe : Bool) (t : AType) (h : Spec.rendersEmpty t = true) :
    rendersEmptyM safe t = true :=
  rendersEmptyM_of_rendersEmpty safe t h

/-- the strongest true variant: marker iff feature w.r.t. `functionKeysM`, which is `Spec.functionKeys`
    with `rendersEmptyM` (the types the model renders as `""`) in place of `Spec.rendersEmpty` -/
theorem function_markers_model (env : Env) (f : Function) (indent : String) (isMethod inRe : Bool)
    (st st' : St) (text : String)
    (h : createFunctionString env f indent isMethod inRe st = .ok (text, st'))
    (h0 : st.todos = []) (hnm : isMethod = true ∨ inRe = true ∨ f.reexportedBy = [])
    (hps : ∀ p ∈ f.params, Spec.optionalIsTyped p = true) :
    ∃ keys rest, keys.Nodup ∧
      (∀ k, k ≠ "internal class as type" →
        (k ∈ keys ↔ k ∈ functionKeysM env.safe f isMethod
          (f.typeVars.filter fun tv =>
            !isMethod || !st.classGenerics.contains (escapeKeyword (convertName tv.name env.safe))))) ∧
      ("internal class as type" ∈ keys → functionInternal f = true) ∧
      (∀ k ∈ keys, (assocGet? Generated.todoMessages k).isSome) ∧
      text = todoBlock indent keys ++ rest ∧
      (∃ funcParams tvs resultString, rest = functionRest env f indent funcParams tvs resultString) ∧
      pyStartsWith rest (indent ++ "// TODO") = false ∧
      st'.todos = [] := by
  obtain ⟨hst, keys, fp, tvs, rs, h1, h2, h3, h4, h5⟩ :=
    createFunctionString_markers env f indent isMethod inRe st h0 hnm hps text st' h
  exact ⟨keys, _, h1, h2, h3, h4, h5, ⟨fp, tvs, rs, rfl⟩, functionRest_not_marker env f indent fp tvs rs,
    by rw [hst]⟩

/-- `function_markers` under the extra hypothesis that the two notions of "renders empty" agree on the
    result types (`PlainResults`) -/
theorem function_markers_of_agree (env : Env) (f : Function) (indent : String) (isMethod inRe : Bool)
    (st st' : St) (text : String)
    (h : createFunctionString env f indent isMethod inRe st = .ok (text, st'))
    (h0 : st.todos = []) (hnm : isMethod = true ∨ inRe = true ∨ f.reexportedBy = [])
    (hps : ∀ p ∈ f.params, Spec.optionalIsTyped p = true)
    (hres : ∀ r ∈ f.results, ∀ t, r.type = some t → rendersEmptyM env.safe t = Spec.rendersEmpty t) :
    ∃ keys rest, keys.Nodup ∧
      (∀ k, k ≠ "internal class as type" →
        (k ∈ keys ↔ k ∈ Spec.functionKeys f isMethod
          (f.typeVars.filter fun tv =>
            !isMethod || !st.classGenerics.contains (escapeKeyword (convertName tv.name env.safe))))) ∧
      ("internal class as type" ∈ keys → functionInternal f = true) ∧
      (∀ k ∈ keys, (assocGet? Generated.todoMessages k).isSome) ∧
      text = todoBlock indent keys ++ rest ∧
      (∃ funcParams tvs resultString, rest = functionRest env f indent funcParams tvs resultString) ∧
      pyStartsWith rest (indent ++ "// TODO") = false ∧
      st'.todos = [] := by
  have := function_markers_model env f indent isMethod inRe st st' text h h0 hnm hps
  rw [functionKeysM_eq isMethod _ hres] at this
  exact this

/-- `function_markers` under a syntactic hypothesis on the result types: no type variable whose
    converted name is empty sits under the unions / `Final`s of a result type (`mk_tvNonempty`; true in
    particular when no such type variable occurs at all).  (Statement changed: the hypothesis was
    `rendersEmptyM env.safe t = Spec.rendersEmpty t`; that variant is `function_markers_of_agree`.) -/
theorem function_markers_partial (env : Env) (f : Function) (indent : String) (isMethod inRe : Bool)
    (st st' : St) (text : String)
    (h : createFunctionString env f indent isMethod inRe st = .ok (text, st'))
    (h0 : st.todos = []) (hnm : isMethod = true ∨ inRe = true ∨ f.reexportedBy = [])
    (hps : ∀ p ∈ f.params, Spec.optionalIsTyped p = true)
    (hres : ∀ r ∈ f.results, ∀ t, r.type = some t → mk_tvNonempty env.safe t = true) :
    ∃ keys rest, keys.Nodup ∧
      (∀ k, k ≠ "internal class as type" →
        (k ∈ keys ↔ k ∈ Spec.functionKeys f isMethod
          (f.typeVars.filter fun tv =>
            !isMethod || !st.classGenerics.contains (escapeKeyword (convertName tv.name env.safe))))) ∧
      ("internal class as type" ∈ keys → functionInternal f = true) ∧
      (∀ k ∈ keys, (assocGet? Generated.todoMessages k).isSome) ∧
      text = todoBlock indent keys ++ rest ∧
      (∃ funcParams tvs resultString, rest = functionRest env f indent funcParams tvs resultString) ∧
      pyStartsWith rest (indent ++ "// TODO") = false ∧
      st'.todos = [] :=
  function_markers_of_agree env f indent isMethod inRe st st' text h h0 hnm hps
    (mk_plainResults_of_tvNonempty hres)

/-- a function whose only result is `None` gets no result list and no "result without type" marker:
    the result part is empty and the state untouched -/
theorem only_none_result_no_marker (env : Env) (rs : List Result) (st : St)
    (h : Spec.onlyNoneResult rs = true) : createResultString env rs st = .ok ("", st) := by
  rw [mk_createResultString_eq, if_pos h]
  rfl

/-- conversely, unless the only result is `None`, every typed result is rendered (no early return at a
    `None` result) and the markers of all their types are pending afterwards -/
theorem result_markers (env : Env) (rs : List Result) (st st' : St) (s : String)
    (h : createResultString env rs st = .ok (s, st')) (k : String) (hk : k ≠ "internal class as type") :
    k ∈ st'.todos ↔ (k ∈ st.todos ∨ k ∈ resultKeysM env.safe rs) :=
  (createResultString_grows env rs st s st' h).mem k hk

theorem result_markers_spec (env : Env) (rs : List Result) (st st' : St) (s : String)
    (h : createResultString env rs st = .ok (s, st'))
    (hres : ∀ r ∈ rs, ∀ t, r.type = some t → mk_tvNonempty env.safe t = true)
    (k : String) (hk : k ≠ "internal class as type") :
    k ∈ st'.todos ↔ (k ∈ st.todos ∨ k ∈ Spec.resultKeys rs) := by
  rw [← resultKeysM_eq (mk_plainResults_of_tvNonempty hres)]
  exact result_markers env rs st st' s h k hk

/-- the state after a function differs from the state before only in the log entry, the (emptied)
    pending set, and `imports` / `outside` -/
theorem function_frame (env : Env) (f : Function) (indent : String) (isMethod inRe : Bool)
    (st st' : St) (text : String)
    (h : createFunctionString env f indent isMethod inRe st = .ok (text, st'))
    (h0 : st.todos = []) (hnm : isMethod = true ∨ inRe = true ∨ f.reexportedBy = [])
    (hps : ∀ p ∈ f.params, Spec.optionalIsTyped p = true) :
    st' = { st with log := st.log ++ [("fun", f.id)], todos := [], imports := st'.imports,
                    outside := st'.outside } :=
  (createFunctionString_markers env f indent isMethod inRe st h0 hnm hps text st' h).1

/-! ### 6. marker iff feature: attributes (same difference between `rendersEmptyM` and `Spec.rendersEmpty`;
an attribute whose type *is* a type variable is skipped, so the type variable sits inside a union) -/

private def aBad : Attribute :=
  { id := "m/C/x", name := "x", isPublic := true, isStatic := false, type := some (.union [.typeVar "__"]) }

/-- the former counterexample: specification and generator now agree on it -/
private def aNested : Attribute :=
  { id := "m/C/x", name := "x", isPublic := true, isStatic := false, type := some (.union [.union []]) }

example : (match createAttribute ⟨{}, true⟩ aNested "    " {} with
    | .ok (text, st') => (text, st'.todos)
    | .error _ => (none, [])) = (some "    // TODO Attribute has no type information.\n    attr x", []) := by
  decide
example : Spec.attributeKeys aNested = ["attr without type"] := by decide

example : (match createAttribute ⟨{}, true⟩ aBad "    " {} with
    | .ok (text, st') => (text, st'.todos)
    | .error _ => (none, [])) = (some "    // TODO Attribute has no type information.\n    attr x", []) := by
  decide
example : Spec.attributeKeys aBad = [] := by decide

/-- `attribute_markers` as proposed (`Spec.attributeKeys`, no condition on the type) -/
def AttributeMarkersProposed : Prop :=
  ∀ (env : Env) (a : Attribute) (inner : String) (st st' : St) (text : String),
    createAttribute env a inner st = .ok (some text, st') → st.todos = [] →
    ∃ keys rest, keys.Nodup ∧
      (∀ k, k ≠ "internal class as type" → (k ∈ keys ↔ k ∈ Spec.attributeKeys a)) ∧
      text = todoBlock inner keys ++ rest ∧
      pyStartsWith rest (inner ++ "// TODO") = false

theorem attribute_markers_proposed_false : ¬ AttributeMarkersProposed := by
  intro H
  have hex : (match createAttribute ⟨{}, true⟩ aBad "" {} with
      | .ok (text, st') => (text, st'.todos)
      | .error _ => (none, [])) = (some "// TODO Attribute has no type information.\nattr x", []) := by decide
  cases hrun : createAttribute ⟨{}, true⟩ aBad "" {} with
  | error e =>
    rw [hrun] at hex
    simp only [Prod.mk.injEq] at hex
    exact absurd hex.1 (by decide)
  | ok r =>
    obtain ⟨text, st'⟩ := r
    rw [hrun] at hex
    simp only [Prod.mk.injEq] at hex
    obtain ⟨htx, _⟩ := hex
    subst htx
    obtain ⟨keys, rest, hnd, hk, htext, hrest⟩ := H _ _ _ _ _ _ hrun rfl
    have hsub : ∀ k ∈ keys, k = "internal class as type" := by
      intro k hkm
      by_contra hne
      have := (hk k hne).1 hkm
      have he : Spec.attributeKeys aBad = [] := by decide
      rw [he] at this
      simp at this
    match keys, hnd, hsub with
    | [], _, _ =>
      have : rest = "// TODO Attribute has no type information.\nattr x" := by
        rw [htext]; simp [todoBlock, renderTodos]
      rw [this] at hrest
      revert hrest; decide
    | [k], _, hs =>
      have hk' := hs k (by simp)
      subst hk'
      have hb : todoBlock "" ["internal class as type"] =
          "// TODO An internal class must not be used as a type in a public class.\n" := by decide
      rw [hb] at htext
      have := congrArg String.toList htext
      simp [String.toList_append] at this
    | k1 :: k2 :: _, hnd, hs =>
      have h1 := hs k1 (by simp)
      have h2 := hs k2 (by simp)
      rw [h1, h2] at hnd
      simp at hnd

theorem attribute_markers_model (env : Env) (a : Attribute) (inner : String) (st st' : St) (text : String)
    (h : createAttribute env a inner st = .ok (some text, st')) (h0 : st.todos = []) :
    ∃ keys rest, keys.Nodup ∧
      (∀ k, k ≠ "internal class as type" → (k ∈ keys ↔ k ∈ attributeKeysM env.safe a)) ∧
      ("internal class as type" ∈ keys → attributeInternal a = true) ∧
      (∀ k ∈ keys, (assocGet? Generated.todoMessages k).isSome) ∧
      text = todoBlock inner keys ++ rest ∧
      (∃ attrType, rest = attributeRest env a inner attrType) ∧
      pyStartsWith rest (inner ++ "// TODO") = false ∧
      st'.todos = [] := by
  obtain ⟨hst, keys, ty, h1, h2, h3, h4, h5⟩ :=
    createAttribute_markers env a inner st h0 (some text) st' h text rfl
  exact ⟨keys, _, h1, h2, h3, h4, h5, ⟨ty, rfl⟩, attributeRest_not_marker env a inner ty, by rw [hst]⟩

theorem attribute_markers_of_agree (env : Env) (a : Attribute) (inner : String) (st st' : St) (text : String)
    (h : createAttribute env a inner st = .ok (some text, st')) (h0 : st.todos = [])
    (hty : ∀ t, a.type = some t → rendersEmptyM env.safe t = Spec.rendersEmpty t) :
    ∃ keys rest, keys.Nodup ∧
      (∀ k, k ≠ "internal class as type" → (k ∈ keys ↔ k ∈ Spec.attributeKeys a)) ∧
      ("internal class as type" ∈ keys → attributeInternal a = true) ∧
      (∀ k ∈ keys, (assocGet? Generated.todoMessages k).isSome) ∧
      text = todoBlock inner keys ++ rest ∧
      (∃ attrType, rest = attributeRest env a inner attrType) ∧
      pyStartsWith rest (inner ++ "// TODO") = false ∧
      st'.todos = [] := by
  have := attribute_markers_model env a inner st st' text h h0
  rw [attributeKeysM_eq hty] at this
  exact this

/-- `attribute_markers` under the syntactic hypothesis `mk_tvNonempty` on the attribute's type
    (statement changed: the hypothesis was `rendersEmptyM env.safe t = Spec.rendersEmpty t`; that variant
    is `attribute_markers_of_agree`) -/
theorem attribute_markers_partial (env : Env) (a : Attribute) (inner : String) (st st' : St) (text : String)
    (h : createAttribute env a inner st = .ok (some text, st')) (h0 : st.todos = [])
    (hty : ∀ t, a.type = some t → mk_tvNonempty env.safe t = true) :
    ∃ keys rest, keys.Nodup ∧
      (∀ k, k ≠ "internal class as type" → (k ∈ keys ↔ k ∈ Spec.attributeKeys a)) ∧
      ("internal class as type" ∈ keys → attributeInternal a = true) ∧
      (∀ k ∈ keys, (assocGet? Generated.todoMessages k).isSome) ∧
      text = todoBlock inner keys ++ rest ∧
      (∃ attrType, rest = attributeRest env a inner attrType) ∧
      pyStartsWith rest (inner ++ "// TODO") = false ∧
      st'.todos = [] :=
  attribute_markers_of_agree env a inner st st' text h h0
    (fun t ht => mk_rendersEmptyM_eq env.safe t (hty t ht))

/-! ### 7. classes (beyond the specification file, which has no key set for classes)

A class prints two marker blocks in front of `class`: one for the constructor parameters and the
bounds of the type parameters (`ctorKeys`, `genericKeys`), one for the superclass list
(`inheritanceKeys`: "multiple_inheritance" iff more than one superclass name follows `sub`).
Everything printed in between — attributes, inner classes, methods, inlined private superclasses —
flushes its own markers, so none of them reaches the second block. -/

theorem class_markers (env : Env) (fuel : Nat) (c : Class) (indent : String) (inRe : Bool)
    (st st' : St) (text : String)
    (h : createClassString env fuel c indent inRe st = .ok (text, st'))
    (h0 : st.todos = []) (hnm : inRe = true ∨ c.reexportedBy = [])
    (hps : ∀ ctor, c.ctor = some ctor → ∀ p ∈ ctor.params, Spec.optionalIsTyped p = true) :
    st'.todos = [] ∧
    ∃ keys post, keys.Nodup ∧
      (∀ k, k ≠ "internal class as type" → (k ∈ keys ↔ k ∈ ctorKeys c ++ genericKeys c)) ∧
      text = classPrefix env c indent ++ (todoBlock indent keys ++
        (todoBlock indent (inheritanceKeys c) ++ ("class " ++ post))) :=
  createClassString_markers env fuel c indent inRe st h0 hnm hps text st' h

/-! ### Non-vacuity -/

section Examples

/-- a function with a tuple-typed optional position-only parameter, an untyped `*args`, no results -/
private def fEx : Function :=
  { id := "m/f", name := "f", isPublic := true,
    params := [
      { id := "m/f/a", name := "a", isOptional := true, default := .int 0, assignedBy := .positionOnly,
        type := some (.tuple [.named "int" "builtins.int", .named "str" "builtins.str"]) },
      { id := "m/f/args", name := "args", isOptional := false, default := .none,
        assignedBy := .positionalVararg, type := none }] }

set_option maxRecDepth 100000 in
/-- the exact stub text: five marker lines, sorted, directly above the declaration; nothing pending -/
example : (match createFunctionString ⟨{}, true⟩ fEx "" false false {} with
    | .ok (text, st') => (text, st'.todos)
    | .error _ => ("", [])) =
    ("// TODO Result type information missing.\n" ++
     "// TODO Safe-DS does not support optional but position only parameter assignments.\n" ++
     "// TODO Safe-DS does not support tuple types.\n" ++
     "// TODO Safe-DS does not support variadic parameters.\n" ++
     "// TODO Some parameter have no type information.\n" ++
     "@Pure\nfun f(\n    a: Tuple<Int, String> = 0,\n    args: List<Any>\n)", []) := by decide

/-- the hypotheses of `function_markers_partial` hold for it, and the specification asks for exactly
    these five keys -/
example : ∀ p ∈ fEx.params, Spec.optionalIsTyped p = true := by decide
example : fEx.reexportedBy = [] := rfl
example : ∀ r ∈ fEx.results, ∀ t, r.type = some t → mk_tvNonempty true t = true := by
  intro r hr; cases hr
example : Spec.functionKeys fEx false fEx.typeVars =
    ["no tuple support", "OPT_POS_ONLY", "param without type", "variadic", "result without type"] := by decide

/-- results: a lone `None` result gives neither a result list nor a marker; otherwise every typed result
    is rendered, `None` included, and the markers of all result types appear -/
private def gNone : Function :=
  { id := "m/g", name := "g", isPublic := true,
    results := [{ id := "m/g/r", name := "r", type := some (.named "None" "builtins.None") }] }
private def gTwo : Function :=
  { id := "m/g", name := "g", isPublic := true,
    results := [{ id := "m/g/r", name := "r", type := some (.named "None" "builtins.None") },
                { id := "m/g/s", name := "s", type := some (.tuple [.named "int" "builtins.int"]) }] }

example : Spec.onlyNoneResult gNone.results = true ∧ Spec.onlyNoneResult gTwo.results = false := by decide
example : (match createFunctionString ⟨{}, true⟩ gNone "" false false {} with
    | .ok (text, st') => (text, st'.todos)
    | .error _ => ("", [])) = ("@Pure\nfun g()", []) := by decide
example : Spec.functionKeys gNone false gNone.typeVars = [] := by decide
example : (match createFunctionString ⟨{}, true⟩ gTwo "" false false {} with
    | .ok (text, st') => (text, st'.todos)
    | .error _ => ("", [])) =
    ("// TODO Safe-DS does not support tuple types.\n@Pure\nfun g() -> (r: Nothing?, s: Tuple<Int>)", []) := by
  decide
example : Spec.functionKeys gTwo false gTwo.typeVars = ["no tuple support"] := by decide
example : ∀ r ∈ gTwo.results, ∀ t, r.type = some t → mk_tvNonempty true t = true := by decide

/-- `typeStr` on a nested type: keys added to a non-empty pending set, no duplicates -/
example : (match typeStr ⟨{}, true⟩ (.set [.tuple [.unknown], .list [.unknown, .unknown]]) { todos := ["unknown"] } with
    | .ok (s, st') => (s, st'.todos)
    | .error _ => ("", [])) =
    ("Set<Tuple<unknown>, List<unknown, unknown>>", ["unknown", "no tuple support", "List", "no set support", "Set"]) := by
  decide

/-- an attribute with a set type inside a class body -/
private def aEx : Attribute :=
  { id := "m/C/s", name := "s", isPublic := true, isStatic := true, type := some (.set [.named "int" "builtins.int"]) }
example : (match createAttribute ⟨{}, true⟩ aEx "    " {} with
    | .ok (text, st') => (text, st'.todos)
    | .error _ => (none, [])) =
    (some "    // TODO Safe-DS does not support set types.\n    static attr s: Set<Int>", []) := by decide
example : Spec.attributeKeys aEx = ["no set support"] := by decide

/-- `createTodoMsg` on a two-element pending set -/
example : (match createTodoMsg "  " { todos := ["variadic", "Set"] } with
    | .ok (s, st') => (s, st'.todos)
    | .error _ => ("", ["?"])) =
    ("  // TODO Safe-DS does not support variadic parameters.\n  // TODO Set type has to many type arguments.\n", []) := by
  decide

/-- a class with a required keyword-only constructor parameter and two superclasses -/
private def cExInit : Function :=
  { id := "m/C/__init__", name := "__init__", isPublic := true,
    params := [
      { id := "m/C/__init__/self", name := "self", isOptional := false, default := .none,
        assignedBy := .implicit, type := none },
      { id := "m/C/__init__/x", name := "x", isOptional := false, default := .none, assignedBy := .nameOnly,
        type := some (.named "int" "builtins.int") }] }
private def cEx : Class :=
  { id := "m/C", name := "C", isPublic := true, superclasses := ["m.A", "m.B"], ctor := some cExInit }

set_option maxRecDepth 100000 in
example : (match createClassString ⟨{}, true⟩ 3 cEx "" false {} with
    | .ok (text, st') => (text, st'.todos)
    | .error _ => ("", [])) =
    ("// TODO Safe-DS does not support required but name only parameter assignments.\n" ++
     "// TODO Safe-DS does not support multiple inheritance.\n" ++
     "class C(\n    x: Int\n) sub A, B", []) := by decide
example : (ctorKeys cEx, genericKeys cEx, inheritanceKeys cEx) =
    (["REQ_NAME_ONLY"], [], ["multiple_inheritance"]) := by decide

/-- the same class with a keyword-named constructor type variable and a keyword-named superclass: the
    names are back-quoted in the generics, the parameter type and the superclass list; the two marker
    blocks are unchanged (the generics of the class are scoped to it: afterwards `classGenerics` is again
    what it was before, here `[]`) -/
private def cKwInit : Function :=
  { cExInit with
    typeVars := [{ name := "from", upperBound := none }],
    params := [
      { id := "m/C/__init__/self", name := "self", isOptional := false, default := .none,
        assignedBy := .implicit, type := none },
      { id := "m/C/__init__/x", name := "x", isOptional := false, default := .none, assignedBy := .nameOnly,
        type := some (.typeVar "from") }] }
private def cKw : Class :=
  { id := "m/C", name := "C", isPublic := true, superclasses := ["m.A", "m.in"], ctor := some cKwInit }

set_option maxRecDepth 100000 in
example : (match createClassString ⟨{}, true⟩ 3 cKw "" false {} with
    | .ok (text, st') => (text, st'.todos, st'.classGenerics)
    | .error _ => ("", [], [])) =
    ("// TODO Safe-DS does not support required but name only parameter assignments.\n" ++
     "// TODO Safe-DS does not support multiple inheritance.\n" ++
     "class C<`from`>(\n    x: `from`\n) sub A, `in`", [], []) := by decide
example : publicSuperNames cKw.superclasses = ["A", "`in`"] := by decide
example : (ctorKeys cKw, genericKeys cKw, inheritanceKeys cKw) =
    (["REQ_NAME_ONLY"], [], ["multiple_inheritance"]) := by decide

end Examples

end StubGen.C20
