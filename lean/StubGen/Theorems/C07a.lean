/-
C07 (analyser side) — "… For un-annotated functions the inferred result types cover every literal
return value reachable through if/else, loops, try/except, with and match blocks and conditional
expressions, and a tuple return yields one result per position."

Property theorems about `findReturns` (`find_return_stmts_recursive`), `exprToType`
(`mypy_expression_to_sds_type`), `inferFromReturns` (`_infer_type_from_return_stmts`) and
`createInferredResults` (`_create_inferred_results`) of `StubGen.Model.Analyze`.
Vocabulary and helper lemmas: `StubGen/Proofs/Inference.lean` (prefix `u07_`):

* `u07_ReturnIn r body` — `return r` occurs in `body` (inductive, one constructor per nesting form);
* `u07_LitExpr e`       — `e` is a literal expression;
* `u07_Leaf body e`     — `e` is looked at as a whole: a returned expression (not a conditional
                          expression, not the name `self`) or a branch of a returned conditional expression;
* `u07_Cand body t`     — `t` is a candidate type: the type of a leaf that is neither a call nor a member
                          access and whose type is a `NamedType`/`TupleType`; or the class of a returned `self`;
* `u07_collected body`  — the candidates in source order, without repetitions, first occurrences; a
                          repetition is a STRUCTURALLY equal type (`AType.beq`, i.e. `=`: the tool keys the
                          collected types by `str(type.to_dict())`), NOT an `==` one: Python's
                          `TupleType.__eq__` ignores the order of the element types, so de-duplication by
                          `==` used to drop `(str, int)` after `(int, str)`;
* `u07_keyLe`           — `inferSortKey a ≤ inferSortKey b`;
* `u07_maxWidth`, `u07_colAt`, `u07_colType` — see section 5.

Nesting forms.  `Stmt` carries: `ret`, `if_ body (else?)`, `block`, `try_ body handlers`, `match_ bodies`,
`loop body` (While / For / With), and the leaves `assign`, `docExpr`, `other`.  It does NOT carry the
`else` block of a loop, the `else` block of a `try` nor its `finally` block: the model (like the tool,
which looks at `body`/`else_body` of an `IfStmt`, `body`+`handlers` of a `TryStmt`, `bodies` of a
`MatchStmt` and `body` of loops / `with`) does not search those; a `return` there is in an `other`
position of the model and is not found.
-/
import StubGen.Proofs.Inference

namespace StubGen.C07a

open StubGen

/-! ### 1. `findReturns` finds exactly the nested `return` statements -/

/-- (1) `return r` occurs in `body` — directly, or nested in if/else branches, blocks, try bodies and
    handlers, match bodies, loop / with bodies, to any depth — iff `findReturns body` lists it. -/
theorem findReturns_complete (r : Option Expr) (body : List Stmt) :
    u07_ReturnIn r body ↔ r ∈ findReturns body :=
  u07_returnIn_iff r body

/-- (1, the forms one by one) what `findReturns` does on each statement form: concatenation in source
    order; the three leaf forms contribute nothing -/
theorem findReturns_forms (ss : List Stmt) :
    findReturns [] = [] ∧
    (∀ e, findReturns (.ret e :: ss) = e :: findReturns ss) ∧
    (∀ body, findReturns (.if_ body none :: ss) = findReturns body ++ findReturns ss) ∧
    (∀ body b, findReturns (.if_ body (some b) :: ss) = findReturns body ++ findReturns b ++ findReturns ss) ∧
    (∀ body, findReturns (.block body :: ss) = findReturns body ++ findReturns ss) ∧
    (∀ body hs, findReturns (.try_ body hs :: ss) = findReturns body ++ findReturns hs ++ findReturns ss) ∧
    (∀ bodies, findReturns (.match_ bodies :: ss) = findReturns bodies ++ findReturns ss) ∧
    (∀ body, findReturns (.loop body :: ss) = findReturns body ++ findReturns ss) ∧
    (∀ a, findReturns (.assign a :: ss) = findReturns ss) ∧
    (∀ x y, findReturns (.docExpr x y :: ss) = findReturns ss) ∧
    findReturns (.other :: ss) = findReturns ss := by
  refine ⟨by rw [findReturns], ?_, ?_, ?_, ?_, ?_, ?_, ?_, ?_, ?_, ?_⟩
  · intro e; rw [u07_findReturns_cons, u07_findReturnsIn_ret]; rfl
  · intro b; rw [u07_findReturns_cons, u07_findReturnsIn_if_none]
  · intro b c; rw [u07_findReturns_cons, u07_findReturnsIn_if_some]
  · intro b; rw [u07_findReturns_cons, u07_findReturnsIn_block]
  · intro b c; rw [u07_findReturns_cons, u07_findReturnsIn_try]
  · intro b; rw [u07_findReturns_cons, u07_findReturnsIn_match]
  · intro b; rw [u07_findReturns_cons, u07_findReturnsIn_loop]
  · intro a; rw [u07_findReturns_cons]; rfl
  · intro a b; rw [u07_findReturns_cons]; rfl
  · rw [u07_findReturns_cons]; rfl

/-! ### 2. coverage and soundness of `inferFromReturns` -/

/-- `exprToType` never fails -/
theorem exprToType_total (e : Expr) : ∃ t, exprToType e = .ok t := ⟨_, u07_exprToType_eq e⟩

/-- the type of a literal expression is a `NamedType` or a `TupleType` (so it is not skipped), a literal is
    neither a call nor a member access -/
theorem litExpr_inferable {e : Expr} (h : u07_LitExpr e) :
    isCallOrMember e = false ∧ ∃ t, exprToType e = .ok t ∧ isNamedOrTuple t = true :=
  ⟨(u07_litExpr_facts h).1, _, u07_exprToType_eq e, (u07_litExpr_facts h).2.1⟩

/-- the types of the literals -/
theorem litExpr_types :
    (∀ v, exprToType (.int v) = .ok (.named "int" "builtins.int")) ∧
    (∀ r, exprToType (.float r) = .ok (.named "float" "builtins.float")) ∧
    (∀ v, exprToType (.str v) = .ok (.named "str" "builtins.str")) ∧
    (∀ fq s tn tq, exprToType (.name "True" fq s tn tq) = .ok (.named "bool" "builtins.bool")) ∧
    (∀ fq s tn tq, exprToType (.name "False" fq s tn tq) = .ok (.named "bool" "builtins.bool")) ∧
    (∀ fq s tn tq, exprToType (.name "None" fq s tn tq) = .ok (.named "None" fq)) ∧
    (∀ op e, exprToType (.unary op e) = exprToType e) ∧
    (∀ items ts, exprsToTypes items = .ok ts → exprToType (.tuple items) = .ok (.tuple ts)) := by
  refine ⟨fun _ => rfl, fun _ => rfl, fun _ => rfl, fun _ _ _ _ => rfl, fun _ _ _ _ => rfl,
    fun _ _ _ _ => rfl, fun _ _ => by rw [exprToType], fun items ts h => by rw [exprToType, h]⟩

/-- (2, coverage — general form) every candidate type is ITSELF a member of the result (not merely `==`
    to a member): nothing returned is dropped except calls, member accesses and expressions whose type
    is not a `NamedType`/`TupleType` (`u07_Cand` spells the exceptions out) -/
theorem inferFromReturns_covers_general (body : List Stmt) (ts : List AType)
    (h : inferFromReturns body = .ok (some (.tuple ts))) (t' : AType) (hc : u07_Cand body t') :
    t' ∈ ts := by
  obtain ⟨_, rfl⟩ := u07_infer_ok h
  exact (u07_mem_sorted_collected body t').2 (u07_collected_complete hc)

/-- (2, coverage — general form, the weaker `==` reading) corollary of `inferFromReturns_covers_general`
    by reflexivity of `==` -/
theorem inferFromReturns_covers_general_pyEq (body : List Stmt) (ts : List AType)
    (h : inferFromReturns body = .ok (some (.tuple ts))) (t' : AType) (hc : u07_Cand body t') :
    ∃ t ∈ ts, t.pyEq t' = true :=
  ⟨t', inferFromReturns_covers_general body ts h t' hc, u07_pyEq_refl t'⟩

/-- (2, coverage) the inferred result types cover every returned literal: for every `return e` in `body`
    — nested to any depth — with `e` a literal expression the type of `e` is a member of the result;
    for a returned conditional expression `a if c else b` the same holds for each branch that is a
    literal; for `return self` the class of `self` is a member. -/
theorem inferFromReturns_covers (body : List Stmt) (ts : List AType)
    (h : inferFromReturns body = .ok (some (.tuple ts))) :
    (∀ e, u07_ReturnIn (some e) body → u07_LitExpr e →
        ∃ t', exprToType e = .ok t' ∧ t' ∈ ts) ∧
    (∀ a b e, u07_ReturnIn (some (.cond a b)) body → (e = a ∨ e = b) → u07_LitExpr e →
        ∃ t', exprToType e = .ok t' ∧ t' ∈ ts) ∧
    (∀ n fq tn tq, u07_ReturnIn (some (.name n fq true tn tq)) body →
        AType.named tn tq ∈ ts) := by
  refine ⟨fun e hr hl => ?_, fun a b e hr he hl => ?_, fun n fq tn tq hr => ?_⟩
  · have hf := u07_litExpr_facts hl
    exact ⟨_, u07_exprToType_eq e, inferFromReturns_covers_general body ts h _
      (.inl ⟨e, .inl ⟨hr, hf.2.2.1, hf.2.2.2⟩, hf.1, u07_exprToType_eq e, hf.2.1⟩)⟩
  · have hf := u07_litExpr_facts hl
    exact ⟨_, u07_exprToType_eq e, inferFromReturns_covers_general body ts h _
      (.inl ⟨e, .inr ⟨a, b, hr, he⟩, hf.1, u07_exprToType_eq e, hf.2.1⟩)⟩
  · exact inferFromReturns_covers_general body ts h _ (.inr ⟨n, fq, tn, tq, hr, rfl⟩)

/-- (2, soundness) nothing is invented: every member of the result is — exactly, not only up to `==` —
    the type `exprToType e` of a leaf `e` (a returned expression or a branch of a returned conditional
    expression) that is neither a call nor a member access and whose type is a `NamedType`/`TupleType`,
    or the class `NamedType(tn, tq)` of a returned `self`. -/
theorem inferFromReturns_members (body : List Stmt) (ts : List AType)
    (h : inferFromReturns body = .ok (some (.tuple ts))) (t : AType) (ht : t ∈ ts) :
    (∃ e, u07_Leaf body e ∧ isCallOrMember e = false ∧ exprToType e = .ok t ∧ isNamedOrTuple t = true) ∨
    (∃ n fq tn tq, u07_ReturnIn (some (.name n fq true tn tq)) body ∧ t = .named tn tq) := by
  obtain ⟨_, rfl⟩ := u07_infer_ok h
  exact u07_collected_sound ((u07_mem_sorted_collected body t).1 ht)

/-- (2, exactly which expressions are skipped) `t` is a candidate iff … ; together with
    `inferFromReturns_covers_general` / `inferFromReturns_members`: the members of the result are
    EXACTLY the candidates.  Skipped are therefore ONLY: bare `return`s; calls and member accesses (as
    returned expression or as a branch); leaves whose `exprToType` is not a `NamedType`/`TupleType`
    (`UnknownType`: a conditional expression inside a branch, `other` expressions). -/
theorem members_iff_candidates (body : List Stmt) (ts : List AType)
    (h : inferFromReturns body = .ok (some (.tuple ts))) (t : AType) :
    t ∈ ts ↔ u07_Cand body t :=
  ⟨inferFromReturns_members body ts h t, inferFromReturns_covers_general body ts h t⟩

/-- (2, the weaker `==` reading of `members_iff_candidates`) up to `==` the members of the result are
    exactly the candidates -/
theorem members_iff_candidates_pyEq (body : List Stmt) (ts : List AType)
    (h : inferFromReturns body = .ok (some (.tuple ts))) (t : AType) :
    (∃ x ∈ ts, x.pyEq t = true) ↔ ∃ t', u07_Cand body t' ∧ t'.pyEq t = true := by
  constructor
  · rintro ⟨x, hx, hxt⟩
    exact ⟨x, inferFromReturns_members body ts h x hx, hxt⟩
  · rintro ⟨t', hc, htt⟩
    exact ⟨t', inferFromReturns_covers_general body ts h t' hc, htt⟩

/-- (2, the statement "every member is `exprToType e` of a returned `e`" is FALSE for `return self`)
    counterexample: the member is the class of `self`, not `exprToType` of the name -/
example :
    inferFromReturns [.ret (some (.name "self" "self" true "C" "pkg.C"))]
        = .ok (some (.tuple [.named "C" "pkg.C"])) ∧
    exprToType (.name "self" "self" true "C" "pkg.C") = .ok (.named "self" "self") ∧
    (AType.named "C" "pkg.C").pyEq (.named "self" "self") = false :=
  ⟨rfl, rfl, rfl⟩

/-- (2, soundness, the literal reading) when no `self` is returned, every member is `exprToType e` of
    a leaf `e` -/
theorem inferFromReturns_members_partial (body : List Stmt) (ts : List AType)
    (h : inferFromReturns body = .ok (some (.tuple ts)))
    (hself : ∀ n fq tn tq, ¬ u07_ReturnIn (some (.name n fq true tn tq)) body) (t : AType) (ht : t ∈ ts) :
    ∃ e, u07_Leaf body e ∧ exprToType e = .ok t := by
  rcases inferFromReturns_members body ts h t ht with ⟨e, hl, _, he, _⟩ | ⟨n, fq, tn, tq, hr, _⟩
  · exact ⟨e, hl, he⟩
  · exact absurd hr (hself n fq tn tq)

/-! ### 3. order of the members -/

/-- (3) the members are sorted by `inferSortKey` (class name; for a tuple the decimal length), no
    member occurs twice (`Nodup`: the members are pairwise structurally different — two members MAY be
    `==`, see the example below); the sort is stable: members with the same key stand in the order of
    `u07_collected body`, i.e. in the order of their first occurrence in the source. -/
theorem inferFromReturns_order (body : List Stmt) (ts : List AType)
    (h : inferFromReturns body = .ok (some (.tuple ts))) :
    ts.Pairwise (fun a b => inferSortKey a ≤ inferSortKey b) ∧
    ts.Nodup ∧
    ts.Perm (u07_collected body) ∧
    (∀ k, ts.filter (fun x => inferSortKey x == k) = (u07_collected body).filter (fun x => inferSortKey x == k)) := by
  obtain ⟨_, rfl⟩ := u07_infer_ok h
  exact ⟨u07_sortBy_sorted _, u07_sorted_nodup _ (u07_collected_nodup body), sortBy_perm _ _,
    fun k => u07_sortBy_stable k _⟩

/-- (3, the former second conclusion `ts.Pairwise (fun a b => a.pyEq b = false)` is FALSE) two members
    that are `==` (Python's `TupleType.__eq__` compares the element types as multisets) but different:
    `if c: return 1, "a"` / `return "b", 2` keeps `(int, str)` and `(str, int)`, in source order
    (same key `"2"`, stable sort) -/
example :
    inferFromReturns
        [.if_ [.ret (some (.tuple [.int 1, .str "a"]))] none, .ret (some (.tuple [.str "b", .int 2]))]
      = .ok (some (.tuple [.tuple [.named "int" "builtins.int", .named "str" "builtins.str"],
                           .tuple [.named "str" "builtins.str", .named "int" "builtins.int"]])) ∧
    (AType.tuple [.named "int" "builtins.int", .named "str" "builtins.str"]).pyEq
        (.tuple [.named "str" "builtins.str", .named "int" "builtins.int"]) = true ∧
    AType.tuple [.named "int" "builtins.int", .named "str" "builtins.str"]
      ≠ .tuple [.named "str" "builtins.str", .named "int" "builtins.int"] ∧
    ¬ [AType.tuple [.named "int" "builtins.int", .named "str" "builtins.str"],
       AType.tuple [.named "str" "builtins.str", .named "int" "builtins.int"]].Pairwise
        (fun a b => a.pyEq b = false) := by
  refine ⟨rfl, by decide +kernel, fun h => ?_, fun h => ?_⟩
  · exact absurd ((u07_beq_iff_eq _ _).2 h) (by decide +kernel)
  · exact absurd (List.rel_of_pairwise_cons h List.mem_cons_self) (by decide +kernel)

/-- (3, what "first occurrence" means) `u07_collected body` is a sublist of the candidate sequence
    (the candidates of the `return`s in source order; for a conditional expression the `if` branch before
    the `else` branch), it has no member twice, and a candidate is dropped exactly when an
    earlier kept one is structurally equal to it (`typeInSetExact`), i.e. exactly when the same type
    stands earlier in the candidate sequence. -/
theorem collected_first_occurrence (body : List Stmt) :
    (u07_collected body).Sublist ((findReturns body).flatMap u07_cands) ∧
    (u07_collected body).Nodup ∧
    (∀ pre post t, (findReturns body).flatMap u07_cands = pre ++ t :: post →
        u07_collected body =
          u07_addAll (if typeInSetExact t (u07_addAll [] pre) then u07_addAll [] pre else u07_addAll [] pre ++ [t]) post ∧
        (typeInSetExact t (u07_addAll [] pre) = true ↔ t ∈ pre)) := by
  refine ⟨?_, u07_collected_nodup body, fun pre post t hs => ⟨?_, ?_⟩⟩
  · obtain ⟨m, hm, hs⟩ := u07_addAll_sublist [] ((findReturns body).flatMap u07_cands)
    unfold u07_collected
    rw [hm]; exact hs
  · unfold u07_collected
    rw [hs, u07_addAll_first]
  · rw [u07_addAll_first_mem]
    exact ⟨fun h => h.elim (fun h => absurd h List.not_mem_nil) id, .inr⟩

/-- (3, the result in closed form) -/
theorem inferFromReturns_eq (body : List Stmt) :
    inferFromReturns body =
      if (findReturns body).isEmpty then .ok none
      else .ok (some (.tuple (sortBy u07_keyLe (u07_collected body)))) :=
  u07_inferFromReturns_eq body

/-! ### 4. no return statement; errors -/

/-- (4) `None` (no inferred type) iff the body has no `return` statement at all (in the searched
    positions).  A body whose only `return`s are bare or skipped gives an EMPTY TupleType, not `None`. -/
theorem inferFromReturns_none_iff (body : List Stmt) :
    inferFromReturns body = .ok none ↔ findReturns body = [] := by
  rw [u07_inferFromReturns_eq]
  constructor
  · intro h
    split at h
    · rename_i he; exact List.isEmpty_iff.1 he
    · cases h
  · intro h; rw [h]; rfl

/-- (4, errors) there is no error case: `exprToType` never fails, hence `inferFromReturns` never fails,
    and its result is `None` or a TupleType -/
theorem inferFromReturns_total (body : List Stmt) :
    inferFromReturns body = .ok none ∨ ∃ ts, inferFromReturns body = .ok (some (.tuple ts)) := by
  rw [u07_inferFromReturns_eq]
  split
  · exact .inl rfl
  · exact .inr ⟨_, rfl⟩

theorem inferFromReturns_no_error (body : List Stmt) (e : PyErr) : inferFromReturns body ≠ .error e := by
  rcases inferFromReturns_total body with h | ⟨ts, h⟩ <;> rw [h] <;> intro h' <;> cases h'

/-! ### 5. one result per position -/

/-- (5) `createInferredResults` on classes and tuples: the number of results is the greatest width (a
    class counts as width 1, a tuple as its length; no types: no results); result `i` carries the single
    member of column `i` or the union of its members (`u07_colType`), where column `i` is
    `u07_colAt i types` — the `i`-th components in the order of `types`, a class always appended to column 0,
    a tuple component appended unless the column already has an `==` member — plus `None` at the end when
    the column is shorter than `u07_longest types` and has no `None` (`u07_pad`).
    Ids are `functionId/name`; a name is a non-empty name of a docstring entry or `result_k`,
    `1 ≤ k ≤ number of results`; without docstring entries the names are `result_1 … result_n` in order. -/
theorem createInferredResults_positions (types : List AType) (docs : List ResultDoc) (fid : String)
    (h : ∀ t ∈ types, isNamedOrTuple t = true) :
    ∃ rs, createInferredResults types docs fid = .ok rs ∧
      rs.length = u07_maxWidth types ∧
      (∀ i (hi : i < rs.length),
        rs[i].type = some (u07_colType (u07_pad (u07_longest types) (u07_colAt i types)))) ∧
      (∀ r ∈ rs, r.id = fid ++ "/" ++ r.name) ∧
      (∀ r ∈ rs, (∃ d ∈ docs, d.name ≠ "" ∧ r.name = d.name) ∨
          ∃ k, 1 ≤ k ∧ k ≤ rs.length ∧ r.name = resultNameGen k) ∧
      (docs = [] → rs.map (·.name) = (List.range (u07_maxWidth types)).map (fun i => resultNameGen (i + 1))) := by
  obtain ⟨rs, h1, h2, h3⟩ := u07_createInferredResults_ok types docs fid h
  have hl : rs.length = u07_maxWidth types := by rw [h2.length]; simp
  refine ⟨rs, h1, hl, ?_, h2.ids, ?_, ?_⟩
  · intro i hi
    have ht := h2.types
    have : (rs.map (·.type))[i]'(by simpa using hi) = rs[i].type := by simp
    rw [← this]
    simp only [ht, List.map_map, List.getElem_map, List.getElem_range, Function.comp]
  · intro r hr
    rcases h2.names r hr with h | ⟨j, h1, h2, h3⟩
    · exact .inl h
    · exact .inr ⟨j, h1, by omega, h3⟩
  · intro he
    rw [h3 he]
    apply List.map_congr_left
    intro i _
    rw [Nat.add_comm]

/-- (5, the only error) a member that is neither a class nor a tuple type is a `TypeError` -/
theorem createInferredResults_error_iff (types : List AType) (docs : List ResultDoc) (fid : String) (e : PyErr) :
    createInferredResults types docs fid = .error e ↔
      e = .typeError ∧ ∃ t ∈ types, isNamedOrTuple t = false := by
  by_cases h : ∃ t ∈ types, isNamedOrTuple t = false
  · rw [u07_createInferredResults_err types docs fid h]
    constructor
    · intro h'; cases h'; exact ⟨rfl, h⟩
    · rintro ⟨rfl, _⟩; rfl
  · have h' : ∀ t ∈ types, isNamedOrTuple t = true := by
      intro t ht
      cases hb : isNamedOrTuple t with
      | true => rfl
      | false => exact absurd ⟨t, ht, hb⟩ h
    obtain ⟨rs, h1, _⟩ := u07_createInferredResults_ok types docs fid h'
    rw [h1]
    constructor
    · intro hc; cases hc
    · rintro ⟨_, hc⟩; exact absurd hc h

/-- (5, on inferred types it never fails) the members of an inferred TupleType are classes and tuples -/
theorem inferred_members_namedOrTuple (body : List Stmt) (ts : List AType)
    (h : inferFromReturns body = .ok (some (.tuple ts))) : ∀ t ∈ ts, isNamedOrTuple t = true := by
  intro t ht
  exact u07_cand_namedOrTuple (inferFromReturns_members body ts h t ht)

/-- (5) the number of results is the maximum of the widths -/
theorem maxWidth_spec (types : List AType) :
    (∀ t ∈ types, u07_width t ≤ u07_maxWidth types) ∧
    (u07_maxWidth types = 0 ∨ ∃ t ∈ types, u07_width t = u07_maxWidth types) ∧
    (∀ n q, u07_width (.named n q) = 1) ∧ (∀ ts, u07_width (.tuple ts) = ts.length) := by
  obtain ⟨_, h2, h3⟩ := u07_foldl_max u07_width types 0
  exact ⟨h2, h3, fun _ _ => rfl, fun _ => rfl⟩

/-- (5, the members of a position) every member of column `i` is the `i`-th component of one of the types
    (`u07_comp`: the `i`-th member of a tuple; a class is its own component 0), and every `i`-th
    component is represented (`==`) in column `i`; padding adds at most `None`. -/
theorem column_members (i : Nat) (types : List AType) (x : AType) :
    (x ∈ u07_colAt i types → ∃ t ∈ types, u07_comp i t = some x) ∧
    (∀ t ∈ types, u07_comp i t = some x → ∃ y ∈ u07_colAt i types, y.pyEq x = true) ∧
    (∀ L, x ∈ u07_pad L (u07_colAt i types) ↔
      x ∈ u07_colAt i types ∨
      (x = .named "None" "builtins.None" ∧ (u07_colAt i types).length < L ∧
        typeInSet (.named "None" "builtins.None") (u07_colAt i types) = false)) := by
  refine ⟨fun h => ?_, fun t ht hc => u07_foldl_colStep_covers [] ht hc, fun L => u07_mem_pad L _ x⟩
  rcases u07_mem_foldl_colStep h with h | h
  · exact absurd h List.not_mem_nil
  · exact h

/-- (5, single type / union) -/
theorem colType_cases :
    (∀ x, u07_colType [x] = x) ∧ u07_colType [] = .union [] ∧
    (∀ x y zs, u07_colType (x :: y :: zs) = .union (x :: y :: zs)) :=
  ⟨fun _ => rfl, rfl, fun _ _ _ => rfl⟩

/-- (5) `longest` starts at 1, only grows, and never exceeds the length of the longest column: when all
    columns have the same length, no `None` is added -/
theorem longest_bounds (types : List AType) :
    1 ≤ u07_longest types ∧
    (u07_longest types ≤ 1 ∨ ∃ i, i < u07_maxWidth types ∧ u07_longest types ≤ (u07_colAt i types).length) :=
  ⟨u07_longest_pos types, u07_longest_bound types⟩

/-- (5) how `longest` evolves: a class leaves it alone (also when it lengthens column 0), a new column
    leaves it alone; a tuple component appended to an EXISTING column raises it to that column's new
    length -/
theorem longest_steps (types : List AType) :
    u07_longest [] = 1 ∧
    (∀ n q, u07_longest (types ++ [.named n q]) = u07_longest types) ∧
    (∀ ts, u07_longest (types ++ [.tuple ts]) =
        u07_mergeLongest (u07_longest types)
          ((List.range (u07_maxWidth types)).map (fun i => u07_colAt i types)) ts) ∧
    (∀ m cols, u07_mergeLongest m cols [] = m) ∧ (∀ m us, u07_mergeLongest m [] us = m) ∧
    (∀ m c cs u us, u07_mergeLongest m (c :: cs) (u :: us) =
        u07_mergeLongest (if typeInSet u c then m else max m (c.length + 1)) cs us) := by
  refine ⟨rfl, ?_, ?_, fun m cols => ?_, u07_mergeLongest_nil_left, fun _ _ _ _ _ => rfl⟩
  · intro n q
    unfold u07_longest
    rw [List.foldl_append, List.foldl_cons, List.foldl_nil]
    generalize types.foldl u07_placeP ([], 1) = st
    obtain ⟨arr, l⟩ := st
    cases arr <;> rfl
  · intro ts
    unfold u07_longest
    rw [List.foldl_append, List.foldl_cons, List.foldl_nil, ← u07_arr_eq]
    rfl
  · cases cols <;> rfl

/-- (5, end to end) a function without signature type (`node.type` is `None`: un-annotated) that is not
    `__init__`: no `return` statement — no results; otherwise the results are
    `createInferredResults` of the inferred members, which never fails, the analyser state is
    untouched, and there is one result per position of the widest inferred type. -/
theorem parseResults_unannotated (env : AEnv) (f : FuncDef) (fid : String) (docs : List ResultDoc) (s : VSt)
    (hn : (f.name == "__init__") = false) (hc : f.hasCallableType = false) :
    (findReturns f.body = [] → parseResults env f fid docs s = .ok ([], s)) ∧
    (∀ ts, inferFromReturns f.body = .ok (some (.tuple ts)) →
      ∃ rs, createInferredResults ts docs fid = .ok rs ∧ parseResults env f fid docs s = .ok (rs, s) ∧
        rs.length = u07_maxWidth ts) := by
  have hp := u07_parseResults_unannotated env f fid docs s hn hc
  refine ⟨fun he => ?_, fun ts hi => ?_⟩
  · rw [hp, he]; rfl
  · obtain ⟨hne, rfl⟩ := u07_infer_ok hi
    obtain ⟨rs, h1, h2, _⟩ := createInferredResults_positions _ docs fid
      (inferred_members_namedOrTuple f.body _ hi)
    refine ⟨rs, h1, ?_, h2⟩
    have : (findReturns f.body).isEmpty = false := by
      cases hb : (findReturns f.body).isEmpty with
      | false => rfl
      | true => exact absurd (List.isEmpty_iff.1 hb) hne
    rw [hp, this, h1]; rfl

/-! ### 6. examples (kernel-checked) -/

def exInt : AType := .named "int" "builtins.int"
def exStr : AType := .named "str" "builtins.str"
def exFloat : AType := .named "float" "builtins.float"
def exBool : AType := .named "bool" "builtins.bool"
def exNone : AType := .named "None" "builtins.None"
def exNoneE : Expr := .name "None" "builtins.None" false "" ""
def exTrueE : Expr := .name "True" "builtins.True" false "" ""

/-- `if c: return 1 else: return "a"` -/
example :
    inferFromReturns [.if_ [.block [.ret (some (.int 1))]] (some [.ret (some (.str "a"))])]
      = .ok (some (.tuple [exInt, exStr])) := rfl

/-- the order is by class name, not by source position: `return "a"` first, `int` still first -/
example :
    inferFromReturns [.if_ [.block [.ret (some (.str "a"))]] (some [.ret (some (.int 1))])]
      = .ok (some (.tuple [exInt, exStr])) := rfl

/-- loop + try/except: `for …: try: return 1.5  except: return True`, then `return -1` -/
example :
    inferFromReturns
      [.loop [.try_ [.ret (some (.float "1.5"))] [.block [.ret (some exTrueE)]]],
       .ret (some (.unary "-" (.int 1)))]
      = .ok (some (.tuple [exBool, exFloat, exInt])) := rfl

/-- `return 1, "a"` and `return None`: the tuple (key `"2"`) sorts before `None` -/
example :
    inferFromReturns [.if_ [.block [.ret (some (.tuple [.int 1, .str "a"]))]] none, .ret (some exNoneE)]
      = .ok (some (.tuple [.tuple [exInt, exStr], exNone])) := rfl

/-- conditional expression with a call in one branch: `return 1 if c else f()`; the call is skipped -/
example :
    inferFromReturns [.ret (some (.cond (.int 1) .call))] = .ok (some (.tuple [exInt])) := rfl

/-- a match statement with a bare `return`, a returned call and a repeated literal -/
example :
    inferFromReturns [.match_ [.block [.ret none], .block [.ret (some .call)], .block [.ret (some (.int 2))],
        .block [.ret (some (.int 3))]]]
      = .ok (some (.tuple [exInt])) := rfl

/-- only skipped returns: an empty TupleType, not "no type" -/
example : inferFromReturns [.ret (some .call)] = .ok (some (.tuple [])) := rfl
example : inferFromReturns [.assign ⟨[], none⟩, .other] = .ok none := rfl

/-- non-vacuity of the vocabulary -/
example : u07_ReturnIn (some (.int 1)) [.other, .loop [.try_ [] [.block [.ret (some (.int 1))]]]] :=
  .later (.loopBody (.tryHandler (.block (.here _))))
example : u07_LitExpr (.tuple [.unary "-" (.int 1), exNoneE, .str "x"]) :=
  .tuple (by
    intro x hx
    simp only [List.mem_cons, List.mem_nil_iff, or_false] at hx
    rcases hx with rfl | rfl | rfl
    · exact .unary _ (.int 1)
    · exact .const _ _ _ _ (.inr (.inr rfl))
    · exact .str _)

/-! examples for `createInferredResults` -/

def res (k : Nat) (t : AType) : Result :=
  { id := "m/f/result_" ++ toString k, name := "result_" ++ toString k, type := some t }

/-- the repaired defect: `if c: return 1, "a"` / `return "b", 2`.  Both tuples are kept (the
    de-duplication by `==` used to drop `(str, int)`, because `TupleType.__eq__` ignores the order of the
    element types, and the function then got `result_1: int`, `result_2: str`); `createInferredResults`
    yields two results, each the union of `int` and `str`: `result_1: union[int, str]`,
    `result_2: union[str, int]` (members in source order per position; both positions have length 2, so
    no `None` is added). -/
example :
    inferFromReturns
        [.if_ [.ret (some (.tuple [.int 1, .str "a"]))] none, .ret (some (.tuple [.str "b", .int 2]))]
      = .ok (some (.tuple [.tuple [exInt, exStr], .tuple [exStr, exInt]])) ∧
    createInferredResults [.tuple [exInt, exStr], .tuple [exStr, exInt]] [] "m/f"
      = .ok [res 1 (.union [exInt, exStr]), res 2 (.union [exStr, exInt])] ∧
    -- what the de-duplication by `==` produced: the single tuple, hence `int` and `str`
    typeInSet (.tuple [exStr, exInt]) [.tuple [exInt, exStr]] = true ∧
    typeInSetExact (.tuple [exStr, exInt]) [.tuple [exInt, exStr]] = false ∧
    createInferredResults [.tuple [exInt, exStr]] [] "m/f" = .ok [res 1 exInt, res 2 exStr] :=
  ⟨rfl, rfl, by decide +kernel, by decide +kernel, rfl⟩

/-- `return 1, "a"`: one result per position -/
example : createInferredResults [.tuple [exInt, exStr]] [] "m/f" = .ok [res 1 exInt, res 2 exStr] := rfl

/-- `return 1, "a"` and `return None` (inferred order: the tuple first): `None` joins position 1 only -/
example :
    createInferredResults [.tuple [exInt, exStr], exNone] [] "m/f"
      = .ok [res 1 (.union [exInt, exNone]), res 2 exStr] := rfl

/-- tuples of different length: the missing position gets `None` only if `longest` grew -/
example :
    createInferredResults [.tuple [exInt], .tuple [exFloat, exStr]] [] "m/f"
      = .ok [res 1 (.union [exInt, exFloat]), res 2 (.union [exStr, exNone])] := rfl

/-- `return 1, "a"` and `return 1.5, "b"`: position 2 has `str` twice, is not extended — and is then
    "shorter" than position 1, so it gets `None` although every return has two positions -/
example :
    createInferredResults [.tuple [exInt, exStr], .tuple [exFloat, exStr]] [] "m/f"
      = .ok [res 1 (.union [exInt, exFloat]), res 2 (.union [exStr, exNone])] := rfl

/-- several classes: one result, the union; a single class: one result of that class -/
example : createInferredResults [exInt, exStr] [] "m/f" = .ok [res 1 (.union [exInt, exStr])] := rfl
example : createInferredResults [exInt] [] "m/f" = .ok [res 1 exInt] := rfl
example : createInferredResults [] [] "m/f" = .ok [] := rfl

/-- a documented name is used -/
example :
    createInferredResults [exInt] [{ type := some exInt, name := "count", description := "" }] "m/f"
      = .ok [{ id := "m/f/count", name := "count", type := some exInt }] := rfl

/-- not a class, not a tuple: `TypeError` -/
example : createInferredResults [.unknown] [] "m/f" = .error .typeError := rfl

end StubGen.C07a
