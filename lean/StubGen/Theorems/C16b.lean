/-
C16 — whole-tool part: a second run of `_run_stub_generator` into the directory the first run filled.
-/
import StubGen.Proofs.Pipeline
import StubGen.Theorems.C16

namespace StubGen.C16b

open StubGen

/-- nothing before the file writes looks at the output directory -/
theorem getApi_ignores_output_dir (i : ToolInput) (pre : List String) : getApi { i with preexisting := pre } = getApi i := rfl

/-- END TO END (partial: for class paths of other libraries that are coherent, `CoherentOutside`; the kernel-checked
    counterexample without it is in `Theorems/C16`): running the whole tool a second time, into the directory that now holds
    the files of the first run, computes the same result — same API, same API file text, same stubs, same write operations —
    and applying those operations again leaves every file as the first run left it. -/
theorem tool_second_run_partial (i : ToolInput) {o : ToolOutput}
    (h : runTool { i with preexisting := [] } = .ok o) (hc : CoherentOutside o.gen.outside) :
    runTool { i with preexisting := (applyWrites [] o.gen.ops).map (·.1) } = .ok o
    ∧ applyWrites (applyWrites [] o.gen.ops) o.gen.ops = applyWrites [] o.gen.ops := by
  unfold runTool at h ⊢
  rw [getApi_ignores_output_dir] at h ⊢
  cases ha : getApi i with
  | error e => simp [ha] at h
  | ok a =>
    simp only [ha] at h ⊢
    cases ht : apiJsonText a.packageName a.api with
    | error e => simp [ht] at h
    | ok text =>
      simp only [ht] at h ⊢
      cases hg : runGenerator (a.api.toApi a.packageName) i.safe [] with
      | error e => simp [hg] at h
      | ok gen =>
        simp only [hg, Except.ok.injEq] at h
        subst h
        obtain ⟨h1, h2⟩ := C16.second_run_end_to_end_partial (a.api.toApi a.packageName) i.safe gen hg hc
        exact ⟨by simp only [h1], h2⟩

end StubGen.C16b
