/-
C16 (file part) — "Running the tool a second time into the same output directory leaves exactly the
files a single run produces, with the same contents."

Model: `StubGen.Model.Files` (`createStubFiles`, `applyWrites`, `runGenerator`).  Module stubs are opened
with mode `w`; a placeholder stub for classes of another library is opened with `w` the first time its
directory is met in a run and with `a` afterwards — *if the file exists*.
Proof machinery: `StubGen.Proofs.Files`.

Two of the requested statements are false of the model as literally stated; the counterexamples are
given below and the theorems carry the suffix `_partial`:
`CoherentOutside outside` says that two class paths of other libraries that are sent to the same
directory have the same module name, hence are also sent to the same file (the file name is the module name
without its leading underscores, `outsideFile`).  It holds whenever no class path contains a `/`
(`coherent_of_no_slash`).
-/
import StubGen.Proofs.Files

namespace StubGen.C16

open StubGen

/-! ### 1. the write log does not depend on what is already in the output directory -/

/-- COUNTEREXAMPLE to the unrestricted statement: the class paths `a.b/c.D` and `a/b.c.C` are both sent to
    the directory `a/b/c`, but to different files (`a/b/c/b/c.sdsstub`, `a/b/c/c.sdsstub`).  The second is
    not the first creation in its directory, so it is appended to if and only if it happens to pre-exist. -/
example :
    ((createStubFiles true [] ["a.b/c.D", "a/b.c.C"] []).toOption.map fun ops => ops.map fun o => (o.path, o.mode))
        = some [("a/b/c/b/c.sdsstub", .write), ("a/b/c/c.sdsstub", .write)]
    ∧ ((createStubFiles true [] ["a.b/c.D", "a/b.c.C"] ["a/b/c/c.sdsstub"]).toOption.map
          fun ops => ops.map fun o => (o.path, o.mode))
        = some [("a/b/c/b/c.sdsstub", .write), ("a/b/c/c.sdsstub", .append)] := by decide +kernel

example : ¬ CoherentOutside ["a.b/c.D", "a/b.c.C"] := by
  intro h
  exact absurd (h "a.b/c.D" (by simp) "a/b.c.C" (by simp) (by decide)) (by decide)

/-- Whether a placeholder is appended or written is decided by "first creation in this run" alone: when it
    is not the first creation, the file was written earlier in the same run, hence exists. -/
theorem ops_independent_of_preexisting_partial (safe : Bool) (stubs : List StubData) (outside pre pre' : List String)
    (h : CoherentOutside outside) :
    createStubFiles safe stubs outside pre = createStubFiles safe stubs outside pre' :=
  createStubFiles_indep safe stubs outside pre pre' h

/-- the side condition holds for class paths without `/` -/
theorem coherent_of_no_slash (outside : List String) (h : ∀ c ∈ outside, '/' ∉ c.toList) : CoherentOutside outside :=
  coherentOutside_of_no_slash outside h

/-! ### 2. the first operation on every path is a `write` -/

/-- into an empty directory: no side condition -/
theorem first_op_is_write (safe : Bool) (stubs : List StubData) (outside : List String) (ops : List WriteOp)
    (h : createStubFiles safe stubs outside [] = .ok ops) :
    ∀ (p : String) (op : WriteOp), ops.find? (fun o => o.path == p) = some op → op.mode = .write :=
  createStubFiles_firstOpsWrite_fresh h

/-- into any directory, for coherent class paths -/
theorem first_op_is_write_partial (safe : Bool) (stubs : List StubData) (outside pre : List String) (ops : List WriteOp)
    (hc : CoherentOutside outside) (h : createStubFiles safe stubs outside pre = .ok ops) :
    ∀ (p : String) (op : WriteOp), ops.find? (fun o => o.path == p) = some op → op.mode = .write := by
  rw [createStubFiles_indep safe stubs outside pre [] hc] at h
  exact createStubFiles_firstOpsWrite_fresh h

/-- COUNTEREXAMPLE for a non-empty directory without the side condition: the first (and only) operation on
    `a/b/c/c.sdsstub` is an append to a file of an earlier run. -/
example :
    ((createStubFiles true [] ["a.b/c.D", "a/b.c.C"] ["a/b/c/c.sdsstub"]).toOption.bind fun ops =>
        (ops.find? fun o => o.path == "a/b/c/c.sdsstub").map (·.mode)) = some .append := by decide +kernel

/-! ### 3. a second run leaves the same files -/

/-- For a log whose first operation on every path is a write, and ANY initial directory content `fs`
    (no assumption on `fs`): every touched file ends up with the content it gets in an empty directory,
    every other file is unchanged. -/
theorem second_run_same_files (ops : List WriteOp) (h : FirstOpsWrite ops) (fs : List (String × String)) :
    (∀ p, p ∈ ops.map (·.path) → lookupFile (applyWrites fs ops) p = lookupFile (applyWrites [] ops) p)
    ∧ (∀ p, p ∉ ops.map (·.path) → lookupFile (applyWrites fs ops) p = lookupFile fs p) := by
  constructor
  · intro p hp
    obtain ⟨op, hop⟩ := find?_path_of_mem p ops hp
    rw [lookupFile_applyWrites, lookupFile_applyWrites]
    exact evalOps_first_write p ops _ _ op hop (h p op hop)
  · intro p hp
    rw [lookupFile_applyWrites, evalOps_untouched p ops _ hp]

/-- the set of files after the run: the old ones, then the new ones in order of first creation -/
theorem files_after_run (ops : List WriteOp) (fs : List (String × String)) :
    (applyWrites fs ops).map (·.1) = (ops.map (·.path)).foldl (fun acc p => insertSet p acc) (fs.map (·.1)) :=
  keys_applyWrites ops fs

theorem rerun_idempotent (ops : List WriteOp) (h : FirstOpsWrite ops) :
    (∀ p, lookupFile (applyWrites (applyWrites [] ops) ops) p = lookupFile (applyWrites [] ops) p)
    ∧ (applyWrites (applyWrites [] ops) ops).map (·.1) = (applyWrites [] ops).map (·.1) := by
  constructor
  · intro p
    by_cases hp : p ∈ ops.map (·.path)
    · exact (second_run_same_files ops h _).1 p hp
    · exact (second_run_same_files ops h _).2 p hp
  · rw [keys_applyWrites ops (applyWrites [] ops)]
    apply foldl_insertSet_of_mem
    intro p hp
    rw [keys_applyWrites, mem_foldl_insertSet]
    exact Or.inr hp

/-- … hence the directory after the second run is *equal* to the directory after the first -/
theorem rerun_idempotent_eq (ops : List WriteOp) (h : FirstOpsWrite ops) :
    applyWrites (applyWrites [] ops) ops = applyWrites [] ops := by
  apply fileMap_ext
  · exact (rerun_idempotent ops h).2
  · exact nodup_keys_applyWrites ops _ (nodup_keys_applyWrites ops [] (by simp))
  · exact (rerun_idempotent ops h).1

/-- End to end: the result of `runGenerator` (log, stubs, write operations) does not depend on the files
    that pre-exist in the output directory. -/
theorem run_independent_of_preexisting_partial (api : API) (safe : Bool) (pre pre' : List String) (r : GenResult)
    (h : runGenerator api safe pre = .ok r) (hc : CoherentOutside r.outside) :
    runGenerator api safe pre' = .ok r := by
  unfold runGenerator at h ⊢
  simp only at h ⊢
  cases hg : (generateStubData { api := api, safe := safe }).run {} with
  | error e => rw [hg] at h; exact absurd h (by simp)
  | ok x =>
    obtain ⟨stubs, st⟩ := x
    rw [hg] at h
    simp only at h ⊢
    cases hf : createStubFiles safe stubs st.outside pre with
    | error e => rw [hf] at h; exact absurd h (by simp)
    | ok ops =>
      rw [hf] at h
      simp only [Except.ok.injEq] at h
      have hout : st.outside = r.outside := by rw [← h]
      rw [createStubFiles_indep safe stubs st.outside pre' pre (hout ▸ hc), hf]
      simp only [h]

/-- End to end: a first run into an empty directory gives the files `applyWrites [] r.ops`; a second run into
    that directory performs the same operations and leaves exactly the same files with the same contents. -/
theorem second_run_end_to_end_partial (api : API) (safe : Bool) (r : GenResult)
    (h : runGenerator api safe [] = .ok r) (hc : CoherentOutside r.outside) :
    runGenerator api safe ((applyWrites [] r.ops).map (·.1)) = .ok r
    ∧ applyWrites (applyWrites [] r.ops) r.ops = applyWrites [] r.ops := by
  refine ⟨run_independent_of_preexisting_partial api safe [] _ r h hc, ?_⟩
  apply rerun_idempotent_eq
  unfold runGenerator at h
  simp only at h
  cases hg : (generateStubData { api := api, safe := safe }).run {} with
  | error e => rw [hg] at h; exact absurd h (by simp)
  | ok x =>
    obtain ⟨stubs, st⟩ := x
    rw [hg] at h
    simp only at h
    cases hf : createStubFiles safe stubs st.outside [] with
    | error e => rw [hf] at h; exact absurd h (by simp)
    | ok ops =>
      rw [hf] at h
      simp only [Except.ok.injEq] at h
      rw [← h]
      exact createStubFiles_firstOpsWrite_fresh hf

/-! ### 4. generation is a function of the API value -/

/-- The model has no hidden state: equal API values (and flags) give equal results, in particular equal
    write operations.  (Whatever could differ between two runs must differ in the arguments.) -/
theorem generation_is_a_function (api api' : API) (safe safe' : Bool) (pre pre' : List String)
    (h1 : api = api') (h2 : safe = safe') (h3 : pre = pre') :
    runGenerator api safe pre = runGenerator api' safe' pre' := by
  subst h1 h2 h3; rfl

/-! ### Non-vacuity -/

section Examples

/-- two classes of one foreign module: write, then append -/
private def ops1 : List WriteOp :=
  match createStubFiles true [] ["np.core.Array", "np.core.Matrix"] [] with
  | .ok ops => ops
  | .error _ => []

example : ops1.map (fun o => (o.path, o.mode))
    = [("np/core/core.sdsstub", .write), ("np/core/core.sdsstub", .append)] := by decide +kernel

example : CoherentOutside ["np.core.Array", "np.core.Matrix"] := coherent_of_no_slash _ (by decide)

/-- the hypothesis of `second_run_same_files` / `rerun_idempotent` holds for a log with an append -/
example : FirstOpsWrite ops1 := by
  unfold ops1
  cases h : createStubFiles true [] ["np.core.Array", "np.core.Matrix"] [] with
  | ok ops => exact first_op_is_write _ _ _ _ h
  | error e => intro p op hf; simp at hf

/-- a run into a directory with stale content -/
example : lookupFile (applyWrites [("np/core/core.sdsstub", "stale"), ("other", "x")] ops1) "np/core/core.sdsstub"
    = some "package np.core\n\nclass Array\n\nclass Matrix\n" := by decide +kernel

/-- the same with a directory segment that is a Safe-DS keyword (`internal`): it is back-quoted in the package
    line of the header that the first (`write`) operation puts into the file -/
example : ((createStubFiles true [] ["np.internal.Array", "np.internal.Matrix"] []).toOption.map fun ops =>
      (ops.map (fun o => (o.path, o.mode)),
       lookupFile (applyWrites [("np/internal/internal.sdsstub", "stale")] ops) "np/internal/internal.sdsstub"))
    = some ([("np/internal/internal.sdsstub", .write), ("np/internal/internal.sdsstub", .append)],
            some "package np.`internal`\n\nclass Array\n\nclass Matrix\n") := by decide +kernel

/-- the same for a private module of another library (`lib._impl`): the placeholder file is
    `lib/_impl/impl.sdsstub` (no leading underscore in the file name); both classes go to it, write then append,
    and a second run replaces the content instead of appending to it -/
example : CoherentOutside ["lib._impl.Thing", "lib._impl.Other"] := coherent_of_no_slash _ (by decide)
example : ((createStubFiles false [] ["lib._impl.Thing", "lib._impl.Other"] []).toOption.map fun ops =>
      (ops.map (fun o => (o.path, o.mode)), applyWrites [] ops, applyWrites (applyWrites [] ops) ops))
    = some ([("lib/_impl/impl.sdsstub", .write), ("lib/_impl/impl.sdsstub", .append)],
            [("lib/_impl/impl.sdsstub", "package lib._impl\n\nclass Other\n\nclass Thing\n")],
            [("lib/_impl/impl.sdsstub", "package lib._impl\n\nclass Other\n\nclass Thing\n")]) := by decide +kernel

end Examples

end StubGen.C16
