/-
C01 — whole-tool part: where `_run_stub_generator` can fail.
-/
import StubGen.Proofs.Pipeline
import StubGen.Proofs.ToolErrors
import StubGen.Theorems.C01
import StubGen.Theorems.C01a

namespace StubGen.C01b

open StubGen

/-- END TO END: an error of the whole run is the documented "No files found to analyse." rejection of the discovery, or
    an error of the walk, of the JSON serialisation, or of the stub generator on the API the walk produced.  The alias
    collection (`_get_aliases`) contributes none: it is a total function (after the repair c9b80ef; before it, a
    function reached through its module object raised `TypeError` there). -/
theorem tool_error_sources {i : ToolInput} {e : PyErr} (h : runTool i = .error e) :
    discoverSorted i.srcDir i.files i.isTestRun = .error e ∨
    ∃ root d, discoverSorted i.srcDir i.files i.isTestRun = .ok (root, d) ∧
      (analyze { opts := i.opts, aliases := getAliases (pathStem root) i.aliasFacts, infoBases := i.infoBases } i.docRoot
          (selectModules i.graph d) = .error e ∨
       ∃ r ws, analyze { opts := i.opts, aliases := getAliases (pathStem root) i.aliasFacts, infoBases := i.infoBases } i.docRoot
          (selectModules i.graph d) = .ok (r, ws) ∧
         (apiJsonText (pathStem root) r = .error e ∨ runGenerator (r.toApi (pathStem root)) i.safe i.preexisting = .error e)) :=
  pl_runTool_error h

/-- END TO END (the generator half of totality lifted to the whole run): if the discovery keeps a module file, the walk
    completes, the API serialises, and the API the walk produced lies in the decidable scope `Spec.Scope01` (every reached
    type renderable and importable, every reached private superclass resolvable, nesting within the fuel), then the whole
    run completes: the API file and every stub are written, whatever files are already in the output directory. -/
theorem tool_completes (i : ToolInput) (root : PathParts) (d : Discovered) (r : AnaResult) (ws : List String) (text : String)
    (hd : discoverSorted i.srcDir i.files i.isTestRun = .ok (root, d))
    (ha : analyze { opts := i.opts, aliases := getAliases (pathStem root) i.aliasFacts, infoBases := i.infoBases } i.docRoot
            (selectModules i.graph d) = .ok (r, ws))
    (ht : apiJsonText (pathStem root) r = .ok text)
    (hs : Spec.Scope01 (r.toApi (pathStem root)) = true) :
    ∃ o, runTool i = .ok o ∧ o.api = r ∧ o.apiFileText = text := by
  obtain ⟨gen, hg⟩ := C01.generator_total (r.toApi (pathStem root)) i.safe i.preexisting hs
  refine ⟨{ packageName := pathStem root, analysed := (selectModules i.graph d).map (·.path),
            aliases := getAliases (pathStem root) i.aliasFacts, api := r, warnings := ws,
            apiFileName := pathStem i.srcDir ++ "__api.json", apiFileText := text, gen := gen }, ?_, rfl, rfl⟩
  unfold runTool getApi
  simp only [hd, ha, ht, hg]

/-- … and when a run fails although discovery, walk and serialisation succeeded, the error is one of the generator's
    (`ValueError`, `IndexError`, `LookupError`, fuel): never a `KeyError`, `TypeError`, `AttributeError`, `AssertionError` -/
theorem tool_generator_errors (i : ToolInput) (root : PathParts) (d : Discovered) (r : AnaResult) (ws : List String) (text : String)
    (e : PyErr)
    (hd : discoverSorted i.srcDir i.files i.isTestRun = .ok (root, d))
    (ha : analyze { opts := i.opts, aliases := getAliases (pathStem root) i.aliasFacts, infoBases := i.infoBases } i.docRoot
            (selectModules i.graph d) = .ok (r, ws))
    (ht : apiJsonText (pathStem root) r = .ok text)
    (h : runTool i = .error e) :
    e ∈ [PyErr.valueError, .indexError, .lookupError, .unsupported] := by
  unfold runTool getApi at h
  simp only [hd, ha, ht] at h
  cases hg : runGenerator (r.toApi (pathStem root)) i.safe i.preexisting with
  | ok gen => simp [hg] at h
  | error e' =>
    simp only [hg, Except.error.injEq] at h
    subst h
    exact C01.never_keyError _ _ _ _ hg

/-- the serialisation step fails only with the `TypeError` of `json.dump` on a docstring record that holds an enum type -/
theorem api_file_error_is_typeError (pkg : String) (r : AnaResult) (e : PyErr) (h : apiJsonText pkg r = .error e) :
    e = .typeError := te_apiJsonText_err pkg r e h

/-- END TO END: THE WHOLE RUN NEVER ENDS IN AN `AssertionError` — none of the consistency guards of the visitor, of the
    walker or of the generator can fire, for every directory listing, mypy graph, expression-type dict, docstring tree, option
    set and state of the output directory.  (`sd_noNoneL`: no definition is the stand-in for an `OverloadedFuncDef` without
    items, which mypy does not build.) -/
theorem tool_never_asserts (i : ToolInput) (hn : ∀ m ∈ i.graph, sd_noNoneL m.defs = true) :
    runTool i ≠ .error .assertionError := by
  intro h
  have hg := C01a.get_api_never_asserts i hn
  rcases tool_error_sources h with hd | ⟨root, d, hd, ha | ⟨r, ws, ha, ht | hgen⟩⟩
  · -- discovery
    unfold getApi at hg
    rw [hd] at hg
    exact hg rfl
  · -- walk
    unfold getApi at hg
    rw [hd] at hg
    dsimp only at hg
    rw [ha] at hg
    exact hg rfl
  · -- API file
    have := te_apiJsonText_err _ _ _ ht
    cases this
  · -- generator
    have := C01.never_keyError _ _ _ _ hgen
    simp at this

/-- the only error of the discovery phase is the documented rejection (`ValueError("No files found to analyse.")`), and it
    is raised exactly when no module file is kept -/
theorem discovery_error_is_no_files (root : PathParts) (files : List PathParts) (b : Bool) (e : PyErr)
    (h : discoverFrom root files b = .error e) :
    e = .valueError ∧ (discoverLoop b (filesUnder (adjustRoot root files) files)).walkable = [] := by
  unfold discoverFrom discover at h
  by_cases hw : (discoverLoop b (filesUnder (adjustRoot root files) files)).walkable.isEmpty = true
  · simp only [hw, if_true, Except.error.injEq] at h
    exact ⟨h.symm, List.isEmpty_iff.mp hw⟩
  · simp [hw] at h

/-- every entry of mypy's expression-type dict is processed without an exception: one of the two outcomes -/
theorem alias_step_total (pkg : String) (f : AliasFact) :
    aliasStep pkg f = .skip ∨ ∃ n t, aliasStep pkg f = .add n t := by
  cases h : aliasStep pkg f with
  | skip => exact Or.inl rfl
  | add n t => exact Or.inr ⟨n, t, rfl⟩

/-- the input that aborted the run before the repair: `utils.helper` — a `MemberExpr` of the package whose type is an
    unbound callable — is skipped -/
example : aliasStep "pkg" { kind := .memberExpr, name := "helper", fullname := "pkg.utils.helper", val := .callable "" } = .skip := by
  decide

/-- … as is a module member of union / `None` / tuple type -/
example : aliasStep "pkg" { kind := .memberExpr, name := "LIMIT", fullname := "pkg.utils.LIMIT", val := .other } = .skip := by
  decide

end StubGen.C01b
