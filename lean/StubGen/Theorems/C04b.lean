/-
C04 — whole-tool part: what a complete run of `_run_stub_generator` emits at the top level of the module stubs.
-/
import StubGen.Theorems.C04
import StubGen.Theorems.C03b

namespace StubGen.C04b

open StubGen

/-- the top-level entries of the emission log of one module: its PUBLIC functions, its PUBLIC non-exception classes (each
    either emitted in place or handed to the re-export phase), and — known finding K04 — all of its enums -/
theorem moduleLog_top (env : Env) (cur : String) (m : Module) :
    n03_top 0 (n03_moduleLog env cur m) =
      ((m.functions.filter (·.isPublic)).map fun f =>
        (if n03_movedB cur false (n03_modInRe env m) f.reexportedBy then "moved" else "fun", f.id))
      ++ ((m.classes.filter fun c => c.isPublic && !c.inheritsFromException).map fun c =>
        (if n03_movedB cur false (n03_modInRe env m) c.reexportedBy then "moved" else "class", c.id))
      ++ m.enums.map fun e => ("enum", e.id) := by
  have hleaf : ∀ (l : List LogEntry), (∀ e ∈ l, e.1 ≠ "class" ∧ e.1 ≠ "endclass") → n03_top 0 l = l := by
    intro l hl
    induction l with
    | nil => rfl
    | cons e es ih =>
      rw [n03_top, if_neg (hl e (by simp)).1, if_neg (hl e (by simp)).2, if_pos rfl,
        ih fun e' he' => hl e' (by simp [he'])]
  have hf : ∀ e ∈ n03_functionsLog cur (n03_modInRe env m) m.functions, e.1 ≠ "class" ∧ e.1 ≠ "endclass" := by
    intro e he
    rw [n03_functionsLog_eq_map, List.mem_map] at he
    obtain ⟨f, _, rfl⟩ := he
    dsimp only
    split
    · exact ⟨by decide, by decide⟩
    · exact ⟨by decide, by decide⟩
  have he : ∀ e ∈ m.enums.map (fun e => (("enum", e.id) : LogEntry)), e.1 ≠ "class" ∧ e.1 ≠ "endclass" := by
    intro e he
    rw [List.mem_map] at he
    obtain ⟨x, _, rfl⟩ := he
    exact ⟨by show "enum" ≠ "class"; decide, by show "enum" ≠ "endclass"; decide⟩
  have hcb : n03_Bal (n03_classesLog env cur (n03_modInRe env m) m.classes) := by
    unfold n03_classesLog
    apply n03_Bal.flatMap
    intro c _
    unfold n03_clsLog
    split
    · exact n03_Bal.leaf _ _ (by show "moved" ≠ "class"; decide) (by show "moved" ≠ "endclass"; decide) n03_Bal.nil
    · exact (n03_classLog_bal env _).1 c
  rw [n03_moduleLog, List.append_assoc, n03_top_bal_zero (n03_Bal.leaves _ hf), n03_top_bal_zero hcb,
    hleaf _ hf, hleaf _ he, n03_top_classesLog, n03_functionsLog_eq_map, List.append_assoc]
  rfl

/-- END TO END: in a completed run of the whole tool, a function or class that the analysis marked private
    (`is_public = false` in the API the walk produced) is never a top-level entry of any module's part of the emission log —
    neither emitted in place nor handed to the re-export phase. -/
theorem tool_private_not_top_level {i : ToolInput} {o : ToolOutput} (h : runTool i = .ok o)
    (m : Module) (_hm : m ∈ o.api.modules) (e : LogEntry)
    (he : e ∈ n03_top 0 (n03_moduleLog { api := o.api.toApi o.packageName, safe := i.safe } m.id m)) :
    (∃ f ∈ m.functions, f.isPublic = true ∧ e.2 = f.id) ∨
    (∃ c ∈ m.classes, c.isPublic = true ∧ c.inheritsFromException = false ∧ e.2 = c.id) ∨
    (∃ en ∈ m.enums, e = ("enum", en.id)) := by
  have _ := C03b.tool_emission_log h
  rw [moduleLog_top] at he
  simp only [List.mem_append, List.mem_map, List.mem_filter] at he
  rcases he with (⟨f, ⟨hf, hp⟩, rfl⟩ | ⟨c, ⟨hc, hp⟩, rfl⟩) | ⟨en, hen, rfl⟩
  · exact Or.inl ⟨f, hf, hp, rfl⟩
  · simp only [Bool.and_eq_true, Bool.not_eq_eq_eq_not, Bool.not_true] at hp
    exact Or.inr (Or.inl ⟨c, hc, hp.1, hp.2, rfl⟩)
  · exact Or.inr (Or.inr ⟨en, hen, rfl⟩)

end StubGen.C04b
