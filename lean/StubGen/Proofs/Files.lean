/-
Proof machinery for C16 (file part) and C10: the write log of `create_stub_files`
(`StubGen.Model.Files`) and the path arithmetic of `stubPath` / `_create_outside_package_class`.
-/
import StubGen.Model.Files
import StubGen.Proofs.Naming

namespace StubGen

/-! ### duplicate-free lists used as sets, insertion sort -/

theorem mem_insertSet {a b : String} {l : List String} : a ∈ insertSet b l ↔ a = b ∨ a ∈ l := by
  unfold insertSet
  split
  · rename_i h
    rw [List.contains_iff_mem] at h
    constructor
    · exact Or.inr
    · rintro (rfl | h')
      · exact h
      · exact h'
  · simp [or_comm]

theorem mem_insertBy {α : Type} (le : α → α → Bool) (a x : α) (l : List α) :
    x ∈ insertBy le a l ↔ x = a ∨ x ∈ l := by
  induction l with
  | nil => simp [insertBy]
  | cons b bs ih =>
    unfold insertBy
    split
    · simp
    · simp only [List.mem_cons, ih]
      constructor
      · rintro (h | h | h)
        · exact Or.inr (Or.inl h)
        · exact Or.inl h
        · exact Or.inr (Or.inr h)
      · rintro (h | h | h)
        · exact Or.inr (Or.inl h)
        · exact Or.inl h
        · exact Or.inr (Or.inr h)

theorem mem_sortBy {α : Type} (le : α → α → Bool) (x : α) (l : List α) : x ∈ sortBy le l ↔ x ∈ l := by
  induction l with
  | nil => simp [sortBy]
  | cons a as ih => simp [sortBy, mem_insertBy, ih]

theorem mem_sortStrings (x : String) (l : List String) : x ∈ sortStrings l ↔ x ∈ l := mem_sortBy _ x l

theorem mem_foldl_insertSet (x : String) (ps : List String) (init : List String) :
    x ∈ ps.foldl (fun acc p => insertSet p acc) init ↔ x ∈ init ∨ x ∈ ps := by
  induction ps generalizing init with
  | nil => simp
  | cons p ps ih =>
    simp only [List.foldl_cons, ih, mem_insertSet, List.mem_cons]
    constructor
    · rintro ((h | h) | h)
      · exact Or.inr (Or.inl h)
      · exact Or.inl h
      · exact Or.inr (Or.inr h)
    · rintro (h | h | h)
      · exact Or.inl (Or.inr h)
      · exact Or.inl (Or.inl h)
      · exact Or.inr h

theorem getLast?_lastD {α : Type} (d : α) : ∀ (l : List α) (m : α), l.getLast? = some m → lastD d l = m
  | [], _, h => by simp at h
  | [a], m, h => by simpa [lastD] using h
  | a :: b :: l, m, h => by
    rw [List.getLast?_cons_cons] at h
    simpa [lastD] using getLast?_lastD d (b :: l) m h

/-! ### `_create_outside_package_class` -/

/-- the directory (relative, `/`-separated) a placeholder for class path `c` goes to -/
def outsideModulePath (c : String) : String := joinWith "/" (dropLast' (splitDot c))
/-- the module name `path_parts[-1]` (the last-but-one dot segment of the class path) -/
def outsideModuleName (c : String) : String := lastD "" (dropLast' (splitDot c))
/-- the file a placeholder for class path `c` goes to: like a module stub, the file name is the
    module name without its leading underscores -/
def outsideFile (c : String) : String :=
  joinWith "/" (pathParts (outsideModulePath c) ++ [pyLstrip (outsideModuleName c) "_" ++ ".sdsstub"])
/-- the dotted Python module path `".".join(path_parts)` -/
def outsidePyPath (c : String) : String := joinWith "." (dropLast' (splitDot c))
/-- the package header of a placeholder stub -/
def outsideHeader (safe : Bool) (c : String) : String :=
  (if outsidePyPath c != convertPath (outsidePyPath c) safe then "@PythonModule(\"" ++ outsidePyPath c ++ "\")\n" else "")
    ++ "package " ++ escapePath (convertPath (outsidePyPath c) safe) ++ "\n"

/-- a closed form of `createOutsidePackageClass` -/
theorem createOutsidePackageClass_eq (safe : Bool) (c : String) (created existing : List String) :
    createOutsidePackageClass safe c created existing =
      if (dropLast' (splitDot c)) = [] then .error .indexError
      else
        let created' := if outsideModulePath c ∈ created then created else created ++ [outsideModulePath c]
        if outsideFile c ∈ existing ∧ outsideModulePath c ∈ created then
          .ok ({ path := outsideFile c, mode := .append, text := outsideClassText (lastD "" (splitDot c)) safe }, created')
        else
          .ok ({ path := outsideFile c, mode := .write,
                 text := outsideHeader safe c ++ outsideClassText (lastD "" (splitDot c)) safe }, created') := by
  unfold createOutsidePackageClass
  simp only
  split
  · rename_i h
    rw [List.getLast?_eq_none_iff] at h
    simp [h]
  · rename_i m h
    have hne : dropLast' (splitDot c) ≠ [] := by
      intro e; rw [e] at h; simp at h
    have hm : outsideModuleName c = m := getLast?_lastD "" _ _ h
    subst hm
    simp only [hne, if_false, Bool.not_not, Bool.and_eq_true, List.contains_iff_mem, Bool.not_eq_true',
      ← Bool.not_eq_true, ite_not]
    rfl

/-- two class paths that go to the same directory also go to the same file -/
def CoherentOutside (outside : List String) : Prop :=
  ∀ c₁ ∈ outside, ∀ c₂ ∈ outside, outsideModulePath c₁ = outsideModulePath c₂ → outsideModuleName c₁ = outsideModuleName c₂

/-- invariant of the placeholder loop: a directory recorded in `created` has its file in `existing` -/
def CreatedExist (all created existing : List String) : Prop :=
  ∀ c ∈ all, outsideModulePath c ∈ created → outsideFile c ∈ existing

theorem outsideFile_eq_of_coherent {all : List String} (hc : CoherentOutside all) {c₁ c₂ : String}
    (h1 : c₁ ∈ all) (h2 : c₂ ∈ all) (h : outsideModulePath c₁ = outsideModulePath c₂) : outsideFile c₁ = outsideFile c₂ := by
  unfold outsideFile
  rw [h, hc c₁ h1 c₂ h2 h]

theorem createOutsidePackageClass_indep (safe : Bool) (all : List String) (c : String) (hc : c ∈ all)
    (created existing existing' : List String)
    (h : CreatedExist all created existing) (h' : CreatedExist all created existing') :
    createOutsidePackageClass safe c created existing = createOutsidePackageClass safe c created existing' := by
  rw [createOutsidePackageClass_eq, createOutsidePackageClass_eq]
  by_cases hf : outsideModulePath c ∈ created
  · simp [h c hc hf, h' c hc hf, hf]
  · simp [hf]

/-- what a successful call returns -/
theorem createOutsidePackageClass_ok {safe : Bool} {c : String} {created existing : List String} {op : WriteOp}
    {created' : List String} (hr : createOutsidePackageClass safe c created existing = .ok (op, created')) :
    dropLast' (splitDot c) ≠ [] ∧ op.path = outsideFile c
      ∧ created' = (if outsideModulePath c ∈ created then created else created ++ [outsideModulePath c])
      ∧ ((op.mode = .append ∧ op.text = outsideClassText (lastD "" (splitDot c)) safe
            ∧ outsideFile c ∈ existing ∧ outsideModulePath c ∈ created)
         ∨ (op.mode = .write ∧ op.text = outsideHeader safe c ++ outsideClassText (lastD "" (splitDot c)) safe
            ∧ ¬ (outsideFile c ∈ existing ∧ outsideModulePath c ∈ created))) := by
  rw [createOutsidePackageClass_eq] at hr
  split at hr
  · exact absurd hr (by simp)
  · rename_i hne
    refine ⟨hne, ?_⟩
    simp only at hr
    split at hr
    · rename_i hcond
      simp only [Except.ok.injEq, Prod.mk.injEq] at hr
      obtain ⟨h1, h2⟩ := hr
      subst h1
      dsimp only
      exact ⟨rfl, h2.symm, Or.inl ⟨rfl, rfl, hcond⟩⟩
    · rename_i hcond
      simp only [Except.ok.injEq, Prod.mk.injEq] at hr
      obtain ⟨h1, h2⟩ := hr
      subst h1
      dsimp only
      exact ⟨rfl, h2.symm, Or.inr ⟨rfl, rfl, hcond⟩⟩

theorem createOutsidePackageClass_inv (safe : Bool) (all : List String) (hall : CoherentOutside all)
    (c : String) (hc : c ∈ all) (created existing : List String) (op : WriteOp) (created' : List String)
    (h : CreatedExist all created existing)
    (hr : createOutsidePackageClass safe c created existing = .ok (op, created')) :
    CreatedExist all created' (insertSet op.path existing) := by
  obtain ⟨_, hp, hcr, _⟩ := createOutsidePackageClass_ok hr
  intro c2 hc2 hm
  rw [mem_insertSet, hp]
  rw [hcr] at hm
  split at hm
  · exact Or.inr (h c2 hc2 hm)
  · rw [List.mem_append, List.mem_singleton] at hm
    rcases hm with hin | e
    · exact Or.inr (h c2 hc2 hin)
    · exact Or.inl (outsideFile_eq_of_coherent hall hc2 hc e)

theorem outsideWrites_indep (safe : Bool) (all : List String) (hall : CoherentOutside all) :
    ∀ (cs : List String), (∀ c ∈ cs, c ∈ all) → ∀ (created existing existing' : List String),
      CreatedExist all created existing → CreatedExist all created existing' →
      outsideWrites safe cs created existing = outsideWrites safe cs created existing'
  | [], _, _, _, _, _, _ => rfl
  | c :: cs, hcs, created, existing, existing', h, h' => by
    have hc : c ∈ all := hcs c (by simp)
    unfold outsideWrites
    rw [← createOutsidePackageClass_indep safe all c hc created existing existing' h h']
    cases hr : createOutsidePackageClass safe c created existing with
    | error e => rfl
    | ok r =>
      obtain ⟨op, created'⟩ := r
      have hr' : createOutsidePackageClass safe c created existing' = .ok (op, created') := by
        rw [← createOutsidePackageClass_indep safe all c hc created existing existing' h h']; exact hr
      simp only
      rw [outsideWrites_indep safe all hall cs (fun x hx => hcs x (by simp [hx])) created'
        (insertSet op.path existing) (insertSet op.path existing')
        (createOutsidePackageClass_inv safe all hall c hc _ _ _ _ h hr)
        (createOutsidePackageClass_inv safe all hall c hc _ _ _ _ h' hr')]

theorem createStubFiles_indep (safe : Bool) (stubs : List StubData) (outside pre pre' : List String)
    (h : CoherentOutside outside) :
    createStubFiles safe stubs outside pre = createStubFiles safe stubs outside pre' := by
  unfold createStubFiles
  simp only
  rw [outsideWrites_indep safe outside h (sortStrings outside) (fun c hc => (mem_sortStrings c outside).1 hc) []
    _ (List.foldl (fun acc op => insertSet op.path acc) pre'
        (stubs.map fun d => ({ path := stubPath d, mode := .write, text := d.text } : WriteOp)))]
  · intro c _ hm; simp at hm
  · intro c _ hm; simp at hm

/-! ### the write log: the first operation on every path is a `write` -/

/-- for every path, the first operation of the log on that path is a `.write` -/
def FirstOpsWrite (ops : List WriteOp) : Prop :=
  ∀ (p : String) (op : WriteOp), ops.find? (fun o => o.path == p) = some op → op.mode = .write

theorem outsideWrites_cons_ok {safe : Bool} {c : String} {cs created existing : List String} {ops : List WriteOp}
    (h : outsideWrites safe (c :: cs) created existing = .ok ops) :
    ∃ op created' ops', createOutsidePackageClass safe c created existing = .ok (op, created')
      ∧ outsideWrites safe cs created' (insertSet op.path existing) = .ok ops' ∧ ops = op :: ops' := by
  unfold outsideWrites at h
  cases hr : createOutsidePackageClass safe c created existing with
  | error e => rw [hr] at h; exact absurd h (by simp)
  | ok r =>
    obtain ⟨op, created'⟩ := r
    rw [hr] at h
    simp only at h
    cases hr2 : outsideWrites safe cs created' (insertSet op.path existing) with
    | error e => rw [hr2] at h; exact absurd h (by simp)
    | ok ops' =>
      rw [hr2] at h
      simp only [Except.ok.injEq] at h
      exact ⟨op, created', ops', rfl, hr2, h.symm⟩

/-- in the placeholder loop, an `append` that is the first operation on its path hits a file that
    existed before the loop -/
theorem outsideWrites_append_existing (safe : Bool) :
    ∀ (cs created existing : List String) (ops : List WriteOp), outsideWrites safe cs created existing = .ok ops →
      ∀ (p : String) (op : WriteOp), ops.find? (fun o => o.path == p) = some op → op.mode = .append → p ∈ existing
  | [], _, _, ops, h, p, op, hf, _ => by
    simp only [outsideWrites, Except.ok.injEq] at h
    rw [← h] at hf
    simp at hf
  | c :: cs, created, existing, ops, h, p, op, hf, hm => by
    obtain ⟨op0, created', ops', hr, hr2, rfl⟩ := outsideWrites_cons_ok h
    obtain ⟨_, hp, _, hcase⟩ := createOutsidePackageClass_ok hr
    by_cases hpath : op0.path = p
    · rw [List.find?_cons_of_pos (by simpa using hpath)] at hf
      simp only [Option.some.injEq] at hf
      subst hf
      rcases hcase with ⟨_, _, hex, _⟩ | ⟨hw, _⟩
      · rw [← hpath, hp]; exact hex
      · rw [hw] at hm; exact absurd hm (by simp)
    · rw [List.find?_cons_of_neg (by simpa using hpath)] at hf
      have := outsideWrites_append_existing safe cs created' _ ops' hr2 p op hf hm
      rw [mem_insertSet] at this
      rcases this with e | h'
      · exact absurd e.symm hpath
      · exact h'

theorem createStubFiles_ok {safe : Bool} {stubs : List StubData} {outside pre : List String} {ops : List WriteOp}
    (h : createStubFiles safe stubs outside pre = .ok ops) :
    ∃ oops, outsideWrites safe (sortStrings outside) []
        ((stubs.map stubPath).foldl (fun acc p => insertSet p acc) pre) = .ok oops
      ∧ ops = (stubs.map fun d => ({ path := stubPath d, mode := .write, text := d.text } : WriteOp)) ++ oops := by
  unfold createStubFiles at h
  simp only [List.foldl_map] at h
  rw [List.foldl_map]
  cases hr : outsideWrites safe (sortStrings outside) []
      (List.foldl (fun acc d => insertSet (stubPath d) acc) pre stubs) with
  | error e => rw [hr] at h; exact absurd h (by simp)
  | ok oops =>
    rw [hr] at h
    simp only [Except.ok.injEq] at h
    exact ⟨oops, rfl, h.symm⟩

theorem find?_moduleOps {stubs : List StubData} {p : String} {op : WriteOp}
    (h : (stubs.map fun d => ({ path := stubPath d, mode := .write, text := d.text } : WriteOp)).find?
      (fun o => o.path == p) = some op) : op.mode = .write := by
  have := List.mem_of_find?_eq_some h
  rw [List.mem_map] at this
  obtain ⟨d, _, rfl⟩ := this
  rfl

theorem find?_moduleOps_none {stubs : List StubData} {p : String}
    (h : (stubs.map fun d => ({ path := stubPath d, mode := .write, text := d.text } : WriteOp)).find?
      (fun o => o.path == p) = none) : p ∉ stubs.map stubPath := by
  rw [List.find?_eq_none] at h
  intro hp
  rw [List.mem_map] at hp
  obtain ⟨d, hd, rfl⟩ := hp
  exact h _ (List.mem_map_of_mem hd) (by simp)

/-- into an empty directory: the first operation on every path is a write (no hypothesis on `outside`) -/
theorem createStubFiles_firstOpsWrite_fresh {safe : Bool} {stubs : List StubData} {outside : List String}
    {ops : List WriteOp} (h : createStubFiles safe stubs outside [] = .ok ops) : FirstOpsWrite ops := by
  obtain ⟨oops, ho, rfl⟩ := createStubFiles_ok h
  intro p op hf
  rw [List.find?_append] at hf
  cases hm : (stubs.map fun d => ({ path := stubPath d, mode := .write, text := d.text } : WriteOp)).find?
      (fun o => o.path == p) with
  | some op' =>
    rw [hm] at hf
    simp only [Option.some_or, Option.some.injEq] at hf
    subst hf
    exact find?_moduleOps hm
  | none =>
    rw [hm] at hf
    simp only [Option.none_or] at hf
    cases hmode : op.mode with
    | write => rfl
    | append =>
      have := outsideWrites_append_existing safe _ _ _ _ ho p op hf hmode
      rw [mem_foldl_insertSet] at this
      rcases this with h' | h'
      · simp at h'
      · exact absurd h' (find?_moduleOps_none hm)

/-! ### file maps -/

/-- the content of file `p` (first match) -/
def lookupFile : List (String × String) → String → Option String
  | [], _ => none
  | (k, v) :: fs, p => if k = p then some v else lookupFile fs p

theorem lookupFile_append (a b : List (String × String)) (p : String) :
    lookupFile (a ++ b) p = (lookupFile a p).or (lookupFile b p) := by
  induction a with
  | nil => simp [lookupFile]
  | cons kv a ih =>
    obtain ⟨k, v⟩ := kv
    simp only [List.cons_append, lookupFile]
    split
    · simp
    · exact ih

theorem lookupFile_map_update (fs : List (String × String)) (q p : String) (f : String → String) :
    lookupFile (fs.map fun kv => if kv.1 == q then (kv.1, f kv.2) else kv) p
      = if p = q then (lookupFile fs p).map f else lookupFile fs p := by
  induction fs with
  | nil => simp [lookupFile]
  | cons kv fs ih =>
    obtain ⟨k, v⟩ := kv
    simp only [List.map_cons]
    by_cases hkq : k = q
    · subst hkq
      simp only [beq_self_eq_true, if_true, lookupFile]
      by_cases hkp : k = p
      · subst hkp; simp
      · have : ¬ p = k := fun e => hkp e.symm
        simp only [hkp, if_false, this] at ih ⊢
        exact ih
    · have hb : (k == q) = false := by simpa using hkq
      simp only [hb, Bool.false_eq_true, if_false, lookupFile]
      by_cases hkp : k = p
      · subst hkp; simp [hkq]
      · simp only [hkp, if_false]; exact ih

theorem any_key_iff (fs : List (String × String)) (q : String) :
    fs.any (fun kv => kv.1 == q) = (lookupFile fs q).isSome := by
  induction fs with
  | nil => simp [lookupFile]
  | cons kv fs ih =>
    obtain ⟨k, v⟩ := kv
    simp only [List.any_cons, lookupFile, ih]
    by_cases hk : k = q <;> simp [hk]

/-- the content of `p` after one operation, as a function of its content before -/
def stepContent (p : String) (cur : Option String) (op : WriteOp) : Option String :=
  if op.path = p then
    some (match op.mode with
      | .write => op.text
      | .append => cur.getD "" ++ op.text)
  else cur

/-- the content of `p` after a log of operations -/
def evalOps (p : String) (cur : Option String) (ops : List WriteOp) : Option String := ops.foldl (stepContent p) cur

theorem lookupFile_applyWrite (fs : List (String × String)) (op : WriteOp) (p : String) :
    lookupFile (applyWrite fs op) p = stepContent p (lookupFile fs p) op := by
  unfold applyWrite stepContent
  cases hmode : op.mode with
  | write =>
    simp only [any_key_iff]
    cases hl : lookupFile fs op.path with
    | none =>
      simp only [Option.isSome_none, Bool.false_eq_true, if_false, lookupFile_append, lookupFile]
      by_cases hp : op.path = p
      · subst hp; simp [hl]
      · simp [hp]
    | some v =>
      simp only [Option.isSome_some, if_true]
      rw [lookupFile_map_update fs op.path p (fun _ => op.text)]
      by_cases hp : op.path = p
      · subst hp; simp [hl]
      · have : ¬ p = op.path := fun e => hp e.symm
        simp [hp, this]
  | append =>
    simp only [any_key_iff]
    cases hl : lookupFile fs op.path with
    | none =>
      simp only [Option.isSome_none, Bool.false_eq_true, if_false, lookupFile_append, lookupFile]
      by_cases hp : op.path = p
      · subst hp; simp [hl]
      · simp [hp]
    | some v =>
      simp only [Option.isSome_some, if_true]
      rw [lookupFile_map_update fs op.path p (fun t => t ++ op.text)]
      by_cases hp : op.path = p
      · subst hp; simp [hl]
      · have : ¬ p = op.path := fun e => hp e.symm
        simp [hp, this]

theorem lookupFile_applyWrites (ops : List WriteOp) (fs : List (String × String)) (p : String) :
    lookupFile (applyWrites fs ops) p = evalOps p (lookupFile fs p) ops := by
  induction ops generalizing fs with
  | nil => rfl
  | cons op ops ih =>
    simp only [applyWrites, evalOps, List.foldl_cons] at ih ⊢
    rw [ih, lookupFile_applyWrite]

theorem evalOps_untouched (p : String) (ops : List WriteOp) (cur : Option String)
    (h : p ∉ ops.map (·.path)) : evalOps p cur ops = cur := by
  induction ops generalizing cur with
  | nil => rfl
  | cons op ops ih =>
    simp only [List.map_cons, List.mem_cons, not_or] at h
    simp only [evalOps, List.foldl_cons] at ih ⊢
    have : ¬ op.path = p := fun e => h.1 e.symm
    rw [show stepContent p cur op = cur by simp [stepContent, this]]
    exact ih cur h.2

theorem evalOps_first_write (p : String) (ops : List WriteOp) (cur cur' : Option String) (op : WriteOp)
    (hf : ops.find? (fun o => o.path == p) = some op) (hw : op.mode = .write) :
    evalOps p cur ops = evalOps p cur' ops := by
  induction ops generalizing cur cur' with
  | nil => simp at hf
  | cons o ops ih =>
    simp only [evalOps, List.foldl_cons] at ih ⊢
    by_cases hp : o.path = p
    · rw [List.find?_cons_of_pos (by simpa using hp)] at hf
      simp only [Option.some.injEq] at hf
      subst hf
      have : ∀ c, stepContent p c o = some o.text := by
        intro c; simp [stepContent, hp, hw]
      rw [this cur, this cur']
    · rw [List.find?_cons_of_neg (by simpa using hp)] at hf
      have : ∀ c, stepContent p c o = c := by
        intro c; simp [stepContent, hp]
      rw [this cur, this cur']
      exact ih cur cur' hf

theorem find?_path_of_mem (p : String) (ops : List WriteOp) (h : p ∈ ops.map (·.path)) :
    ∃ op, ops.find? (fun o => o.path == p) = some op := by
  rw [List.mem_map] at h
  obtain ⟨o, ho, hp⟩ := h
  cases hf : ops.find? (fun o => o.path == p) with
  | some op => exact ⟨op, rfl⟩
  | none =>
    rw [List.find?_eq_none] at hf
    exact absurd (hf o ho) (by simp [hp])

/-! #### the key list -/

theorem any_key_contains (fs : List (String × String)) (q : String) :
    fs.any (fun kv => kv.1 == q) = (fs.map (·.1)).contains q := by
  induction fs with
  | nil => rfl
  | cons kv fs ih =>
    simp only [List.any_cons, List.map_cons, List.contains_cons, ih]
    rw [Bool.beq_comm]

theorem keys_map_update (fs : List (String × String)) (q : String) (f : String → String) :
    (fs.map fun kv => if kv.1 == q then (kv.1, f kv.2) else kv).map (·.1) = fs.map (·.1) := by
  induction fs with
  | nil => rfl
  | cons kv fs ih =>
    simp only [List.map_cons, ih, List.cons.injEq, and_true]
    split <;> rfl

theorem keys_applyWrite (fs : List (String × String)) (op : WriteOp) :
    (applyWrite fs op).map (·.1) = insertSet op.path (fs.map (·.1)) := by
  unfold applyWrite insertSet
  rw [any_key_contains]
  cases op.mode with
  | write =>
    simp only
    split
    · exact keys_map_update fs op.path (fun _ => op.text)
    · simp
  | append =>
    simp only
    split
    · exact keys_map_update fs op.path (fun t => t ++ op.text)
    · simp

theorem keys_applyWrites (ops : List WriteOp) (fs : List (String × String)) :
    (applyWrites fs ops).map (·.1) = (ops.map (·.path)).foldl (fun acc p => insertSet p acc) (fs.map (·.1)) := by
  induction ops generalizing fs with
  | nil => rfl
  | cons op ops ih =>
    simp only [applyWrites, List.foldl_cons, List.map_cons] at ih ⊢
    rw [ih, keys_applyWrite]

theorem foldl_insertSet_of_mem (ps K : List String) (h : ∀ p ∈ ps, p ∈ K) :
    ps.foldl (fun acc p => insertSet p acc) K = K := by
  induction ps with
  | nil => rfl
  | cons p ps ih =>
    simp only [List.foldl_cons]
    have hp : p ∈ K := h p (by simp)
    rw [show insertSet p K = K by simp [insertSet, hp]]
    exact ih (fun q hq => h q (by simp [hq]))

theorem nodup_insertSet (p : String) (K : List String) (h : K.Nodup) : (insertSet p K).Nodup := by
  unfold insertSet
  split
  · exact h
  · rename_i hc
    rw [List.contains_iff_mem] at hc
    rw [List.nodup_append]
    refine ⟨h, by simp, ?_⟩
    intro a ha b hb
    simp only [List.mem_singleton] at hb
    subst hb
    intro e; subst e; exact hc ha

theorem nodup_foldl_insertSet (ps K : List String) (h : K.Nodup) :
    (ps.foldl (fun acc p => insertSet p acc) K).Nodup := by
  induction ps generalizing K with
  | nil => exact h
  | cons p ps ih => exact ih _ (nodup_insertSet p K h)

theorem nodup_keys_applyWrites (ops : List WriteOp) (fs : List (String × String)) (h : (fs.map (·.1)).Nodup) :
    ((applyWrites fs ops).map (·.1)).Nodup := by
  rw [keys_applyWrites]; exact nodup_foldl_insertSet _ _ h

theorem lookupFile_none_of_not_mem (fs : List (String × String)) (p : String) (h : p ∉ fs.map (·.1)) :
    lookupFile fs p = none := by
  induction fs with
  | nil => rfl
  | cons kv fs ih =>
    obtain ⟨k, v⟩ := kv
    simp only [List.map_cons, List.mem_cons, not_or] at h
    have : ¬ k = p := fun e => h.1 e.symm
    simp only [lookupFile, this, if_false]
    exact ih h.2

/-- file maps with the same duplicate-free key list and the same contents are equal -/
theorem fileMap_ext : ∀ (fs gs : List (String × String)), fs.map (·.1) = gs.map (·.1) → (fs.map (·.1)).Nodup →
    (∀ p, lookupFile fs p = lookupFile gs p) → fs = gs
  | [], [], _, _, _ => rfl
  | [], _ :: _, hk, _, _ => by simp at hk
  | _ :: _, [], hk, _, _ => by simp at hk
  | (k, v) :: fs, (k', v') :: gs, hk, hn, hl => by
    simp only [List.map_cons, List.cons.injEq] at hk
    obtain ⟨hk1, hk2⟩ := hk
    subst hk1
    simp only [List.map_cons, List.nodup_cons] at hn
    have hv : v = v' := by
      have := hl k
      simpa [lookupFile] using this
    subst hv
    have : fs = gs := by
      apply fileMap_ext fs gs hk2 hn.2
      intro p
      by_cases hp : k = p
      · subst hp
        rw [lookupFile_none_of_not_mem fs k hn.1, lookupFile_none_of_not_mem gs k (hk2 ▸ hn.1)]
      · have := hl p
        simpa [lookupFile, hp] using this
    rw [this]

/-! ### `split` and `join` -/

/-- `joinWith` on character lists -/
def joinL (sep : List Char) : List (List Char) → List Char
  | [] => []
  | [a] => a
  | a :: as => a ++ sep ++ joinL sep as

theorem toList_joinWith (sep : String) : ∀ (l : List String), (joinWith sep l).toList = joinL sep.toList (l.map String.toList)
  | [] => by simp [joinWith, joinL]
  | [a] => rfl
  | a :: b :: l => by
    simp only [joinWith, joinL, List.map_cons, String.toList_append]
    rw [toList_joinWith sep (b :: l)]
    rfl

theorem splitOnChar_cons_sep (sep : Char) (cs : List Char) : splitOnChar sep (sep :: cs) = [] :: splitOnChar sep cs := by
  conv => lhs; unfold splitOnChar
  split
  · rename_i h; exact absurd h (splitOnChar_ne_nil sep cs)
  · rename_i p ps h; simp [h]

theorem splitOnChar_cons_ne (sep c : Char) (cs p : List Char) (ps : List (List Char)) (hc : c ≠ sep)
    (h : splitOnChar sep cs = p :: ps) : splitOnChar sep (c :: cs) = (c :: p) :: ps := by
  conv => lhs; unfold splitOnChar
  rw [h]
  simp [hc]

theorem splitOnChar_append_sep (sep : Char) (a : List Char) (h : sep ∉ a) (rest : List Char) :
    splitOnChar sep (a ++ sep :: rest) = a :: splitOnChar sep rest := by
  induction a with
  | nil => exact splitOnChar_cons_sep sep rest
  | cons c a ih =>
    simp only [List.mem_cons, not_or] at h
    exact splitOnChar_cons_ne sep c _ a _ (fun e => h.1 e.symm) (ih h.2)

theorem splitOnChar_joinL (sep : Char) : ∀ (parts : List (List Char)), parts ≠ [] → (∀ p ∈ parts, sep ∉ p) →
    splitOnChar sep (joinL [sep] parts) = parts
  | [], h, _ => absurd rfl h
  | [a], _, h => splitOnChar_of_not_mem sep a (h a (by simp))
  | a :: b :: l, _, h => by
    have : joinL [sep] (a :: b :: l) = a ++ sep :: joinL [sep] (b :: l) := by simp [joinL]
    rw [this, splitOnChar_append_sep sep a (h a (by simp)),
      splitOnChar_joinL sep (b :: l) (by simp) (fun p hp => h p (by simp [hp]))]

/-- splitting a joined list gives the list back -/
theorem pySplit_joinWith (sep : Char) (sepS : String) (hs : sepS.toList = [sep]) (parts : List String)
    (hne : parts ≠ []) (h : ∀ p ∈ parts, sep ∉ p.toList) : pySplit (joinWith sepS parts) sep = parts := by
  unfold pySplit
  rw [toList_joinWith, hs, splitOnChar_joinL sep _ (by simpa using hne)]
  · rw [List.map_map]
    conv => rhs; rw [← List.map_id parts]
    apply List.map_congr_left
    intro a _
    simp [String.ofList_toList]
  · intro p hp
    rw [List.mem_map] at hp
    obtain ⟨q, hq, rfl⟩ := hp
    exact h q hq

theorem mem_of_mem_splitOnChar (sep : Char) (cs : List Char) (p : List Char) (hp : p ∈ splitOnChar sep cs)
    (x : Char) (hx : x ∈ p) : x ∈ cs := by
  have h1 : x ∈ (splitOnChar sep cs).flatten := List.mem_flatten.2 ⟨p, hp, hx⟩
  rw [flatten_splitOnChar] at h1
  exact (List.mem_filter.1 h1).1

theorem mem_of_mem_pySplit (sep : Char) (s p : String) (hp : p ∈ pySplit s sep) (x : Char) (hx : x ∈ p.toList) :
    x ∈ s.toList := by
  unfold pySplit at hp
  rw [List.mem_map] at hp
  obtain ⟨q, hq, rfl⟩ := hp
  rw [String.toList_ofList] at hx
  exact mem_of_mem_splitOnChar sep _ q hq x hx

theorem sep_not_mem_pySplit (sep : Char) (s p : String) (hp : p ∈ pySplit s sep) : sep ∉ p.toList := by
  unfold pySplit at hp
  rw [List.mem_map] at hp
  obtain ⟨q, hq, rfl⟩ := hp
  rw [String.toList_ofList]
  exact mem_splitOnChar_not_sep sep _ q hq

theorem pySplit_ne_nil (sep : Char) (s : String) : pySplit s sep ≠ [] := by
  unfold pySplit
  simpa using splitOnChar_ne_nil sep s.toList

theorem mem_dropLast' {α : Type} (x : α) : ∀ (l : List α), x ∈ dropLast' l → x ∈ l
  | [], h => by simp [dropLast'] at h
  | [_], h => by simp [dropLast'] at h
  | a :: b :: l, h => by
    simp only [dropLast', List.mem_cons] at h
    rcases h with rfl | h
    · simp
    · exact List.mem_cons_of_mem _ (mem_dropLast' x (b :: l) h)

/-- without `/` in the class path, the module name is a function of the module directory -/
theorem outsideModuleName_of_no_slash (c : String) (h : '/' ∉ c.toList) :
    outsideModuleName c = lastD "" (splitSlash (outsideModulePath c)) := by
  unfold outsideModuleName outsideModulePath
  by_cases hne : dropLast' (splitDot c) = []
  · rw [hne]; decide
  · unfold splitSlash
    rw [pySplit_joinWith '/' "/" (by decide) _ hne]
    intro p hp hx
    exact h (mem_of_mem_pySplit '.' c p (mem_dropLast' p _ hp) '/' hx)

theorem coherentOutside_of_no_slash (outside : List String) (h : ∀ c ∈ outside, '/' ∉ c.toList) :
    CoherentOutside outside := by
  intro c₁ h1 c₂ h2 he
  rw [outsideModuleName_of_no_slash c₁ (h c₁ h1), outsideModuleName_of_no_slash c₂ (h c₂ h2), he]

/-! ### `stubPath` -/

/-- the directory segments of a stub: `Path(out / module_id)` for a module stub, its parent for a stub
    created from an `__init__` re-export -/
def dirSegments (d : StubData) : List String :=
  if d.isPackageModule then dropLast' (pathParts d.dir) else pathParts d.dir

/-- the file name of a stub -/
def stubFileName (d : StubData) : String := pyLstrip d.name "_" ++ ".sdsstub"

theorem mem_pathParts (x s : String) (h : s ∈ pathParts x) : s ∈ splitSlash x ∧ s ≠ "" ∧ s ≠ "." := by
  unfold pathParts at h
  rw [List.mem_filter] at h
  refine ⟨h.1, ?_⟩
  simpa using h.2

theorem mem_lstripSet (set : List Char) (x : Char) : ∀ (l : List Char), x ∈ lstripSet set l → x ∈ l
  | [], h => by simp [lstripSet] at h
  | c :: cs, h => by
    unfold lstripSet at h
    split at h
    · exact List.mem_cons_of_mem _ (mem_lstripSet set x cs h)
    · exact h

theorem no_slash_stubFileName (d : StubData) (h : '/' ∉ d.name.toList) : '/' ∉ (stubFileName d).toList := by
  unfold stubFileName pyLstrip
  rw [String.toList_append, String.toList_ofList, List.mem_append, not_or]
  exact ⟨fun hx => h (mem_lstripSet _ _ _ hx), by decide⟩

theorem append_sdsstub_ne (a : String) : a ++ ".sdsstub" ≠ "" ∧ a ++ ".sdsstub" ≠ "." ∧ a ++ ".sdsstub" ≠ ".." := by
  have hl : (a ++ ".sdsstub").length = a.length + 8 := by rw [String.length_append]; rfl
  refine ⟨?_, ?_, ?_⟩ <;> intro e <;> rw [e] at hl
  · have : ("" : String).length = 0 := rfl
    omega
  · have : (".").length = 1 := rfl
    omega
  · have : ("..").length = 2 := rfl
    omega

theorem splitSlash_stubPath (d : StubData) (h : '/' ∉ d.name.toList) :
    splitSlash (stubPath d) = dirSegments d ++ [stubFileName d] := by
  have : stubPath d = joinWith "/" (dirSegments d ++ [stubFileName d]) := by
    unfold stubPath dirSegments stubFileName; rfl
  rw [this]
  unfold splitSlash
  apply pySplit_joinWith '/' "/" (by decide) _ (by simp)
  intro p hp
  rw [List.mem_append, List.mem_singleton] at hp
  rcases hp with hp | rfl
  · have hp' : p ∈ pathParts d.dir := by
      unfold dirSegments at hp
      split at hp
      · exact mem_dropLast' p _ hp
      · exact hp
    exact sep_not_mem_pySplit '/' d.dir p (mem_pathParts _ _ hp').1
  · exact no_slash_stubFileName d h

/-! ### placeholder stubs: paths -/

theorem splitOnChar_of_mem (sep : Char) : ∀ (cs : List Char), sep ∈ cs → ∃ a b rest, splitOnChar sep cs = a :: b :: rest
  | [], h => by simp at h
  | c :: cs, h => by
    by_cases hc : c = sep
    · subst hc
      rw [splitOnChar_cons_sep]
      cases hs : splitOnChar c cs with
      | nil => exact absurd hs (splitOnChar_ne_nil c cs)
      | cons p ps => exact ⟨[], p, ps, rfl⟩
    · have hin : sep ∈ cs := by
        rcases List.mem_cons.1 h with e | h'
        · exact absurd e.symm hc
        · exact h'
      obtain ⟨a, b, rest, hs⟩ := splitOnChar_of_mem sep cs hin
      exact ⟨c :: a, b, rest, splitOnChar_cons_ne sep c cs a (b :: rest) hc hs⟩

/-- `path_parts` is empty exactly when the class path has no dot -/
theorem dropLast'_splitDot_eq_nil (c : String) : dropLast' (splitDot c) = [] ↔ '.' ∉ c.toList := by
  unfold splitDot pySplit
  constructor
  · intro h hin
    obtain ⟨a, b, rest, hs⟩ := splitOnChar_of_mem '.' c.toList hin
    rw [hs] at h
    simp [dropLast'] at h
  · intro h
    rw [splitOnChar_of_not_mem '.' c.toList h]
    rfl

theorem pathParts_joinWith (parts : List String) (h : ∀ p ∈ parts, '/' ∉ p.toList ∧ p ≠ "" ∧ p ≠ ".") :
    pathParts (joinWith "/" parts) = parts := by
  by_cases hne : parts = []
  · subst hne; decide
  · unfold pathParts splitSlash
    rw [pySplit_joinWith '/' "/" (by decide) parts hne (fun p hp => (h p hp).1), List.filter_eq_self]
    intro p hp
    simpa using (h p hp).2

theorem outsideHeader_eq_packageHeader (env : Env) (c : String) :
    outsideHeader env.safe c = packageHeader env (outsidePyPath c) := rfl

theorem ne_dot_of_mem_splitDot (c p : String) (hp : p ∈ splitDot c) : p ≠ "." := by
  intro e
  have := sep_not_mem_pySplit '.' c p hp
  rw [e] at this
  exact this (by decide)

/-! ### `replace('.', '/')` -/

theorem joinL_cons_cons_head (sep : List Char) (c : Char) (p : List Char) (ps : List (List Char)) :
    joinL sep ((c :: p) :: ps) = c :: joinL sep (p :: ps) := by
  cases ps <;> simp [joinL]

theorem flatMap_replace_eq_joinL (a b : Char) : ∀ (cs : List Char),
    cs.flatMap (fun c => if c = a then [b] else [c]) = joinL [b] (splitOnChar a cs)
  | [] => rfl
  | c :: cs => by
    rw [List.flatMap_cons, flatMap_replace_eq_joinL a b cs]
    cases hs : splitOnChar a cs with
    | nil => exact absurd hs (splitOnChar_ne_nil a cs)
    | cons p ps =>
      by_cases hc : c = a
      · subst hc
        rw [splitOnChar_cons_sep, hs]
        simp [joinL]
      · rw [splitOnChar_cons_ne a c cs p ps hc hs, joinL_cons_cons_head]
        simp [hc]

/-- replacing a character is splitting at it and joining with the replacement -/
theorem replaceChar_eq_joinWith (s : String) (a b : Char) (bs : String) (hb : bs.toList = [b]) :
    replaceChar s a bs = joinWith bs (pySplit s a) := by
  rw [← String.toList_inj, toList_joinWith, hb]
  unfold replaceChar pySplit
  rw [String.toList_ofList, hb, flatMap_replace_eq_joinL, List.map_map]
  congr 1
  conv => lhs; rw [← List.map_id (splitOnChar a s.toList)]
  apply List.map_congr_left
  intro x _
  simp [String.toList_ofList]

/-- the directory segments of `pkg.replace(".", "/")` are the dot-segments of `pkg` -/
theorem splitSlash_replaceChar_dot (pkg : String) (h : '/' ∉ pkg.toList) :
    splitSlash (replaceChar pkg '.' "/") = splitDot pkg := by
  rw [replaceChar_eq_joinWith pkg '.' '/' "/" (by decide)]
  unfold splitSlash
  apply pySplit_joinWith '/' "/" (by decide) _ (pySplit_ne_nil '.' pkg)
  intro p hp hx
  exact h (mem_of_mem_pySplit '.' pkg p hp '/' hx)

/-! ### the generator monad; module stubs -/

theorem G_bind_ok {α β : Type} {x : G α} {f : α → G β} {s : St} {b : β} {s' : St}
    (h : (x >>= f) s = .ok (b, s')) : ∃ a s1, x s = .ok (a, s1) ∧ f a s1 = .ok (b, s') := by
  simp only [bind, StateT.bind, Except.bind] at h
  cases hx : x s with
  | error e => rw [hx] at h; exact absurd h (by simp)
  | ok r =>
    obtain ⟨a, s1⟩ := r
    rw [hx] at h
    exact ⟨a, s1, rfl, h⟩

theorem G_pure_ok {α : Type} {a b : α} {s s' : St} (h : (pure a : G α) s = .ok (b, s')) : b = a ∧ s' = s := by
  simp only [pure, StateT.pure, Except.pure, Except.ok.injEq, Prod.mk.injEq] at h
  exact ⟨h.1.symm, h.2.symm⟩

/-- the Python module path a module stub announces -/
def modulePackage (env : Env) (m : Module) : String :=
  if (shortestPublicReexport env.api.reexportMap m.name "" true).1 != "" then
    (shortestPublicReexport env.api.reexportMap m.name "" true).1
  else joinWith "." (splitSlash m.id)

/-- the module's documentation comment (empty or a comment block followed by an empty line) -/
def moduleDoc (m : Module) : String :=
  if sdsDocstringDescription m.docstring "" != "" then sdsDocstringDescription m.docstring "" ++ "\n"
  else sdsDocstringDescription m.docstring ""

theorem createModuleString_text {env : Env} {m : Module} {s : St} {text pkg : String} {s' : St}
    (h : createModuleString env m s = .ok ((text, pkg), s')) :
    pkg = modulePackage env m ∧ ∃ rest, text = moduleDoc m ++ packageHeader env pkg ++ rest := by
  unfold createModuleString at h
  rcases hsp : shortestPublicReexport env.api.reexportMap m.name "" true with ⟨sp, al⟩
  rw [hsp] at h
  simp only at h
  obtain ⟨t1, s1, _, h⟩ := G_bind_ok h
  obtain ⟨t2, s2, _, h⟩ := G_bind_ok h
  obtain ⟨_, s3, _, h⟩ := G_bind_ok h
  obtain ⟨imports, s4, _, h⟩ := G_bind_ok h
  obtain ⟨h, _⟩ := G_pure_ok h
  simp only [Prod.mk.injEq] at h
  obtain ⟨ht, hp⟩ := h
  have hp' : pkg = modulePackage env m := by
    unfold modulePackage; rw [hsp]; exact hp
  refine ⟨hp', imports ++ t1 ++ t2 ++ String.join (List.map (fun e => "\n" ++ createEnumString env e ++ "\n") m.enums), ?_⟩
  rw [ht, hp]
  unfold moduleDoc
  simp only [String.append_assoc]

theorem callGenerator_text {env : Env} {m : Module} {s : St} {text pkg : String} {s' : St}
    (h : callGenerator env m s = .ok ((text, pkg), s')) :
    pkg = modulePackage env m ∧ ∃ rest, text = moduleDoc m ++ packageHeader env pkg ++ rest := by
  unfold callGenerator at h
  obtain ⟨_, s1, _, h⟩ := G_bind_ok h
  obtain ⟨_, s2, _, h⟩ := G_bind_ok h
  obtain ⟨_, s3, _, h⟩ := G_bind_ok h
  exact createModuleString_text h


/-- the base name of a module stub: the alias under which the shortest public re-export publishes the
    module, else the module's own name -/
def moduleStubName (env : Env) (m : Module) : String :=
  if (shortestPublicReexport env.api.reexportMap m.name "" true).2 != "" then
    (shortestPublicReexport env.api.reexportMap m.name "" true).2
  else m.name

theorem generateModules_spec (env : Env) : ∀ (ms : List Module) (st : St) (ds : List StubData) (st' : St),
    generateModules env ms st = .ok (ds, st') →
    ∀ d ∈ ds, ∃ m ∈ ms, d.isPackageModule = false ∧ d.dir = replaceChar (modulePackage env m) '.' "/"
      ∧ d.name = moduleStubName env m
      ∧ ∃ rest, d.text = moduleDoc m ++ packageHeader env (modulePackage env m) ++ rest
  | [], st, ds, st', h, d, hd => by
    unfold generateModules at h
    obtain ⟨h, _⟩ := G_pure_ok h
    rw [h] at hd
    simp at hd
  | m :: ms, st, ds, st', h, d, hd => by
    unfold generateModules at h
    split at h
    · obtain ⟨m', hm', hr⟩ := generateModules_spec env ms st ds st' h d hd
      exact ⟨m', List.mem_cons_of_mem _ hm', hr⟩
    · obtain ⟨r, s1, hcall, h⟩ := G_bind_ok h
      obtain ⟨text, pkg⟩ := r
      simp only at h
      split at h
      · obtain ⟨m', hm', hr⟩ := generateModules_spec env ms s1 ds st' h d hd
        exact ⟨m', List.mem_cons_of_mem _ hm', hr⟩
      · obtain ⟨rest, s2, hrest, h⟩ := G_bind_ok h
        obtain ⟨h, _⟩ := G_pure_ok h
        rw [h, List.mem_cons] at hd
        rcases hd with hd | hd
        · obtain ⟨hpkg, tail, htext⟩ := callGenerator_text hcall
          refine ⟨m, by simp, ?_⟩
          rw [hd]
          dsimp only
          refine ⟨rfl, ?_, rfl, tail, ?_⟩
          · rw [hpkg]
            unfold modulePackage
            split <;> rfl
          · rw [htext, hpkg]
        · obtain ⟨m', hm', hr⟩ := generateModules_spec env ms s1 rest s2 hrest d hd
          exact ⟨m', List.mem_cons_of_mem _ hm', hr⟩
/-! ### at most one `write` per path -/

/-- number of `write` operations on path `p` -/
def writeCount (p : String) (ops : List WriteOp) : Nat :=
  (ops.filter fun o => o.path == p && decide (o.mode = .write)).length

theorem writeCount_append (p : String) (a b : List WriteOp) : writeCount p (a ++ b) = writeCount p a + writeCount p b := by
  simp [writeCount]

theorem writeCount_cons (p : String) (o : WriteOp) (ops : List WriteOp) :
    writeCount p (o :: ops) = (if o.path = p ∧ o.mode = .write then 1 else 0) + writeCount p ops := by
  unfold writeCount
  rw [List.filter_cons]
  by_cases h : o.path = p ∧ o.mode = .write
  · simp [h]; omega
  · have : (o.path == p && decide (o.mode = .write)) = false := by
      simpa using h
    simp [this, h]

/-- two class paths that go to the same file also go to the same directory -/
def OutsideInjective (outside : List String) : Prop :=
  ∀ c₁ ∈ outside, ∀ c₂ ∈ outside, outsideFile c₁ = outsideFile c₂ → outsideModulePath c₁ = outsideModulePath c₂

theorem outsideWrites_paths (safe : Bool) : ∀ (cs created existing : List String) (ops : List WriteOp),
    outsideWrites safe cs created existing = .ok ops → ∀ op ∈ ops, ∃ c ∈ cs, op.path = outsideFile c
  | [], _, _, ops, h, op, hop => by
    simp only [outsideWrites, Except.ok.injEq] at h
    rw [← h] at hop; simp at hop
  | c :: cs, created, existing, ops, h, op, hop => by
    obtain ⟨op0, created', ops', hr, hr2, rfl⟩ := outsideWrites_cons_ok h
    rcases List.mem_cons.1 hop with rfl | hop
    · exact ⟨c, by simp, (createOutsidePackageClass_ok hr).2.1⟩
    · obtain ⟨c', hc', hp⟩ := outsideWrites_paths safe cs _ _ ops' hr2 op hop
      exact ⟨c', List.mem_cons_of_mem _ hc', hp⟩

theorem outsideWrites_writeCount (safe : Bool) (all : List String) (hinj : OutsideInjective all) (p : String) :
    ∀ (cs : List String), (∀ c ∈ cs, c ∈ all) → ∀ (created existing : List String) (ops : List WriteOp),
    outsideWrites safe cs created existing = .ok ops →
      writeCount p ops ≤ 1
      ∧ ((∃ c ∈ all, outsideFile c = p ∧ outsideModulePath c ∈ created ∧ p ∈ existing) → writeCount p ops = 0)
  | [], _, _, _, ops, h => by
    simp only [outsideWrites, Except.ok.injEq] at h
    rw [← h]; simp [writeCount]
  | c :: cs, hcs, created, existing, ops, h => by
    obtain ⟨op0, created', ops', hr, hr2, rfl⟩ := outsideWrites_cons_ok h
    obtain ⟨_, hp, hcr, hcase⟩ := createOutsidePackageClass_ok hr
    have hc : c ∈ all := hcs c (by simp)
    have ih := outsideWrites_writeCount safe all hinj p cs (fun x hx => hcs x (by simp [hx])) created'
      (insertSet op0.path existing) ops' hr2
    have hmono : ∀ x, x ∈ created → x ∈ created' := by
      intro x hx; rw [hcr]; split
      · exact hx
      · exact List.mem_append_left _ hx
    have hmono2 : ∀ x, x ∈ existing → x ∈ insertSet op0.path existing := fun x hx => mem_insertSet.2 (Or.inr hx)
    have hprem : (∃ c ∈ all, outsideFile c = p ∧ outsideModulePath c ∈ created ∧ p ∈ existing) →
        (∃ c ∈ all, outsideFile c = p ∧ outsideModulePath c ∈ created' ∧ p ∈ insertSet op0.path existing) := by
      rintro ⟨c', h1, h2, h3, h4⟩
      exact ⟨c', h1, h2, hmono _ h3, hmono2 _ h4⟩
    rw [writeCount_cons]
    by_cases hw : op0.path = p ∧ op0.mode = .write
    · rw [if_pos hw]
      have hcr' : outsideModulePath c ∈ created' := by
        rw [hcr]; split
        · assumption
        · simp
      have h0 : writeCount p ops' = 0 :=
        ih.2 ⟨c, hc, hp ▸ hw.1, hcr', mem_insertSet.2 (Or.inl hw.1.symm)⟩
      refine ⟨by omega, ?_⟩
      rintro ⟨c', h1, h2, h3, h4⟩
      exfalso
      rcases hcase with ⟨ha, _⟩ | ⟨_, _, hnot⟩
      · rw [hw.2] at ha; exact absurd ha (by simp)
      · apply hnot
        have hfile : outsideFile c = p := hp ▸ hw.1
        refine ⟨hfile ▸ h4, ?_⟩
        rw [hinj c hc c' h1 (hfile.trans h2.symm)]
        exact h3
    · rw [if_neg hw]
      exact ⟨by omega, fun hx => by have := ih.2 (hprem hx); omega⟩

theorem moduleOps_writeCount (p : String) : ∀ (stubs : List StubData), (stubs.map stubPath).Nodup →
    writeCount p (stubs.map fun d => ({ path := stubPath d, mode := .write, text := d.text } : WriteOp)) ≤ 1
    ∧ (p ∉ stubs.map stubPath →
        writeCount p (stubs.map fun d => ({ path := stubPath d, mode := .write, text := d.text } : WriteOp)) = 0)
  | [], _ => by simp [writeCount]
  | d :: ds, hn => by
    simp only [List.map_cons, List.nodup_cons] at hn
    have ih := moduleOps_writeCount p ds hn.2
    simp only [List.map_cons, writeCount_cons, List.mem_cons, not_or]
    by_cases hd : stubPath d = p
    · have : p ∉ ds.map stubPath := hd ▸ hn.1
      have h0 := ih.2 this
      simp only [hd, true_and, if_true]
      refine ⟨by omega, fun h => absurd trivial h.1⟩
    · simp only [hd, false_and, if_false]
      refine ⟨by omega, fun h => by have := ih.2 h.2; omega⟩

theorem createStubFiles_writeCount {safe : Bool} {stubs : List StubData} {outside pre : List String} {ops : List WriteOp}
    (h : createStubFiles safe stubs outside pre = .ok ops) (h1 : (stubs.map stubPath).Nodup)
    (h2 : ∀ c ∈ outside, outsideFile c ∉ stubs.map stubPath) (h3 : OutsideInjective outside) (p : String) :
    writeCount p ops ≤ 1 := by
  obtain ⟨oops, ho, rfl⟩ := createStubFiles_ok h
  rw [writeCount_append]
  have hm := moduleOps_writeCount p stubs h1
  have hcs : ∀ c ∈ sortStrings outside, c ∈ outside := fun c hc => (mem_sortStrings c outside).1 hc
  by_cases hp : p ∈ stubs.map stubPath
  · have : writeCount p oops = 0 := by
      unfold writeCount
      rw [List.length_eq_zero_iff, List.filter_eq_nil_iff]
      intro o ho' hcond
      simp only [Bool.and_eq_true, beq_iff_eq] at hcond
      obtain ⟨c, hc, hpath⟩ := outsideWrites_paths safe _ _ _ _ ho o ho'
      exact h2 c (hcs c hc) (hpath ▸ hcond.1 ▸ hp)
    omega
  · have := (outsideWrites_writeCount safe outside h3 p _ hcs _ _ _ ho).1
    have := hm.2 hp
    omega


theorem string_append_right_cancel {a b c : String} (h : a ++ c = b ++ c) : a = b := by
  rw [← String.toList_inj] at h ⊢
  rw [String.toList_append, String.toList_append] at h
  exact List.append_cancel_right h

theorem stubPath_eq_join (d : StubData) : stubPath d = joinWith "/" (dirSegments d ++ [stubFileName d]) := rfl

/-- exactly when two stubs are sent to the same file -/
theorem stubPath_eq_iff (d₁ d₂ : StubData) (h1 : '/' ∉ d₁.name.toList) (h2 : '/' ∉ d₂.name.toList) :
    stubPath d₁ = stubPath d₂ ↔ dirSegments d₁ = dirSegments d₂ ∧ pyLstrip d₁.name "_" = pyLstrip d₂.name "_" := by
  constructor
  · intro h
    have := congrArg splitSlash h
    rw [splitSlash_stubPath d₁ h1, splitSlash_stubPath d₂ h2] at this
    obtain ⟨ha, hb⟩ := List.append_inj' this rfl
    simp only [List.cons.injEq, and_true] at hb
    exact ⟨ha, string_append_right_cancel hb⟩
  · rintro ⟨ha, hb⟩
    rw [stubPath_eq_join, stubPath_eq_join, ha]
    unfold stubFileName
    rw [hb]

theorem lastD_mem {α : Type} (d : α) : ∀ (l : List α), l ≠ [] → lastD d l ∈ l
  | [], h => absurd rfl h
  | [a], _ => by simp [lastD]
  | a :: b :: l, _ => by
    have : lastD d (a :: b :: l) = lastD d (b :: l) := rfl
    rw [this]
    exact List.mem_cons_of_mem _ (lastD_mem d (b :: l) (by simp))

/-- class paths whose directory segments are non-empty and `/`-free -/
def PlainOutside (outside : List String) : Prop :=
  ∀ c ∈ outside, ∀ s ∈ dropLast' (splitDot c), '/' ∉ s.toList ∧ s ≠ ""

theorem splitSlash_outsideFile (c : String) (h : ∀ s ∈ dropLast' (splitDot c), '/' ∉ s.toList ∧ s ≠ "") :
    splitSlash (outsideFile c) = dropLast' (splitDot c) ++ [pyLstrip (outsideModuleName c) "_" ++ ".sdsstub"] := by
  have hpp : pathParts (outsideModulePath c) = dropLast' (splitDot c) :=
    pathParts_joinWith _ (fun s hs => ⟨(h s hs).1, (h s hs).2, ne_dot_of_mem_splitDot c s (mem_dropLast' s _ hs)⟩)
  unfold outsideFile
  rw [hpp]
  unfold splitSlash
  apply pySplit_joinWith '/' "/" (by decide) _ (by simp)
  intro s hs
  rw [List.mem_append, List.mem_singleton] at hs
  rcases hs with hs | rfl
  · exact (h s hs).1
  · rw [String.toList_append, List.mem_append, not_or]
    refine ⟨?_, by decide⟩
    have hmn : '/' ∉ (outsideModuleName c).toList := by
      unfold outsideModuleName
      by_cases hne : dropLast' (splitDot c) = []
      · rw [hne]; decide
      · exact (h _ (lastD_mem "" _ hne)).1
    unfold pyLstrip
    rw [String.toList_ofList]
    exact fun hx => hmn (mem_lstripSet _ _ _ hx)

theorem outsideInjective_of_plain (outside : List String) (h : PlainOutside outside) : OutsideInjective outside := by
  intro c₁ h1 c₂ h2 he
  have := congrArg splitSlash he
  rw [splitSlash_outsideFile c₁ (h c₁ h1), splitSlash_outsideFile c₂ (h c₂ h2)] at this
  obtain ⟨ha, _⟩ := List.append_inj' this (by simp only [List.length_singleton])
  unfold outsideModulePath
  rw [ha]

theorem coherentOutside_of_plain (outside : List String) (h : PlainOutside outside) : CoherentOutside outside := by
  intro c₁ h1 c₂ h2 he
  have hp : ∀ c ∈ outside, pathParts (outsideModulePath c) = dropLast' (splitDot c) := fun c hc =>
    pathParts_joinWith _ (fun s hs => ⟨(h c hc s hs).1, (h c hc s hs).2,
      ne_dot_of_mem_splitDot c s (mem_dropLast' s _ hs)⟩)
  have : dropLast' (splitDot c₁) = dropLast' (splitDot c₂) := by
    rw [← hp c₁ h1, ← hp c₂ h2, he]
  unfold outsideModuleName
  rw [this]

theorem lastD_append_singleton {α : Type} (d x : α) : ∀ (l : List α), lastD d (l ++ [x]) = x
  | [] => rfl
  | [_] => rfl
  | a :: b :: l => by
    have h : lastD d (a :: b :: l ++ [x]) = lastD d (b :: l ++ [x]) := rfl
    rw [h]
    exact lastD_append_singleton d x (b :: l)

/-- what `lstrip` leaves does not start with a stripped character -/
theorem lstripSet_head_not_mem (set : List Char) (x : Char) (hx : x ∈ set) :
    ∀ (l : List Char), (lstripSet set l).head? ≠ some x
  | [] => by simp [lstripSet]
  | c :: cs => by
    unfold lstripSet
    split
    · exact lstripSet_head_not_mem set x hx cs
    · rename_i hc
      intro e
      simp only [List.head?_cons, Option.some.injEq] at e
      subst e
      exact hc (List.contains_iff_mem.2 hx)

theorem pyLstrip_head_not_mem (s chars : String) (x : Char) (hx : x ∈ chars.toList) :
    (pyLstrip s chars).toList.head? ≠ some x := by
  unfold pyLstrip
  rw [String.toList_ofList]
  exact lstripSet_head_not_mem _ x hx _

/-! ### frame: the string generation never touches `creatingReexport` / `reexportModuleId` -/

/-- the part of the generator state that the string generation never touches -/
def St.frameEq (s t : St) : Prop := s.creatingReexport = t.creatingReexport ∧ s.reexportModuleId = t.reexportModuleId

/-- running `x` from a state that agrees with `s0` on the frame ends in such a state -/
structure KeepsAt {α : Type} (s0 : St) (x : G α) : Prop where
  run : ∀ (s : St) (a : α) (s' : St), s.frameEq s0 → x s = .ok (a, s') → s'.frameEq s0

namespace KeepsAt
variable {α β : Type} {s0 : St}

theorem pure (a : α) : KeepsAt s0 (Pure.pure a : G α) := by
  refine ⟨fun s b s' hs h => ?_⟩
  obtain ⟨_, rfl⟩ := G_pure_ok h
  exact hs

theorem throw (e : PyErr) : KeepsAt s0 (throwG e : G α) := by
  refine ⟨fun s b s' _ h => ?_⟩
  exact absurd h (by simp [throwG])

theorem bind {x : G α} {f : α → G β} (hx : KeepsAt s0 x) (hf : ∀ a, KeepsAt s0 (f a)) : KeepsAt s0 (x >>= f) := by
  refine ⟨fun s b s' hs h => ?_⟩
  obtain ⟨a, s1, h1, h2⟩ := G_bind_ok h
  exact (hf a).run s1 b s' (hx.run s a s1 hs h1) h2

theorem get_bind {f : St → G β} (hf : ∀ s : St, s.frameEq s0 → KeepsAt s0 (f s)) : KeepsAt s0 (get >>= f) := by
  refine ⟨fun s b s' hs h => ?_⟩
  obtain ⟨a, s1, h1, h2⟩ := G_bind_ok h
  have : a = s ∧ s1 = s := by
    simp only [get, getThe, MonadStateOf.get, StateT.get, Pure.pure, Except.pure, Except.ok.injEq, Prod.mk.injEq] at h1
    exact ⟨h1.1.symm, h1.2.symm⟩
  rw [this.1, this.2] at h2
  exact (hf s hs).run s b s' hs h2

theorem set {t : St} (ht : t.frameEq s0) : KeepsAt s0 (set t : G PUnit) := by
  refine ⟨fun s b s' _ h => ?_⟩
  simp only [MonadStateOf.set, StateT.set, Pure.pure, Except.pure, Except.ok.injEq, Prod.mk.injEq, MonadState.set] at h
  rw [← h.2]; exact ht

theorem set' {t s : St} (hs : s.frameEq s0) (h1 : t.creatingReexport = s.creatingReexport)
    (h2 : t.reexportModuleId = s.reexportModuleId) : KeepsAt s0 (MonadStateOf.set t : G PUnit) :=
  KeepsAt.set ⟨h1.trans hs.1, h2.trans hs.2⟩

theorem modify {g : St → St} (hg : ∀ s, (g s).frameEq s) : KeepsAt s0 (modify g : G PUnit) := by
  refine ⟨fun s b s' hs h => ?_⟩
  simp only [MonadState.modifyGet, MonadStateOf.modifyGet, StateT.modifyGet, Pure.pure, Except.pure, Except.ok.injEq,
    Prod.mk.injEq, _root_.modify] at h
  rw [← h.2]
  exact ⟨(hg s).1.trans hs.1, (hg s).2.trans hs.2⟩

end KeepsAt

theorem addTodo_keeps (s0 : St) (k : String) : KeepsAt s0 (addTodo k) :=
  KeepsAt.modify (fun _ => ⟨rfl, rfl⟩)

theorem logEmit_keeps (s0 : St) (k i : String) : KeepsAt s0 (logEmit k i) :=
  KeepsAt.modify (fun _ => ⟨rfl, rfl⟩)

open Lean in
macro "keeps" "[" ls:term,* "]" : tactic => do
  let alts ← ls.getElems.mapM fun l => `(tacticSeq| apply $l)
  `(tactic| repeat' (first
      | with_reducible exact KeepsAt.pure _
      | with_reducible exact KeepsAt.throw _
      | with_reducible exact addTodo_keeps _ _
      | with_reducible exact logEmit_keeps _ _ _
      | with_reducible assumption
      | with_reducible exact And.left ‹_ ∧ _›
      | ((with_reducible apply KeepsAt.modify); intro _; exact ⟨rfl, rfl⟩)
      | ((with_reducible apply KeepsAt.set'); (with_reducible assumption); (with_reducible rfl); (with_reducible rfl))
      | ((with_reducible apply KeepsAt.get_bind); intro _ _)
      $[| with_reducible $alts:tacticSeq]*
      | with_reducible apply KeepsAt.bind
      | intro _
      | split
      | dsimp only))

theorem hasNodeShorterReexport_keeps (s0 : St) (n : String) (r : List ModRef) (node : Node) :
    KeepsAt s0 (hasNodeShorterReexport n r node) := by
  unfold hasNodeShorterReexport
  keeps []


theorem KeepsAt.mapM {α β : Type} {s0 : St} (f : α → G β) (hf : ∀ a, KeepsAt s0 (f a)) :
    ∀ (l : List α), KeepsAt s0 (l.mapM f)
  | [] => by rw [List.mapM_nil]; exact KeepsAt.pure _
  | a :: l => by
    rw [List.mapM_cons]
    exact KeepsAt.bind (hf a) (fun b => KeepsAt.bind (KeepsAt.mapM f hf l) (fun bs => KeepsAt.pure _))

theorem addToImports_keeps (s0 : St) (env : Env) (q : String) : KeepsAt s0 (addToImports env q) := by
  unfold addToImports
  keeps []

theorem createTodoMsg_keeps (s0 : St) (indent : String) : KeepsAt s0 (createTodoMsg indent) := by
  unfold createTodoMsg
  keeps [KeepsAt.mapM]

/-- for a tuple type, the frame property of the named rendering of its members (used by `callable`) -/
def TupleNamedKeeps (s0 : St) (env : Env) (t : AType) : Prop :=
  ∀ ts, t = .tuple ts → ∀ pre i, KeepsAt s0 (typeStrsNamed env pre i ts)

mutual
theorem typeStr_keeps' (s0 : St) (env : Env) : (t : AType) → KeepsAt s0 (typeStr env t) ∧ TupleNamedKeeps s0 env t
  | .named name qname => by
    refine ⟨?_, fun ts h => by cases h⟩
    unfold typeStr
    keeps [addToImports_keeps]
  | .final t => by
    have := (typeStr_keeps' s0 env t).1
    refine ⟨?_, fun ts h => by cases h⟩
    unfold typeStr
    exact this
  | .callable params ret => by
    have h1 := typeStrsNamed_keeps s0 env "param_" 1 params
    have h2 := (typeStr_keeps' s0 env ret).1
    have h3 : ∀ ts, ret = .tuple ts → KeepsAt s0 (typeStrsNamed env "result_" 1 ts) :=
      fun ts h => (typeStr_keeps' s0 env ret).2 ts h "result_" 1
    refine ⟨?_, fun ts h => by cases h⟩
    unfold typeStr
    keeps [h3 _ rfl]
  | .set ts => by
    have h1 := typeStrs_keeps s0 env ts
    refine ⟨?_, fun ts h => by cases h⟩
    unfold typeStr
    keeps []
  | .list ts => by
    have h1 := typeStrs_keeps s0 env ts
    refine ⟨?_, fun ts h => by cases h⟩
    unfold typeStr
    keeps []
  | .namedSeq name _ ts => by
    have h1 := typeStrs_keeps s0 env ts
    refine ⟨?_, fun ts h => by cases h⟩
    unfold typeStr
    keeps [addToImports_keeps]
  | .unknown => by
    refine ⟨?_, fun ts h => by cases h⟩
    unfold typeStr
    keeps []
  | .union ts => by
    have h1 := typeStrs_keeps s0 env ts
    have h2 := typeStrsSkipLit_keeps s0 env ts
    refine ⟨?_, fun ts h => by cases h⟩
    unfold typeStr
    keeps []
  | .tuple ts => by
    have h1 := typeStrs_keeps s0 env ts
    have h2 := fun pre i => typeStrsNamed_keeps s0 env pre i ts
    refine ⟨?_, fun ts' h pre i => by cases h; exact h2 pre i⟩
    unfold typeStr
    keeps []
  | .dict k v => by
    have h1 := (typeStr_keeps' s0 env k).1
    have h2 := (typeStr_keeps' s0 env v).1
    refine ⟨?_, fun ts h => by cases h⟩
    unfold typeStr
    keeps []
  | .literal ls => by
    refine ⟨?_, fun ts h => by cases h⟩
    unfold typeStr
    keeps []
  | .typeVar name => by
    refine ⟨?_, fun ts h => by cases h⟩
    unfold typeStr
    keeps []
  | .typeVarB name _ => by
    refine ⟨?_, fun ts h => by cases h⟩
    unfold typeStr
    keeps []
  | .enum _ => by
    refine ⟨?_, fun ts h => by cases h⟩
    unfold typeStr
    keeps []
  | .boundary .. => by
    refine ⟨?_, fun ts h => by cases h⟩
    unfold typeStr
    keeps []
theorem typeStrs_keeps (s0 : St) (env : Env) : (ts : List AType) → KeepsAt s0 (typeStrs env ts)
  | [] => by unfold typeStrs; keeps []
  | t :: ts => by
    have h1 := (typeStr_keeps' s0 env t).1
    have h2 := typeStrs_keeps s0 env ts
    unfold typeStrs
    keeps []
theorem typeStrsSkipLit_keeps (s0 : St) (env : Env) : (ts : List AType) → KeepsAt s0 (typeStrsSkipLit env ts)
  | [] => by unfold typeStrsSkipLit; keeps []
  | t :: ts => by
    have h1 := (typeStr_keeps' s0 env t).1
    have h2 := typeStrsSkipLit_keeps s0 env ts
    unfold typeStrsSkipLit
    keeps []
theorem typeStrsNamed_keeps (s0 : St) (env : Env) (pre : String) (i : Nat) :
    (ts : List AType) → KeepsAt s0 (typeStrsNamed env pre i ts)
  | [] => by unfold typeStrsNamed; keeps []
  | t :: ts => by
    have h1 := (typeStr_keeps' s0 env t).1
    have h2 := typeStrsNamed_keeps s0 env pre (i + 1) ts
    unfold typeStrsNamed
    keeps []
end

theorem typeStr_keeps (s0 : St) (env : Env) (t : AType) : KeepsAt s0 (typeStr env t) := (typeStr_keeps' s0 env t).1


theorem typeStrOpt_keeps (s0 : St) (env : Env) (t : Option AType) : KeepsAt s0 (typeStrOpt env t) := by
  unfold typeStrOpt
  keeps [typeStr_keeps]

theorem defaultString_keeps (s0 : St) (a : Assign) (d : DefaultVal) : KeepsAt s0 (defaultString a d) := by
  unfold defaultString
  keeps []

theorem createParameter_keeps (s0 : St) (env : Env) (p : Parameter) : KeepsAt s0 (createParameter env p) := by
  unfold createParameter
  keeps [typeStr_keeps, defaultString_keeps]

theorem createParameters_keeps (s0 : St) (env : Env) : (ps : List Parameter) → KeepsAt s0 (createParameters env ps)
  | [] => by unfold createParameters; keeps []
  | p :: ps => by
    have := createParameters_keeps s0 env ps
    unfold createParameters
    keeps [createParameter_keeps]

theorem createParameterString_keeps (s0 : St) (env : Env) (ps : List Parameter) (indent : String) (b : Bool) :
    KeepsAt s0 (createParameterString env ps indent b) := by
  unfold createParameterString
  keeps [createParameters_keeps]

theorem createResults_keeps (s0 : St) (env : Env) : (rs : List Result) → KeepsAt s0 (createResults env rs)
  | [] => by unfold createResults; keeps []
  | r :: rs => by
    have := createResults_keeps s0 env rs
    unfold createResults
    keeps [typeStr_keeps]

theorem createResultString_keeps (s0 : St) (env : Env) (rs : List Result) : KeepsAt s0 (createResultString env rs) := by
  unfold createResultString
  keeps [createResults_keeps]

theorem typeVarStrings_keeps (s0 : St) (env : Env) (b : Bool) : (tvs : List TypeVar) → KeepsAt s0 (typeVarStrings env b tvs)
  | [] => by unfold typeVarStrings; keeps []
  | tv :: tvs => by
    have := typeVarStrings_keeps s0 env b tvs
    unfold typeVarStrings
    keeps [typeStr_keeps]

theorem createFunctionString_keeps (s0 : St) (env : Env) (f : Function) (indent : String) (b1 b2 : Bool) :
    KeepsAt s0 (createFunctionString env f indent b1 b2) := by
  unfold createFunctionString
  keeps [hasNodeShorterReexport_keeps, createParameterString_keeps, typeVarStrings_keeps, createResultString_keeps,
    createTodoMsg_keeps]

theorem createPropertyFunctionString_keeps (s0 : St) (env : Env) (f : Function) (indent : String) :
    KeepsAt s0 (createPropertyFunctionString env f indent) := by
  unfold createPropertyFunctionString
  keeps [typeStr_keeps, createTodoMsg_keeps]

theorem createAttribute_keeps (s0 : St) (env : Env) (a : Attribute) (inner : String) :
    KeepsAt s0 (createAttribute env a inner) := by
  unfold createAttribute
  keeps [typeStrOpt_keeps, createTodoMsg_keeps]

theorem createAttributes_keeps (s0 : St) (env : Env) (inner : String) :
    (as : List Attribute) → KeepsAt s0 (createAttributes env inner as)
  | [] => by unfold createAttributes; keeps []
  | a :: as => by
    have := createAttributes_keeps s0 env inner as
    unfold createAttributes
    keeps [createAttribute_keeps]

theorem createClassAttributeString_keeps (s0 : St) (env : Env) (as : List Attribute) (inner : String) :
    KeepsAt s0 (createClassAttributeString env as inner) := by
  unfold createClassAttributeString
  keeps [createAttributes_keeps]

theorem createMethods_keeps (s0 : St) (env : Env) (inner : String) (b : Bool) (ad : List String) :
    (ms : List Function) → KeepsAt s0 (createMethods env inner b ad ms)
  | [] => by unfold createMethods; keeps []
  | m :: ms => by
    have := createMethods_keeps s0 env inner b ad ms
    unfold createMethods
    keeps [createPropertyFunctionString_keeps, createFunctionString_keeps]

theorem createClassMethodString_keeps (s0 : St) (env : Env) (ms : List Function) (inner : String) (b : Bool)
    (ad : List String) : KeepsAt s0 (createClassMethodString env ms inner b ad) := by
  unfold createClassMethodString
  keeps [createMethods_keeps]

theorem varianceKeyword_keeps (s0 : St) (v : Variance) : KeepsAt s0 (varianceKeyword v) := by
  unfold varianceKeyword
  keeps []

theorem typeParamStrings_keeps (s0 : St) (env : Env) : (tps : List TypeParam) → KeepsAt s0 (typeParamStrings env tps)
  | [] => by unfold typeParamStrings; keeps []
  | tp :: tps => by
    have := typeParamStrings_keeps s0 env tps
    unfold typeParamStrings
    keeps [varianceKeyword_keeps, typeStr_keeps]

theorem innerClassesG_keeps (s0 : St) (render : Class → G String) (hr : ∀ c, KeepsAt s0 (render c)) :
    (cs : List Class) → KeepsAt s0 (innerClassesG render cs)
  | [] => by unfold innerClassesG; keeps []
  | c :: cs => by
    have := innerClassesG_keeps s0 render hr cs
    unfold innerClassesG
    keeps [hr]

theorem superclassesG_keeps (s0 : St) (env : Env) (inline : String → G String) (hr : ∀ c, KeepsAt s0 (inline c)) :
    (scs : List String) → KeepsAt s0 (superclassesG env inline scs)
  | [] => by unfold superclassesG; keeps []
  | sc :: scs => by
    have := superclassesG_keeps s0 env inline hr scs
    unfold superclassesG
    keeps [hr, addToImports_keeps]

theorem internalSupersG_keeps (s0 : St) (inline : String → G String) (hr : ∀ c, KeepsAt s0 (inline c)) :
    (scs : List String) → KeepsAt s0 (internalSupersG inline scs)
  | [] => by unfold internalSupersG; keeps []
  | sc :: scs => by
    have := internalSupersG_keeps s0 inline hr scs
    unfold internalSupersG
    keeps [hr]

mutual
theorem createClassString_keeps (s0 : St) (env : Env) : (fuel : Nat) → (c : Class) → (indent : String) → (b : Bool) →
    KeepsAt s0 (createClassString env fuel c indent b)
  | 0, _, _, _ => by unfold createClassString; keeps []
  | fuel + 1, c, indent, b => by
    have h1 := fun c i b => createClassString_keeps s0 env fuel c i b
    have h2 := fun sc i ad => createInternalClassString_keeps s0 env fuel sc i ad
    unfold createClassString
    keeps [hasNodeShorterReexport_keeps, createParameterString_keeps, typeParamStrings_keeps, createTodoMsg_keeps,
      createClassAttributeString_keeps, innerClassesG_keeps, createClassMethodString_keeps, superclassesG_keeps,
      h1, h2]
theorem createInternalClassString_keeps (s0 : St) (env : Env) : (fuel : Nat) → (sc : String) → (inner : String) →
    (ad : List String) → KeepsAt s0 (createInternalClassString env fuel sc inner ad)
  | 0, _, _, _ => by unfold createInternalClassString; keeps []
  | fuel + 1, sc, inner, ad => by
    have h1 := fun c i b => createClassString_keeps s0 env fuel c i b
    have h2 := fun sc i ad => createInternalClassString_keeps s0 env fuel sc i ad
    unfold createInternalClassString
    keeps [createClassMethodString_keeps, innerClassesG_keeps, internalSupersG_keeps, h1, h2]
end

theorem createImportsString_keeps (s0 : St) (env : Env) : KeepsAt s0 (createImportsString env) := by
  unfold createImportsString
  keeps []

/-! ### stubs created from `__init__` re-exports -/

theorem G_modify_ok {g : St → St} {s s' : St} {a : PUnit} (h : (modify g : G PUnit) s = .ok (a, s')) : s' = g s := by
  simp only [MonadState.modifyGet, MonadStateOf.modifyGet, StateT.modifyGet, Pure.pure, Except.pure, Except.ok.injEq,
    Prod.mk.injEq, _root_.modify] at h
  exact h.2.symm

theorem G_get_ok {s s' a : St} (h : (get : G St) s = .ok (a, s')) : a = s ∧ s' = s := by
  simp only [get, getThe, MonadStateOf.get, StateT.get, Pure.pure, Except.pure, Except.ok.injEq, Prod.mk.injEq] at h
  exact ⟨h.1.symm, h.2.symm⟩

theorem keeps_of_keepsAt {α : Type} {x : G α} (hx : ∀ s0, KeepsAt s0 x) {s s' : St} {a : α} (h : x s = .ok (a, s')) :
    s'.creatingReexport = s.creatingReexport ∧ s'.reexportModuleId = s.reexportModuleId :=
  (hx s).run s a s' ⟨rfl, rfl⟩ h

theorem createReexportElements_spec (env : Env) (moduleId : String) :
    ∀ (els : List Node) (st : St) (ds : List StubData) (st' : St), st.creatingReexport = true →
    createReexportElements env moduleId els st = .ok (ds, st') →
    ∀ d ∈ ds, ∃ el ∈ els, d.isPackageModule = true ∧ d.name = el.name ∧ d.dir = moduleId ++ "/" ++ el.name
      ∧ ∃ rest, d.text = packageHeader env (joinWith "." (dropLast' (splitSlash (moduleId ++ "/" ++ el.name)))) ++ rest
  | [], st, ds, st', _, h, d, hd => by
    unfold createReexportElements at h
    obtain ⟨h, _⟩ := G_pure_ok h
    rw [h] at hd
    simp at hd
  | el :: els, st, ds, st', hst, h, d, hd => by
    unfold createReexportElements at h
    have hh := G_bind_ok h; clear h; obtain ⟨_, s1, h1, h⟩ := hh
    have e1 := G_modify_ok h1
    have hh := G_bind_ok h; clear h; obtain ⟨_, s2, h2, h⟩ := hh
    unfold setModuleId at h2
    have e2 := G_modify_ok h2
    have hh := G_bind_ok h; clear h; obtain ⟨_, s3, h3, h⟩ := hh
    unfold logEmit at h3
    have e3 := G_modify_ok h3
    have hh := G_bind_ok h; clear h; obtain ⟨sa, s3', h4, h⟩ := hh
    rw [(G_get_ok h4).1, (G_get_ok h4).2] at h
    clear h4
    dsimp only at h
    have hh := G_bind_ok h; clear h; obtain ⟨body, s4, h5, h⟩ := hh
    have hh := G_bind_ok h; clear h; obtain ⟨imports, s5, h6, h⟩ := hh
    have hh := G_bind_ok h; clear h; obtain ⟨sb, s5', h7, h⟩ := hh
    rw [(G_get_ok h7).1, (G_get_ok h7).2] at h
    clear h7
    try dsimp only at h
    have hh := G_bind_ok h; clear h; obtain ⟨rest, s6, h8, h⟩ := hh
    obtain ⟨h, _⟩ := G_pure_ok h
    -- the frame
    have hs1 : s1.creatingReexport = true := by rw [e1]; exact hst
    have hs2 : s2.creatingReexport = true ∧ s2.reexportModuleId = moduleId ++ "/" ++ el.name := by
      rw [e2]; simp [hs1]
    have hs3 : s3.creatingReexport = true ∧ s3.reexportModuleId = moduleId ++ "/" ++ el.name := by
      rw [e3]; exact hs2
    have hbody : s4.creatingReexport = s3.creatingReexport ∧ s4.reexportModuleId = s3.reexportModuleId := by
      cases el with
      | cls c => exact keeps_of_keepsAt (fun s0 => createClassString_keeps s0 env _ c "" true) h5
      | fn f => exact keeps_of_keepsAt (fun s0 => createFunctionString_keeps s0 env f "" false true) h5
    have himp := keeps_of_keepsAt (fun s0 => createImportsString_keeps s0 env) h6
    have hs5 : s5.creatingReexport = true ∧ s5.reexportModuleId = moduleId ++ "/" ++ el.name :=
      ⟨himp.1.trans (hbody.1.trans hs3.1), himp.2.trans (hbody.2.trans hs3.2)⟩
    have hg3 : getModuleId s3 = moduleId ++ "/" ++ el.name := by simp [getModuleId, hs3.1, hs3.2]
    have hg5 : getModuleId s5 = moduleId ++ "/" ++ el.name := by simp [getModuleId, hs5.1, hs5.2]
    rw [h, List.mem_cons] at hd
    rcases hd with hd | hd
    · refine ⟨el, by simp, ?_⟩
      rw [hd]
      dsimp only
      refine ⟨rfl, rfl, hg5, imports ++ "\n" ++ body ++ "\n", ?_⟩
      rw [hg3]
      simp only [String.append_assoc]
    · obtain ⟨el', hel', hr⟩ := createReexportElements_spec env moduleId els s5 rest s6 hs5.1 h8 d hd
      exact ⟨el', List.mem_cons_of_mem _ hel', hr⟩

theorem splitOnChar_append_last (sep : Char) (b : List Char) (hb : sep ∉ b) :
    ∀ (a : List Char), splitOnChar sep (a ++ sep :: b) = splitOnChar sep a ++ [b]
  | [] => by
    rw [List.nil_append, splitOnChar_cons_sep, splitOnChar_of_not_mem sep b hb]
    rfl
  | c :: a => by
    have ih := splitOnChar_append_last sep b hb a
    by_cases hc : c = sep
    · subst hc
      rw [List.cons_append, splitOnChar_cons_sep, splitOnChar_cons_sep, ih]
      rfl
    · cases hs : splitOnChar sep a with
      | nil => exact absurd hs (splitOnChar_ne_nil sep a)
      | cons p ps =>
        rw [hs] at ih
        rw [List.cons_append, splitOnChar_cons_ne sep c _ p (ps ++ [b]) hc ih, splitOnChar_cons_ne sep c a p ps hc hs]
        rfl

theorem splitSlash_append_name (m name : String) (h : '/' ∉ name.toList) :
    splitSlash (m ++ "/" ++ name) = splitSlash m ++ [name] := by
  unfold splitSlash pySplit
  have : (m ++ "/" ++ name).toList = m.toList ++ '/' :: name.toList := by
    simp [String.toList_append]
  rw [this, splitOnChar_append_last '/' name.toList h, List.map_append]
  simp [String.ofList_toList]

theorem dropLast'_append_singleton {α : Type} (x : α) : ∀ (l : List α), dropLast' (l ++ [x]) = l
  | [] => rfl
  | [a] => rfl
  | a :: b :: l => by
    have := dropLast'_append_singleton x (b :: l)
    simp only [List.cons_append] at this ⊢
    simp only [dropLast']
    rw [this]

theorem pathParts_append_name (m name : String) (h : '/' ∉ name.toList) (h1 : name ≠ "") (h2 : name ≠ ".") :
    pathParts (m ++ "/" ++ name) = pathParts m ++ [name] := by
  unfold pathParts
  rw [splitSlash_append_name m name h, List.filter_append]
  congr 1
  simp [h1, h2]

theorem pathParts_eq_splitSlash (m : String) (h : ∀ s ∈ splitSlash m, s ≠ "" ∧ s ≠ ".") : pathParts m = splitSlash m := by
  unfold pathParts
  rw [List.filter_eq_self]
  intro s hs
  simpa using h s hs

theorem createReexportModules_spec (env : Env) :
    ∀ (rs : List (String × List Node)) (st : St) (ds : List StubData) (st' : St),
      createReexportModules env rs st = .ok (ds, st') →
      ∀ d ∈ ds, d.isPackageModule = true ∧ ∃ r ∈ rs, (∃ el ∈ r.2, d.name = el.name) ∧ d.dir = r.1 ++ "/" ++ d.name
        ∧ ∃ rest, d.text = packageHeader env (joinWith "." (dropLast' (splitSlash d.dir))) ++ rest
  | [], st, ds, st', h, d, hd => by
    unfold createReexportModules at h
    obtain ⟨h, _⟩ := G_pure_ok h
    rw [h] at hd
    simp at hd
  | (moduleId, elements) :: rs, st, ds, st', h, d, hd => by
    unfold createReexportModules at h
    have hh := G_bind_ok h; clear h; obtain ⟨_, s1, h1, h⟩ := hh
    have hh := G_bind_ok h; clear h; obtain ⟨_, s2, h2, h⟩ := hh
    have hh := G_bind_ok h; clear h; obtain ⟨_, s3, h3, h⟩ := hh
    have e3 := G_modify_ok h3
    try dsimp only at h
    have hh := G_bind_ok h; clear h; obtain ⟨ds1, s4, h4, h⟩ := hh
    have hh := G_bind_ok h; clear h; obtain ⟨more, s5, h5, h⟩ := hh
    obtain ⟨h, _⟩ := G_pure_ok h
    have hs3 : s3.creatingReexport = true := by rw [e3]
    rw [h, List.mem_append] at hd
    rcases hd with hd | hd
    · obtain ⟨el, hel, p1, p2, p3, rest, p4⟩ := createReexportElements_spec env moduleId _ s3 ds1 s4 hs3 h4 d hd
      rw [mem_sortBy] at hel
      rw [← p2] at p3 p4
      exact ⟨p1, (moduleId, elements), by simp, ⟨el, hel, p2⟩, p3, rest, by rw [p3]; exact p4⟩
    · obtain ⟨p1, r, hr, p2⟩ := createReexportModules_spec env rs s4 more s5 h5 d hd
      exact ⟨p1, r, List.mem_cons_of_mem _ hr, p2⟩

/-- what `generate_stub_data` returns: module stubs, then stubs for re-exported declarations -/
theorem generateStubData_spec (env : Env) (st : St) (ds : List StubData) (st' : St)
    (h : generateStubData env st = .ok (ds, st')) :
    ∀ d ∈ ds,
      (∃ m ∈ env.api.modules, d.isPackageModule = false ∧ d.dir = replaceChar (modulePackage env m) '.' "/"
        ∧ d.name = moduleStubName env m
        ∧ ∃ rest, d.text = moduleDoc m ++ packageHeader env (modulePackage env m) ++ rest)
      ∨ (d.isPackageModule = true ∧ ∃ moduleId, d.dir = moduleId ++ "/" ++ d.name
        ∧ ∃ rest, d.text = packageHeader env (joinWith "." (dropLast' (splitSlash d.dir))) ++ rest) := by
  unfold generateStubData at h
  have hh := G_bind_ok h; clear h; obtain ⟨a, s1, h1, h⟩ := hh
  have hh := G_bind_ok h; clear h; obtain ⟨b, s2, h2, h⟩ := hh
  obtain ⟨h, _⟩ := G_pure_ok h
  unfold createReexportModuleStrings at h2
  have hh := G_bind_ok h2; clear h2; obtain ⟨sg, s1', h3, h2⟩ := hh
  intro d hd
  rw [h, List.mem_append] at hd
  rcases hd with hd | hd
  · exact Or.inl (generateModules_spec env _ st a s1 h1 d hd)
  · obtain ⟨p1, r, _, _, p3, p4⟩ := createReexportModules_spec env _ s1' b s2 h2 d hd
    exact Or.inr ⟨p1, r.1, p3, p4⟩

/-! ### reading the header back -/

theorem append_cons_inj_of_not_mem {c : Char} : ∀ {a b r r' : List Char}, a ++ c :: r = b ++ c :: r' → c ∉ a → c ∉ b → a = b
  | [], [], _, _, _, _, _ => rfl
  | [], y :: b, _, _, h, _, hb => by
    simp only [List.nil_append, List.cons_append, List.cons.injEq] at h
    exact absurd (h.1 ▸ List.mem_cons_self) hb
  | x :: a, [], _, _, h, ha, _ => by
    simp only [List.nil_append, List.cons_append, List.cons.injEq] at h
    exact absurd (h.1 ▸ List.mem_cons_self) ha
  | x :: a, y :: b, _, _, h, ha, hb => by
    simp only [List.cons_append, List.cons.injEq] at h
    simp only [List.mem_cons, not_or] at ha hb
    rw [h.1, append_cons_inj_of_not_mem h.2 ha.2 hb.2]

/-! ### keyword escaping of dotted paths (`escapePath`) and reading it back -/

/-- joining the pieces of a split with the separator gives the text back (character lists) -/
theorem pf_joinL_splitOnChar (sep : Char) (cs : List Char) : joinL [sep] (splitOnChar sep cs) = cs := by
  rw [← flatMap_replace_eq_joinL sep sep cs]
  induction cs with
  | nil => rfl
  | cons c cs ih =>
    rw [List.flatMap_cons, ih]
    by_cases hc : c = sep <;> simp [hc]

/-- `sep.join(s.split(sep)) == s` -/
theorem pf_joinWith_pySplit (s : String) (sep : Char) (sepS : String) (hs : sepS.toList = [sep]) :
    joinWith sepS (pySplit s sep) = s := by
  rw [← String.toList_inj, toList_joinWith, hs]
  unfold pySplit
  rw [List.map_map]
  have : (String.toList ∘ String.ofList) = (id : List Char → List Char) := by
    funext x; simp [String.toList_ofList]
  rw [this, List.map_id, pf_joinL_splitOnChar]

theorem pf_mem_joinL (sep : List Char) (x : Char) : ∀ (parts : List (List Char)), x ∈ joinL sep parts →
    x ∈ sep ∨ ∃ q ∈ parts, x ∈ q
  | [], h => by simp [joinL] at h
  | [a], h => Or.inr ⟨a, by simp, h⟩
  | a :: b :: l, h => by
    have e : joinL sep (a :: b :: l) = a ++ sep ++ joinL sep (b :: l) := rfl
    rw [e, List.mem_append, List.mem_append] at h
    rcases h with (h | h) | h
    · exact Or.inr ⟨a, by simp, h⟩
    · exact Or.inl h
    · rcases pf_mem_joinL sep x (b :: l) h with h' | ⟨q, hq, hx⟩
      · exact Or.inl h'
      · exact Or.inr ⟨q, List.mem_cons_of_mem _ hq, hx⟩

/-- a keyword is wrapped in back-quotes, any other name is left alone -/
theorem pf_escapeKeyword_toList (s : String) :
    (s ∉ Generated.keywords ∧ escapeKeyword s = s)
    ∨ (s ∈ Generated.keywords ∧ (escapeKeyword s).toList = '`' :: (s.toList ++ ['`'])) := by
  unfold escapeKeyword
  by_cases h : Generated.keywords.contains s = true
  · right
    rw [if_pos h]
    refine ⟨List.contains_iff_mem.1 h, ?_⟩
    have e : Generated.keywordWrap.1.toList = ['`'] ∧ Generated.keywordWrap.2.toList = ['`'] := by decide
    rw [String.toList_append, String.toList_append, e.1, e.2]
    rfl
  · left
    rw [if_neg h]
    exact ⟨fun hm => h (List.contains_iff_mem.2 hm), rfl⟩

theorem pf_escapeKeyword_of_not_keyword (s : String) (h : s ∉ Generated.keywords) : escapeKeyword s = s := by
  rcases pf_escapeKeyword_toList s with ⟨_, e⟩ | ⟨hm, _⟩
  · exact e
  · exact absurd hm h

/-- the characters of an escaped name: those of the name, and the back-quote -/
theorem pf_mem_escapeKeyword (s : String) (x : Char) (hx : x ∈ (escapeKeyword s).toList) : x ∈ s.toList ∨ x = '`' := by
  rcases pf_escapeKeyword_toList s with ⟨_, e⟩ | ⟨_, e⟩
  · rw [e] at hx; exact Or.inl hx
  · rw [e] at hx
    simp only [List.mem_cons, List.mem_append, List.not_mem_nil, or_false] at hx
    rcases hx with h | h | h
    · exact Or.inr h
    · exact Or.inl h
    · exact Or.inr h

/-- the dot-segments of an escaped path are the escaped dot-segments of the path -/
theorem pf_splitDot_escapePath (p : String) : splitDot (escapePath p) = (splitDot p).map escapeKeyword := by
  unfold escapePath splitDot
  apply pySplit_joinWith '.' "." (by decide) _ (by simpa using pySplit_ne_nil '.' p)
  intro q hq hx
  rw [List.mem_map] at hq
  obtain ⟨s, hs, rfl⟩ := hq
  rcases pf_mem_escapeKeyword s '.' hx with h | h
  · exact sep_not_mem_pySplit '.' p s hs h
  · exact absurd h (by decide)

/-- the characters of an escaped path: those of the path, the back-quote (and the dot) -/
theorem pf_mem_escapePath (p : String) (x : Char) (hx : x ∈ (escapePath p).toList) :
    x ∈ p.toList ∨ x = '`' ∨ x = '.' := by
  unfold escapePath at hx
  rw [toList_joinWith] at hx
  rcases pf_mem_joinL _ x _ hx with h | ⟨q, hq, hxq⟩
  · right; right
    have e : (".":String).toList = ['.'] := by decide
    rw [e] at h
    simpa using h
  · rw [List.map_map, List.mem_map] at hq
    obtain ⟨s, hs, rfl⟩ := hq
    rcases pf_mem_escapeKeyword s x hxq with h | h
    · exact Or.inl (mem_of_mem_pySplit '.' p s hs x h)
    · exact Or.inr (Or.inl h)

/-- a path none of whose dot-segments is a keyword is written verbatim -/
theorem pf_escapePath_eq_self (p : String) (h : ∀ s ∈ splitDot p, s ∉ Generated.keywords) : escapePath p = p := by
  unfold escapePath
  have : (pySplit p '.').map escapeKeyword = pySplit p '.' := by
    conv => rhs; rw [← List.map_id (pySplit p '.')]
    apply List.map_congr_left
    intro s hs
    exact pf_escapeKeyword_of_not_keyword s (h s hs)
  rw [this, pf_joinWith_pySplit p '.' "." (by decide)]

/-- remove the back-quotes of one segment (what the Safe-DS lexer does with `` `id` ``) -/
def pf_unescapeSegment (s : String) : String := String.ofList (s.toList.filter (· != '`'))

/-- read a (possibly escaped) package path back: strip the back-quotes of every dot-segment -/
def pf_unescapePath (p : String) : String := joinWith "." ((splitDot p).map pf_unescapeSegment)

theorem pf_unescapeSegment_of_no_backquote (s : String) (h : '`' ∉ s.toList) : pf_unescapeSegment s = s := by
  unfold pf_unescapeSegment
  rw [← String.toList_inj, String.toList_ofList, List.filter_eq_self]
  intro x hx
  have : x ≠ '`' := fun e => h (e ▸ hx)
  simpa using this

theorem pf_unescapeSegment_escapeKeyword (s : String) (h : '`' ∉ s.toList) : pf_unescapeSegment (escapeKeyword s) = s := by
  rcases pf_escapeKeyword_toList s with ⟨_, e⟩ | ⟨_, e⟩
  · rw [e]; exact pf_unescapeSegment_of_no_backquote s h
  · unfold pf_unescapeSegment
    rw [e, ← String.toList_inj, String.toList_ofList]
    have hf : s.toList.filter (· != '`') = s.toList := by
      rw [List.filter_eq_self]
      intro x hx
      have : x ≠ '`' := fun e => h (e ▸ hx)
      simpa using this
    simp [List.filter_append, hf]

/-- the package path is recoverable from its escaped form -/
theorem pf_unescapePath_escapePath (p : String) (h : '`' ∉ p.toList) : pf_unescapePath (escapePath p) = p := by
  unfold pf_unescapePath
  rw [pf_splitDot_escapePath, List.map_map]
  have : (splitDot p).map (pf_unescapeSegment ∘ escapeKeyword) = splitDot p := by
    conv => rhs; rw [← List.map_id (splitDot p)]
    apply List.map_congr_left
    intro s hs
    exact pf_unescapeSegment_escapeKeyword s (fun hx => h (mem_of_mem_pySplit '.' p s hs '`' hx))
  rw [this]
  exact pf_joinWith_pySplit p '.' "." (by decide)

theorem pf_escapePath_inj (p₁ p₂ : String) (h1 : '`' ∉ p₁.toList) (h2 : '`' ∉ p₂.toList)
    (h : escapePath p₁ = escapePath p₂) : p₁ = p₂ := by
  rw [← pf_unescapePath_escapePath p₁ h1, ← pf_unescapePath_escapePath p₂ h2, h]


/-- the announced Python module path can be read back from a stub text: two texts that start with the headers
    of `p₁` and `p₂` announce the same path -/
theorem packageHeader_inj (env : Env) (p₁ p₂ rest₁ rest₂ : String)
    (h1 : '"' ∉ p₁.toList ∧ '\n' ∉ p₁.toList) (h2 : '"' ∉ p₂.toList ∧ '\n' ∉ p₂.toList)
    (hb1 : '`' ∉ p₁.toList) (hb2 : '`' ∉ p₂.toList)
    (h : packageHeader env p₁ ++ rest₁ = packageHeader env p₂ ++ rest₂) : p₁ = p₂ := by
  have h := congrArg String.toList h
  unfold packageHeader at h
  rw [← String.toList_inj]
  by_cases c1 : p₁ = convertPath p₁ env.safe <;> by_cases c2 : p₂ = convertPath p₂ env.safe
  · simp only [bne_iff_ne, ne_eq, ← c1, ← c2, not_true_eq_false, if_false, String.toList_append] at h
    have e : ("" : String).toList = [] ∧ "package ".toList = ['p','a','c','k','a','g','e',' '] ∧ "\n".toList = ['\n'] := by
      decide
    rw [e.1, e.2.1, e.2.2] at h
    simp only [List.nil_append, List.cons_append, List.cons.injEq, true_and, List.append_assoc] at h
    have hn : ∀ p : String, '\n' ∉ p.toList → '\n' ∉ (escapePath p).toList := by
      intro p hp hx
      rcases pf_mem_escapePath p '\n' hx with h' | h' | h'
      · exact hp h'
      · exact absurd h' (by decide)
      · exact absurd h' (by decide)
    have he := append_cons_inj_of_not_mem h (hn p₁ h1.2) (hn p₂ h2.2)
    rw [String.toList_inj] at he ⊢
    exact pf_escapePath_inj p₁ p₂ hb1 hb2 he
  · simp only [bne_iff_ne, ne_eq, ← c1, c2, not_true_eq_false, not_false_eq_true, if_false, if_true,
      String.toList_append] at h
    have e : ("" : String).toList = [] ∧ "package ".toList = ['p','a','c','k','a','g','e',' ']
        ∧ "@PythonModule(\"".toList = ['@','P','y','t','h','o','n','M','o','d','u','l','e','(','"'] := by decide
    rw [e.1, e.2.1, e.2.2] at h
    simp at h
  · simp only [bne_iff_ne, ne_eq, c1, ← c2, not_true_eq_false, not_false_eq_true, if_false, if_true,
      String.toList_append] at h
    have e : ("" : String).toList = [] ∧ "package ".toList = ['p','a','c','k','a','g','e',' ']
        ∧ "@PythonModule(\"".toList = ['@','P','y','t','h','o','n','M','o','d','u','l','e','(','"'] := by decide
    rw [e.1, e.2.1, e.2.2] at h
    simp at h
  · simp only [bne_iff_ne, ne_eq, c1, c2, not_false_eq_true, if_true, String.toList_append] at h
    have e : "@PythonModule(\"".toList = ['@','P','y','t','h','o','n','M','o','d','u','l','e','(','"']
        ∧ "\")\n".toList = ['"', ')', '\n'] := by decide
    rw [e.1, e.2] at h
    simp only [List.cons_append, List.cons.injEq, true_and, List.append_assoc, List.nil_append] at h
    exact append_cons_inj_of_not_mem h h1.1 h2.1

end StubGen
