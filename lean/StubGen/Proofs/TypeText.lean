/-
Helper lemmas for `StubGen.Theorems.C05`: a small partial-correctness / totality calculus for the
generator monad `G`, the string-level union normalisation (`finishUnion` = `Spec.unionText`), and
the mutual inductions over `AType` relating `typeStr` to `Spec.typeText`.

After the model followed the generator fixes (keyword escaping of class names, import of generic
classes, literal dedupe): `typeStr` renders exactly `tt_typeText` (`tt_typeStr_gpost`, unconditional);
`tt_typeText = Spec.typeText` on `tt_litOk` types (`tt_typeText_eq`); `typeStr_gpost` (against
`Spec.typeText`) therefore carries the hypothesis `tt_litOk`; totality (`typeStr_tot`) carries the
hypothesis `tt_seqImportable` (no generic class with arguments and an empty qualified name).
New names are prefixed `tt_`.
-/
import StubGen.Model.Gen
import StubGen.Spec.TypeSpec
import Mathlib.Data.List.Sort
import Mathlib.Data.String.Basic
import Mathlib.Data.List.Perm.Basic

namespace StubGen

open List

/-! ### partial correctness and totality in `G` -/

/-- every successful run of `m` from `st` satisfies `P` -/
def Post {α : Type} (m : G α) (st : St) (P : α → St → Prop) : Prop :=
  ∀ a st', m st = .ok (a, st') → P a st'

/-- `m` does not raise from `st` -/
def Tot {α : Type} (m : G α) (st : St) : Prop := ∃ a st', m st = .ok (a, st')

section Calculus
variable {α β : Type}

theorem Post.bind {m : G α} {f : α → G β} {st : St} {Q : α → St → Prop} {P : β → St → Prop}
    (h1 : Post m st Q) (h2 : ∀ a st1, Q a st1 → Post (f a) st1 P) : Post (m >>= f) st P := by
  intro b st' h
  change (m st >>= fun p => f p.1 p.2) = _ at h
  cases hm : m st with
  | error e => rw [hm] at h; cases h
  | ok p =>
    obtain ⟨a, st1⟩ := p
    rw [hm] at h
    exact h2 a st1 (h1 a st1 hm) b st' h

theorem Post.pure {a : α} {st : St} {P : α → St → Prop} (h : P a st) : Post (pure a) st P := by
  intro b st' h'
  change Except.ok (a, st) = _ at h'
  cases h'
  exact h

theorem Post.throw {e : PyErr} {st : St} {P : α → St → Prop} : Post (throwG e) st P := by
  intro b st' h'
  simp [throwG] at h'

theorem Post.get {st : St} {P : St → St → Prop} (h : P st st) : Post (get : G St) st P := by
  intro b st' h'
  change Except.ok (st, st) = _ at h'
  cases h'
  exact h

theorem Post.modify {f : St → St} {st : St} {P : Unit → St → Prop} (h : P () (f st)) :
    Post (modify f : G Unit) st P := by
  intro b st' h'
  change Except.ok ((), f st) = _ at h'
  cases h'
  exact h

theorem Post.set {s st : St} {P : Unit → St → Prop} (h : P () s) :
    Post (set s : G Unit) st P := by
  intro b st' h'
  change Except.ok ((), s) = _ at h'
  cases h'
  exact h

theorem Post.mono {m : G α} {st : St} {P Q : α → St → Prop} (h : Post m st P)
    (hpq : ∀ a st', P a st' → Q a st') : Post m st Q :=
  fun a st' e => hpq a st' (h a st' e)

theorem Tot.bind {m : G α} {f : α → G β} {st : St} {Q : α → St → Prop}
    (h1 : Tot m st) (hq : Post m st Q) (h2 : ∀ a st1, Q a st1 → Tot (f a) st1) : Tot (m >>= f) st := by
  obtain ⟨a, st1, hm⟩ := h1
  obtain ⟨b, st', hf⟩ := h2 a st1 (hq a st1 hm)
  refine ⟨b, st', ?_⟩
  change (m st >>= fun p => f p.1 p.2) = _
  rw [hm]
  exact hf

theorem Post.true {m : G α} {st : St} : Post m st (fun _ _ => True) := fun _ _ _ => trivial

theorem Tot.bind' {m : G α} {f : α → G β} {st : St}
    (h1 : Tot m st) (h2 : ∀ a st1, Tot (f a) st1) : Tot (m >>= f) st :=
  Tot.bind h1 Post.true (fun a st1 _ => h2 a st1)

theorem Tot.pure {a : α} {st : St} : Tot (pure a : G α) st := ⟨a, st, rfl⟩

theorem Tot.get {st : St} : Tot (get : G St) st := ⟨st, st, rfl⟩

theorem Tot.modify {f : St → St} {st : St} : Tot (modify f : G Unit) st := ⟨(), f st, rfl⟩

theorem Tot.set {s st : St} : Tot (set s : G Unit) st := ⟨(), s, rfl⟩

end Calculus

/-! ### the part of the state a type rendering may touch -/

/-- `b` is `a` with possibly more TODO keys, imports and outside-package classes; nothing else differs -/
structure St.Grows (a b : St) : Prop where
  todos : a.todos ⊆ b.todos
  imports : a.imports ⊆ b.imports
  outside : a.outside ⊆ b.outside
  log : b.log = a.log
  reexports : b.reexports = a.reexports
  classGenerics : b.classGenerics = a.classGenerics
  moduleId : b.moduleId = a.moduleId
  reexportModuleId : b.reexportModuleId = a.reexportModuleId
  creatingReexport : b.creatingReexport = a.creatingReexport

theorem St.Grows.refl (a : St) : St.Grows a a :=
  ⟨fun _ h => h, fun _ h => h, fun _ h => h, rfl, rfl, rfl, rfl, rfl, rfl⟩

theorem St.Grows.trans {a b c : St} (h : St.Grows a b) (h' : St.Grows b c) : St.Grows a c :=
  ⟨fun _ x => h'.todos (h.todos x), fun _ x => h'.imports (h.imports x),
   fun _ x => h'.outside (h.outside x), h'.log.trans h.log, h'.reexports.trans h.reexports,
   h'.classGenerics.trans h.classGenerics, h'.moduleId.trans h.moduleId,
   h'.reexportModuleId.trans h.reexportModuleId, h'.creatingReexport.trans h.creatingReexport⟩

theorem subset_insertSet (a : String) (l : List String) : l ⊆ insertSet a l := by
  unfold insertSet
  split
  · exact fun _ h => h
  · exact List.subset_append_left _ _

theorem addTodo_post (k : String) (st : St) : Post (addTodo k) st (fun _ st' => St.Grows st st') :=
  Post.modify ⟨subset_insertSet _ _, fun _ h => h, fun _ h => h, rfl, rfl, rfl, rfl, rfl, rfl⟩

theorem addTodo_tot (k : String) (st : St) : Tot (addTodo k) st := Tot.modify

theorem grows_ite_outside (s : St) (c : Prop) [Decidable c] (q : String) :
    St.Grows s (if c then { s with outside := insertSet q s.outside } else s) := by
  split
  · exact ⟨fun _ h => h, fun _ h => h, subset_insertSet _ _, rfl, rfl, rfl, rfl, rfl, rfl⟩
  · exact St.Grows.refl _

theorem grows_ite_imports (s : St) (c : Prop) [Decidable c] (q : String) :
    St.Grows s (if c then { s with imports := insertSet q s.imports } else s) := by
  split
  · exact ⟨fun _ h => h, subset_insertSet _ _, fun _ h => h, rfl, rfl, rfl, rfl, rfl, rfl⟩
  · exact St.Grows.refl _

theorem addToImports_post (env : Env) (q : String) (st : St) :
    Post (addToImports env q) st (fun _ st' => St.Grows st st') := by
  unfold addToImports
  extract_lets parts path found jp
  have hjp : ∀ r st, Post (jp r) st (fun _ st' => St.Grows st st') := by
    intro r st
    simp only [jp]
    split
    · exact Post.pure (St.Grows.refl _)
    · split
      · exact Post.pure (St.Grows.refl _)
      · refine Post.bind (Post.get (P := fun s st1 => s = st ∧ st1 = st) ⟨rfl, rfl⟩) ?_
        rintro _ _ ⟨rfl, rfl⟩
        split
        · exact Post.set ((grows_ite_outside _ _ _).trans (grows_ite_imports _ _ _))
        · exact Post.pure (St.Grows.refl _)
  split
  · exact Post.bind (Q := fun _ _ => False) Post.throw (fun _ _ h => h.elim)
  · exact hjp () _

theorem addToImports_tot (env : Env) (q : String) (st : St) (hq : q ≠ "") :
    Tot (addToImports env q) st := by
  unfold addToImports
  extract_lets parts path found jp
  rw [if_neg (by simpa using hq)]
  simp only [jp]
  split
  · exact Tot.pure
  · split
    · exact Tot.pure
    · refine Tot.bind' Tot.get ?_
      intro s st1
      split
      · exact Tot.set
      · exact Tot.pure

/-! ### the model's helper predicates are the specification's -/

theorem builtinName_eq (n : String) : builtinName n = Spec.builtin n := by
  simp only [builtinName, Generated.builtinTypeNames, assocGet?, Spec.builtin, beq_iff_eq]
  repeat' split
  all_goals first | rfl | simp_all

theorem Lit.render_eq (l : Lit) : Lit.render l = Spec.litText l := by
  cases l with
  | bool b => cases b <;> rfl
  | _ => rfl

theorem Lit.render_eq' : Lit.render = Spec.litText := funext Lit.render_eq

theorem isLiteral_eq : isLiteral = Spec.isLit := by funext t; cases t <;> rfl
theorem literalsOf_eq : literalsOf = Spec.litsOf := by funext t; cases t <;> rfl
theorem isNoneNamed_eq : isNoneNamed = Spec.isNoneType := by funext t; cases t <;> rfl
theorem countsAsNamed_eq : countsAsNamed = Spec.nullableKind := by funext t; cases t <;> rfl
theorem namedNone_eq : namedNone = Spec.isNamedNone := by funext t; cases t <;> rfl
theorem dedupStrings_eq : dedupStrings = Spec.dedup := rfl

/-! ### sorting and deduplication -/

theorem insertBy_perm {α : Type} (le : α → α → Bool) (a : α) (l : List α) : insertBy le a l ~ a :: l := by
  induction l with
  | nil => exact Perm.refl _
  | cons b bs ih =>
    unfold insertBy
    split
    · exact Perm.refl _
    · exact (ih.cons b).trans (Perm.swap a b bs)

theorem sortBy_perm {α : Type} (le : α → α → Bool) (l : List α) : sortBy le l ~ l := by
  induction l with
  | nil => exact Perm.refl _
  | cons a as ih => exact (insertBy_perm le a _).trans (ih.cons a)

theorem sortStrings_perm (l : List String) : sortStrings l ~ l := sortBy_perm _ l

theorem dedup_foldl_nodup (l acc : List String) (h : acc.Nodup) :
    (l.foldl (fun acc a => if acc.contains a then acc else acc ++ [a]) acc).Nodup := by
  induction l generalizing acc with
  | nil => exact h
  | cons a as ih =>
    simp only [List.foldl_cons]
    apply ih
    split
    · exact h
    · rename_i hc
      simp only [List.contains_iff_mem] at hc
      exact List.nodup_append.2 ⟨h, List.nodup_singleton a, by
        intro x hx y hy; simp only [List.mem_singleton] at hy; subst hy; rintro rfl; exact hc hx⟩

theorem dedup_foldl_mem (l acc : List String) (x : String) :
    x ∈ l.foldl (fun acc a => if acc.contains a then acc else acc ++ [a]) acc ↔ x ∈ acc ∨ x ∈ l := by
  induction l generalizing acc with
  | nil => simp
  | cons a as ih =>
    simp only [List.foldl_cons, ih, List.mem_cons]
    split
    · rename_i hc
      simp only [List.contains_iff_mem] at hc
      constructor
      · rintro (h | h)
        · exact Or.inl h
        · exact Or.inr (Or.inr h)
      · rintro (h | rfl | h)
        · exact Or.inl h
        · exact Or.inl hc
        · exact Or.inr h
    · simp only [List.mem_append, List.mem_singleton]
      tauto

theorem dedup_nodup (l : List String) : (Spec.dedup l).Nodup := dedup_foldl_nodup l [] List.nodup_nil

theorem mem_dedup (l : List String) (x : String) : x ∈ Spec.dedup l ↔ x ∈ l := by
  unfold Spec.dedup
  rw [dedup_foldl_mem]
  simp

theorem sorted_dedup_nodup (l : List String) : (sortStrings (Spec.dedup l)).Nodup :=
  (sortStrings_perm _).nodup_iff.2 (dedup_nodup l)

theorem mem_sorted_dedup (l : List String) (x : String) : x ∈ sortStrings (Spec.dedup l) ↔ x ∈ l :=
  ((sortStrings_perm _).mem_iff).trans (mem_dedup l x)

/-- a duplicate-free list that ends in `x` is "everything but `x`, then `x`" -/
theorem filter_ne_append_of_last {x : String} :
    ∀ (l : List String), l.Nodup → x ∈ l → lastD "" l = x → l.filter (· != x) ++ [x] = l
  | [], _, h, _ => by simp at h
  | [a], _, _, h3 => by
    simp only [lastD] at h3
    subst h3
    simp
  | a :: b :: rest, h1, h2, h3 => by
    simp only [lastD] at h3
    rw [List.nodup_cons] at h1
    have hb : x ∈ b :: rest := by
      rcases List.mem_cons.1 h2 with rfl | h
      · exact absurd (h3 ▸ lastD_mem b rest) h1.1
      · exact h
    have hax : a ≠ x := by rintro rfl; exact h1.1 hb
    have ih := filter_ne_append_of_last (b :: rest) h1.2 hb h3
    rw [List.filter_cons_of_pos (by simpa using hax), List.cons_append, ih]
where
  lastD_mem (b : String) (rest : List String) : lastD "" (b :: rest) ∈ b :: rest := by
    induction rest generalizing b with
    | nil => simp [lastD]
    | cons c cs ih => simp only [lastD]; exact List.mem_cons_of_mem _ (ih c)

theorem noneLast_eq (ms : List String) (hnd : ms.Nodup) (n : String) :
    (if (ms.contains n && lastD "" ms != n) = true then ms.filter (· != n) ++ [n] else ms)
      = (if ms.contains n = true then ms.filter (· != n) ++ [n] else ms) := by
  by_cases hc : ms.contains n = true
  · by_cases hl : lastD "" ms = n
    · have := filter_ne_append_of_last ms hnd (by simpa using hc) hl
      rw [if_pos hc, this]
      simp [hl]
    · rw [if_pos hc, if_pos (by rw [hc]; simpa using hl)]
  · rw [if_neg hc, if_neg (by rw [Bool.not_eq_true] at hc; rw [hc]; simp)]

theorem finishUnion_eq (r : List String) (b : Bool) : finishUnion r b = Spec.unionText r b := by
  unfold finishUnion Spec.unionText
  rw [dedupStrings_eq]
  have hnd := sorted_dedup_nodup r
  generalize sortStrings (Spec.dedup r) = ms at hnd
  have hN : noneTypeName = "Nothing?" := rfl
  match ms, hnd with
  | [], _ => rfl
  | [m], _ => rfl
  | [x, y], hnd =>
    dsimp only
    rw [noneLast_eq _ hnd]
    simp only [hN]
    by_cases hb : b = true
    · by_cases hx : x = "Nothing?"
      · subst hx
        by_cases hy : y = "Nothing?"
        · subst hy; simp [hb]
        · simp [hb, hy]
      · by_cases hy : y = "Nothing?"
        · subst hy; simp [hb, hx]
        · simp [hb, hx, hy, Ne.symm hx, Ne.symm hy]
    · simp [hb]
  | x :: y :: z :: rest, hnd =>
    dsimp only
    rw [noneLast_eq _ hnd]
    simp [hN]

/-! ### union normalisation (`Spec.unionText`) -/

theorem strLe_iff (a b : String) : strLe a b = true ↔ a ≤ b := by
  unfold strLe
  rw [Bool.not_eq_true', decide_eq_false_iff_not]
  exact not_lt

theorem insertBy_strLe_pairwise (a : String) (l : List String) (h : l.Pairwise (· ≤ ·)) :
    (insertBy strLe a l).Pairwise (· ≤ ·) := by
  induction l with
  | nil => simp [insertBy]
  | cons b bs ih =>
    rw [List.pairwise_cons] at h
    unfold insertBy
    split
    · rename_i hab
      rw [strLe_iff] at hab
      refine List.pairwise_cons.2 ⟨?_, List.pairwise_cons.2 h⟩
      intro x hx
      rcases List.mem_cons.1 hx with rfl | hx
      · exact hab
      · exact le_trans hab (h.1 x hx)
    · rename_i hab
      rw [strLe_iff, not_le] at hab
      refine List.pairwise_cons.2 ⟨?_, ih h.2⟩
      intro x hx
      rcases List.mem_cons.1 ((insertBy_perm strLe a bs).mem_iff.1 hx) with rfl | hx
      · exact le_of_lt hab
      · exact h.1 x hx

theorem sortStrings_pairwise_le (l : List String) : (sortStrings l).Pairwise (· ≤ ·) := by
  induction l with
  | nil => simp [sortStrings, sortBy]
  | cons a as ih => exact insertBy_strLe_pairwise a _ ih

theorem sorted_dedup_pairwise_lt (l : List String) : (sortStrings (Spec.dedup l)).Pairwise (· < ·) :=
  ((sortStrings_pairwise_le _).and (sorted_dedup_nodup l)).imp (fun h => lt_of_le_of_ne h.1 h.2)

/-- the sorted duplicate-free member list depends on the *set* of members only -/
theorem sorted_dedup_congr {l l' : List String} (h : ∀ a, a ∈ l ↔ a ∈ l') :
    sortStrings (Spec.dedup l) = sortStrings (Spec.dedup l') :=
  (sorted_dedup_pairwise_lt l).eq_of_mem_iff (sorted_dedup_pairwise_lt l')
    (fun a => by rw [mem_sorted_dedup, mem_sorted_dedup, h])

theorem unionText_congr {l l' : List String} (h : ∀ a, a ∈ l ↔ a ∈ l') (b : Bool) :
    Spec.unionText l b = Spec.unionText l' b := by
  unfold Spec.unionText
  rw [sorted_dedup_congr h]

/-- the member list printed inside `union<…>`: duplicate-free, sorted, `Nothing?` moved to the end -/
def unionMembers (members : List String) : List String :=
  let ms := sortStrings (Spec.dedup members)
  if ms.contains "Nothing?" then ms.filter (· != "Nothing?") ++ ["Nothing?"] else ms

theorem filter_ne_append_perm {x : String} :
    ∀ (l : List String), l.Nodup → x ∈ l → l.filter (· != x) ++ [x] ~ l
  | [], _, h => by simp at h
  | a :: l, h1, h2 => by
    rw [List.nodup_cons] at h1
    by_cases hax : a = x
    · subst hax
      have : l.filter (· != a) = l := by
        rw [List.filter_eq_self]
        intro y hy
        have : y ≠ a := by rintro rfl; exact h1.1 hy
        simpa using this
      rw [List.filter_cons_of_neg (by simp), this]
      exact List.perm_append_comm
    · have hx : x ∈ l := by
        rcases List.mem_cons.1 h2 with rfl | h
        · exact absurd rfl hax
        · exact h
      rw [List.filter_cons_of_pos (by simpa using hax), List.cons_append]
      exact (filter_ne_append_perm l h1.2 hx).cons a

theorem unionMembers_perm (members : List String) :
    unionMembers members ~ sortStrings (Spec.dedup members) := by
  unfold unionMembers
  dsimp only
  split
  · rename_i h
    exact filter_ne_append_perm _ (sorted_dedup_nodup _) (by simpa using h)
  · exact Perm.refl _

theorem unionMembers_nodup (members : List String) : (unionMembers members).Nodup :=
  (unionMembers_perm members).nodup_iff.2 (sorted_dedup_nodup members)

theorem mem_unionMembers (members : List String) (m : String) : m ∈ unionMembers members ↔ m ∈ members :=
  ((unionMembers_perm members).mem_iff).trans (mem_sorted_dedup members m)

theorem unionMembers_none_last (members : List String) (h : "Nothing?" ∈ members) :
    ∃ init, unionMembers members = init ++ ["Nothing?"] ∧ "Nothing?" ∉ init := by
  refine ⟨(sortStrings (Spec.dedup members)).filter (· != "Nothing?"), ?_, ?_⟩
  · unfold unionMembers
    dsimp only
    rw [if_pos (by simpa using (mem_sorted_dedup members _).2 h)]
  · simp

theorem unionMembers_congr {l l' : List String} (h : ∀ a, a ∈ l ↔ a ∈ l') :
    unionMembers l = unionMembers l' := by
  unfold unionMembers
  rw [sorted_dedup_congr h]

/-- complete case analysis of `Spec.unionText` in terms of the *set* of members -/
theorem unionText_cases (members : List String) (b : Bool) :
    (members = [] ∧ Spec.unionText members b = "") ∨
    (∃ m, members ≠ [] ∧ (∀ x ∈ members, x = m) ∧ Spec.unionText members b = m) ∨
    (∃ x, x ≠ "Nothing?" ∧ (∀ m, m ∈ members ↔ m = x ∨ m = "Nothing?") ∧ b = true ∧
      Spec.unionText members b = x ++ "?") ∨
    (2 ≤ (unionMembers members).length ∧
      ¬ (∃ x, x ≠ "Nothing?" ∧ (∀ m, m ∈ members ↔ m = x ∨ m = "Nothing?") ∧ b = true) ∧
      Spec.unionText members b = "union<" ++ joinWith ", " (unionMembers members) ++ ">") := by
  have hnd := sorted_dedup_nodup members
  have hmem := mem_sorted_dedup members
  have hlen := (unionMembers_perm members).length_eq
  have hU : unionMembers members =
      if (sortStrings (Spec.dedup members)).contains "Nothing?" then
        (sortStrings (Spec.dedup members)).filter (· != "Nothing?") ++ ["Nothing?"]
      else sortStrings (Spec.dedup members) := rfl
  unfold Spec.unionText
  generalize sortStrings (Spec.dedup members) = ms at *
  match ms, hnd, hmem with
  | [], _, hmem =>
    left
    refine ⟨List.eq_nil_iff_forall_not_mem.2 (fun a ha => ?_), rfl⟩
    simpa using (hmem a).2 ha
  | [m], _, hmem =>
    right; left
    refine ⟨m, ?_, fun x hx => by simpa using (hmem x).2 hx, rfl⟩
    intro h
    have := (hmem m).1 (by simp)
    simp [h] at this
  | [x, y], hnd, hmem =>
    have hxy : x ≠ y := by simpa using hnd
    dsimp only
    by_cases hc : (([x, y].length == 2 && [x, y].contains "Nothing?" && b) = true)
    · right; right; left
      rw [if_pos hc]
      simp only [List.length_cons, List.length_nil, Nat.reduceAdd, beq_self_eq_true, Bool.true_and,
        Bool.and_eq_true, List.contains_iff_mem, List.mem_cons, List.not_mem_nil, or_false] at hc
      obtain ⟨hN, hb⟩ := hc
      rcases hN with rfl | rfl
      · refine ⟨y, Ne.symm hxy, fun m => ?_, hb, ?_⟩
        · rw [← hmem m]; simp [or_comm]
        · simp [Ne.symm hxy]
      · refine ⟨x, hxy, fun m => ?_, hb, ?_⟩
        · rw [← hmem m]; simp
        · simp [hxy]
    · right; right; right
      rw [if_neg hc]
      refine ⟨by rw [hlen]; simp, ?_, by rw [hU]⟩
      rintro ⟨z, _, hz, hb⟩
      apply hc
      have : "Nothing?" ∈ [x, y] := (hmem _).2 ((hz _).2 (Or.inr rfl))
      simp only [List.length_cons, List.length_nil, Nat.reduceAdd, beq_self_eq_true, Bool.true_and,
        Bool.and_eq_true, List.contains_iff_mem]
      exact ⟨this, hb⟩
  | x :: y :: z :: rest, hnd, hmem =>
    right; right; right
    dsimp only
    have h3 : ((x :: y :: z :: rest).length == 2) = false := by simp
    rw [h3]
    simp only [Bool.false_and, Bool.false_eq_true, if_false]
    refine ⟨by rw [hlen]; simp, ?_, by rw [hU]⟩
    rintro ⟨w, _, hw, _⟩
    have hx := (hw x).1 ((hmem x).1 (by simp))
    have hy := (hw y).1 ((hmem y).1 (by simp))
    have hz := (hw z).1 ((hmem z).1 (by simp))
    simp only [List.nodup_cons, List.mem_cons, not_or] at hnd
    obtain ⟨⟨hxy, hxz, _⟩, ⟨hyz, _⟩, _⟩ := hnd
    rcases hx with rfl | rfl <;> rcases hy with rfl | rfl <;> rcases hz with rfl | rfl <;>
      first | exact hxy rfl | exact hxz rfl | exact hyz rfl

theorem unionText_singleton (m : String) (b : Bool) : Spec.unionText [m] b = m := by
  simp [Spec.unionText, Spec.dedup, sortStrings, sortBy, insertBy]

theorem unionText_single (members : List String) (m : String) (b : Bool) (hne : members ≠ [])
    (h : ∀ x ∈ members, x = m) : Spec.unionText members b = m := by
  rw [unionText_congr (l' := [m]) (fun a => ?_) b, unionText_singleton]
  constructor
  · intro ha; simpa using h a ha
  · intro ha
    obtain ⟨y, hy⟩ := List.exists_mem_of_ne_nil members hne
    have : a = m := by simpa using ha
    rw [this, ← h y hy]
    exact hy

theorem unionText_pair (x : String) (hx : x ≠ "Nothing?") : Spec.unionText [x, "Nothing?"] true = x ++ "?" := by
  have hd : Spec.dedup [x, "Nothing?"] = [x, "Nothing?"] := by
    simp [Spec.dedup, Ne.symm hx]
  have hs : sortStrings [x, "Nothing?"] = [x, "Nothing?"] ∨ sortStrings [x, "Nothing?"] = ["Nothing?", x] := by
    simp only [sortStrings, sortBy, insertBy]
    split <;> simp
  unfold Spec.unionText
  rw [hd]
  rcases hs with hs | hs <;> rw [hs] <;> simp [hx]

theorem unionText_shorthand_iff (members : List String) (b : Bool) (x : String) (hx : x ≠ "Nothing?")
    (hmem : x ∈ members) :
    Spec.unionText members b = x ++ "?" ↔ (∀ m, m ∈ members ↔ m = x ∨ m = "Nothing?") ∧ b = true := by
  constructor
  · intro hres
    rcases unionText_cases members b with ⟨h, _⟩ | ⟨m, _, hall, hm⟩ | ⟨y, _, hy, hb, hyres⟩ | ⟨_, _, hu⟩
    · rw [h] at hmem; simp at hmem
    · exfalso
      have h1 : x = m := hall x hmem
      rw [hm, ← h1] at hres
      have := congrArg String.length hres
      simp at this
    · rw [hyres] at hres
      have : y = x := (String.append_left_inj "?").1 hres
      subst this
      exact ⟨hy, hb⟩
    · exfalso
      rw [hu] at hres
      have := congrArg (fun s => s.toList.reverse.head?) hres
      simp at this
  · rintro ⟨hset, rfl⟩
    rw [unionText_congr (l' := [x, "Nothing?"]) (fun a => by rw [hset a]; simp) true, unionText_pair x hx]

/-! ### the specification's union case, in the shape of the generator's control flow -/

theorem length_filter_isLit_add (ts : List AType) :
    (ts.filter Spec.isLit).length + (ts.filter (fun t => !Spec.isLit t)).length = ts.length := by
  induction ts with
  | nil => rfl
  | cons t ts ih =>
    by_cases h : Spec.isLit t = true
    · simp only [List.filter_cons, h, Bool.not_true, ite_true, List.length_cons]
      simp only [Bool.false_eq_true, ite_false]
      omega
    · simp only [Bool.not_eq_true] at h
      simp only [List.filter_cons, h, Bool.not_false, ite_true, List.length_cons]
      simp only [Bool.false_eq_true, ite_false]
      omega

theorem any_isNoneType_filter (ts : List AType) :
    (ts.filter (fun t => !Spec.isLit t)).any Spec.isNoneType = ts.any Spec.isNoneType := by
  rw [List.any_filter]
  congr 1
  funext a
  cases a <;> rfl

theorem typeText_union (safe : Bool) (ts : List AType) :
    Spec.typeText safe (.union ts) =
      if (ts.filter Spec.isLit).length ≥ 2 then
        if ((ts.filter (fun t => !Spec.isLit t)).length == 1
            && (ts.filter (fun t => !Spec.isLit t)).any Spec.isNoneType) = true then
          "literal<" ++ joinWith ", "
            ((Spec.dedupLit ((ts.filter Spec.isLit).flatMap Spec.litsOf) ++ [Lit.none]).map Spec.litText) ++ ">"
        else
          Spec.unionText (Spec.nonLitTexts safe ts ++
            ["literal<" ++ joinWith ", "
              ((Spec.dedupLit ((ts.filter Spec.isLit).flatMap Spec.litsOf)).map Spec.litText) ++ ">"])
            (ts.any Spec.nullableKind)
      else if (ts.length == 2 && (ts.filter Spec.isLit).length == 1 && ts.any Spec.isNoneType) = true then
        "literal<" ++ joinWith ", "
          ((Spec.dedupLit ((ts.filter Spec.isLit).flatMap Spec.litsOf) ++ [Lit.none]).map Spec.litText) ++ ">"
      else Spec.unionText (Spec.typeTexts safe ts) (ts.any Spec.nullableKind) := by
  rw [Spec.typeText]
  rw [any_isNoneType_filter]
  have hlen := length_filter_isLit_add ts
  generalize (ts.filter Spec.isLit).length = a at *
  generalize (ts.filter (fun t => !Spec.isLit t)).length = b at *
  generalize ts.any Spec.isNoneType = c
  generalize ts.length = n at *
  split_ifs <;> simp_all
  omega

/-- the callable case of the specification as one equation -/
theorem typeText_callable (safe : Bool) (ps : List AType) (r : AType) :
    Spec.typeText safe (.callable ps r) =
      "(" ++ joinWith ", " (Spec.namedTexts safe "param_" 1 ps) ++ ") -> " ++
      (match r with
       | .tuple ts => "(" ++ joinWith ", " (Spec.namedTexts safe "result_" 1 ts) ++ ")"
       | other => if Spec.isNamedNone other then "()"
                  else convertName "result_1" safe ++ ": " ++ Spec.typeText safe other) := by
  cases r with
  | tuple ts => rw [Spec.typeText]
  | _ => rw [Spec.typeText.eq_13 _ _ _ (by intro ts h; cases h)]

theorem typeTexts_eq_map (safe : Bool) (ts : List AType) :
    Spec.typeTexts safe ts = ts.map (Spec.typeText safe) := by
  induction ts with
  | nil => rfl
  | cons t ts ih => rw [Spec.typeTexts, ih]; rfl

/-- a union without literal members is the normalised union of its members' texts -/
theorem typeText_union_noLit (safe : Bool) (ts : List AType) (h : ∀ t ∈ ts, Spec.isLit t = false) :
    Spec.typeText safe (.union ts) = Spec.unionText (Spec.typeTexts safe ts) (ts.any Spec.nullableKind) := by
  have h1 : ts.filter Spec.isLit = [] := by
    rw [List.filter_eq_nil_iff]
    intro t ht
    simp [h t ht]
  rw [typeText_union, h1]
  simp

theorem optional_text (safe : Bool) (T : AType) (hl : Spec.isLit T = false) (hk : Spec.nullableKind T = true)
    (hx : Spec.typeText safe T ≠ "Nothing?") :
    Spec.typeText safe (.union [T, .named "None" "builtins.None"]) = Spec.typeText safe T ++ "?" := by
  rw [typeText_union_noLit safe _ (by
    intro t ht
    rcases List.mem_cons.1 ht with rfl | ht
    · exact hl
    · rw [List.mem_singleton.1 ht]; rfl)]
  have h2 : Spec.typeTexts safe [T, .named "None" "builtins.None"] = [Spec.typeText safe T, "Nothing?"] := rfl
  have h3 : List.any [T, .named "None" "builtins.None"] Spec.nullableKind = true := by
    simp [hk]
  rw [h2, h3, unionText_pair _ hx]

theorem typeText_union_perm (safe : Bool) (ts ts' : List AType) (h : ∀ t ∈ ts, Spec.isLit t = false)
    (hp : ts ~ ts') : Spec.typeText safe (.union ts) = Spec.typeText safe (.union ts') := by
  rw [typeText_union_noLit safe ts h,
    typeText_union_noLit safe ts' (fun t ht => h t (hp.symm.subset ht)),
    typeTexts_eq_map, typeTexts_eq_map, hp.any_eq]
  exact unionText_congr (fun a => (hp.map _).mem_iff) _

/-! ### `typeStr` computes `Spec.typeText` and only adds to `todos` / `imports` / `outside` -/

/-- result satisfies `P`, state only grows -/
def GPost {α : Type} (m : G α) (st : St) (P : α → Prop) : Prop :=
  Post m st (fun a st' => P a ∧ St.Grows st st')

section
variable {α β : Type}

theorem GPost.bind {m : G α} {f : α → G β} {st : St} {Q : α → Prop} {P : β → Prop}
    (h1 : GPost m st Q) (h2 : ∀ a st1, Q a → GPost (f a) st1 P) : GPost (m >>= f) st P :=
  Post.bind h1 (fun a st1 hq => (h2 a st1 hq.1).mono (fun _ _ hp => ⟨hp.1, hq.2.trans hp.2⟩))

theorem GPost.pure {a : α} {st : St} {P : α → Prop} (h : P a) : GPost (pure a) st P :=
  Post.pure ⟨h, St.Grows.refl _⟩

theorem GPost.throw {e : PyErr} {st : St} {P : α → Prop} : GPost (throwG e) st P := Post.throw

theorem GPost.get {st : St} : GPost (get : G St) st (fun _ => True) :=
  Post.get ⟨trivial, St.Grows.refl _⟩

theorem GPost.addTodo {k : String} {st : St} : GPost (addTodo k) st (fun _ => True) :=
  (addTodo_post k st).mono (fun _ _ h => ⟨trivial, h⟩)

theorem GPost.addToImports {env : Env} {q : String} {st : St} :
    GPost (addToImports env q) st (fun _ => True) :=
  (addToImports_post env q st).mono (fun _ _ h => ⟨trivial, h⟩)

theorem GPost.mono {m : G α} {st : St} {P Q : α → Prop} (h : GPost m st P) (hpq : ∀ a, P a → Q a) :
    GPost m st Q :=
  Post.mono h (fun a _ hp => ⟨hpq a hp.1, hp.2⟩)

end

theorem length_typeTexts (safe : Bool) (ts : List AType) : (Spec.typeTexts safe ts).length = ts.length := by
  induction ts with
  | nil => rfl
  | cons t ts ih => simp [Spec.typeTexts, ih]

theorem typeTexts_isEmpty (safe : Bool) (ts : List AType) : (Spec.typeTexts safe ts).isEmpty = ts.isEmpty := by
  cases ts <;> rfl

theorem tt_dedupLits_eq : dedupLits = Spec.dedupLit := rfl

/-! ### the text the generator writes (`tt_typeText`) and where it is `Spec.typeText` (`tt_litOk`)

Since literal members are deduplicated, generator and `Spec.typeText` differ in exactly one place: a
union of exactly one `Literal[…]` and `None` (`ts.length == 2`, one literal member).  The generator
prints the literal's values as they are (`literal<1, 1, null>`), `Spec.typeText` deduplicates them
(`literal<1, null>`).  `tt_typeText` is `Spec.typeText` with the generator's behaviour at that place;
`typeStr` renders exactly `tt_typeText` (unconditionally), and `tt_typeText = Spec.typeText` on all
types without such a union (`tt_litOk`). -/

mutual
def tt_typeText (safe : Bool) : AType → String
  | .named n _ => (Spec.builtin n).getD (escapeKeyword n)
  | .final t => tt_typeText safe t
  | .list ts => if ts.isEmpty then "List<Any>" else "List<" ++ joinWith ", " (tt_typeTexts safe ts) ++ ">"
  | .set ts => if ts.isEmpty then "Set<Any>" else "Set<" ++ joinWith ", " (tt_typeTexts safe ts) ++ ">"
  | .namedSeq n _ ts =>
    if ts.isEmpty then escapeKeyword n ++ "<Any>" else escapeKeyword n ++ "<" ++ joinWith ", " (tt_typeTexts safe ts) ++ ">"
  | .tuple ts => "Tuple<" ++ joinWith ", " (tt_typeTexts safe ts) ++ ">"
  | .dict k v => "Map<" ++ tt_typeText safe k ++ ", " ++ tt_typeText safe v ++ ">"
  | .literal ls => "literal<" ++ joinWith ", " (ls.map Spec.litText) ++ ">"
  | .typeVar n => escapeKeyword (convertName n safe)
  | .typeVarB n _ => escapeKeyword (convertName n safe)
  | .unknown => "unknown"
  | .callable ps r =>
    "(" ++ joinWith ", " (tt_namedTexts safe "param_" 1 ps) ++ ") -> " ++
    (match r with
     | .tuple ts => "(" ++ joinWith ", " (tt_namedTexts safe "result_" 1 ts) ++ ")"
     | other => if Spec.isNamedNone other then "()" else convertName "result_1" safe ++ ": " ++ tt_typeText safe other)
  | .union ts =>
    if (ts.filter Spec.isLit).length ≥ 2 then
      if ((ts.filter (fun t => !Spec.isLit t)).length == 1
          && (ts.filter (fun t => !Spec.isLit t)).any Spec.isNoneType) = true then
        "literal<" ++ joinWith ", "
          ((Spec.dedupLit ((ts.filter Spec.isLit).flatMap Spec.litsOf) ++ [Lit.none]).map Spec.litText) ++ ">"
      else
        Spec.unionText (tt_nonLitTexts safe ts ++
          ["literal<" ++ joinWith ", "
            ((Spec.dedupLit ((ts.filter Spec.isLit).flatMap Spec.litsOf)).map Spec.litText) ++ ">"])
          (ts.any Spec.nullableKind)
    else if (ts.length == 2 && (ts.filter Spec.isLit).length == 1 && ts.any Spec.isNoneType) = true then
      -- the values of the one literal member as they are, not deduplicated
      "literal<" ++ joinWith ", " ((((ts.filter Spec.isLit).flatMap Spec.litsOf) ++ [Lit.none]).map Spec.litText) ++ ">"
    else Spec.unionText (tt_typeTexts safe ts) (ts.any Spec.nullableKind)
  | .enum _ => ""
  | .boundary .. => ""
def tt_typeTexts (safe : Bool) : List AType → List String
  | [] => []
  | t :: ts => tt_typeText safe t :: tt_typeTexts safe ts
def tt_nonLitTexts (safe : Bool) : List AType → List String
  | [] => []
  | t :: ts => if Spec.isLit t then tt_nonLitTexts safe ts else tt_typeText safe t :: tt_nonLitTexts safe ts
def tt_namedTexts (safe : Bool) (pre : String) (i : Nat) : List AType → List String
  | [] => []
  | t :: ts => (convertName (pre ++ toString i) safe ++ ": " ++ tt_typeText safe t) :: tt_namedTexts safe pre (i + 1) ts
end

mutual
/-- no union of exactly one `Literal[…]` with repeated values and `None` occurs in the type -/
def tt_litOk : AType → Bool
  | .union ts =>
    (!(ts.length == 2 && (ts.filter Spec.isLit).length == 1 && ts.any Spec.isNoneType)
      || decide (Spec.dedupLit ((ts.filter Spec.isLit).flatMap Spec.litsOf) = (ts.filter Spec.isLit).flatMap Spec.litsOf))
    && tt_litOkL ts
  | .namedSeq _ _ ts => tt_litOkL ts
  | .list ts => tt_litOkL ts
  | .set ts => tt_litOkL ts
  | .tuple ts => tt_litOkL ts
  | .dict k v => tt_litOk k && tt_litOk v
  | .callable ps r => tt_litOkL ps && tt_litOk r
  | .final t => tt_litOk t
  | _ => true
def tt_litOkL : List AType → Bool
  | [] => true
  | t :: ts => tt_litOk t && tt_litOkL ts
end

theorem tt_typeTexts_isEmpty (safe : Bool) (ts : List AType) : (tt_typeTexts safe ts).isEmpty = ts.isEmpty := by
  cases ts <;> rfl

/-- the callable case of `tt_typeText` as one equation -/
theorem tt_typeText_callable (safe : Bool) (ps : List AType) (r : AType) :
    tt_typeText safe (.callable ps r) =
      "(" ++ joinWith ", " (tt_namedTexts safe "param_" 1 ps) ++ ") -> " ++
      (match r with
       | .tuple ts => "(" ++ joinWith ", " (tt_namedTexts safe "result_" 1 ts) ++ ")"
       | other => if Spec.isNamedNone other then "()"
                  else convertName "result_1" safe ++ ": " ++ tt_typeText safe other) := by
  cases r <;> rw [tt_typeText] <;> (intro ts h; cases h)

mutual
theorem tt_typeText_eq (safe : Bool) : (t : AType) → tt_litOk t = true →
    tt_typeText safe t = Spec.typeText safe t
  | .named n q => by
    intro _
    rw [tt_typeText, Spec.typeText]
  | .final t => by
    intro h
    rw [tt_litOk] at h
    rw [tt_typeText, Spec.typeText]
    exact tt_typeText_eq safe t h
  | .list ts => by
    intro h
    rw [tt_litOk] at h
    rw [tt_typeText, Spec.typeText, tt_typeTexts_eq safe ts h]
  | .set ts => by
    intro h
    rw [tt_litOk] at h
    rw [tt_typeText, Spec.typeText, tt_typeTexts_eq safe ts h]
  | .namedSeq n q ts => by
    intro h
    rw [tt_litOk] at h
    rw [tt_typeText, Spec.typeText, tt_typeTexts_eq safe ts h]
  | .tuple ts => by
    intro h
    rw [tt_litOk] at h
    rw [tt_typeText, Spec.typeText, tt_typeTexts_eq safe ts h]
  | .dict k v => by
    intro h
    rw [tt_litOk] at h
    simp only [Bool.and_eq_true] at h
    rw [tt_typeText, Spec.typeText, tt_typeText_eq safe k h.1, tt_typeText_eq safe v h.2]
  | .literal ls => by
    intro _
    rw [tt_typeText, Spec.typeText]
  | .typeVar n => by
    intro _
    rw [tt_typeText, Spec.typeText]
  | .typeVarB n _ => by
    intro _
    rw [tt_typeText, Spec.typeText]
  | .unknown => by
    intro _
    rw [tt_typeText, Spec.typeText]
  | .callable ps r => by
    intro h
    rw [tt_litOk] at h
    simp only [Bool.and_eq_true] at h
    have ihR := tt_typeText_eq safe r h.2
    rw [tt_typeText_callable, typeText_callable, tt_namedTexts_eq safe ps h.1]
    cases r with
    | tuple ts =>
      dsimp only
      rw [tt_namedTexts_eq safe ts (by simpa only [tt_litOk] using h.2)]
    | _ =>
      dsimp only
      rw [ihR]
  | .union ts => by
    intro h
    rw [tt_litOk] at h
    simp only [Bool.and_eq_true, Bool.or_eq_true, Bool.not_eq_true', decide_eq_true_eq] at h
    obtain ⟨h1, h2⟩ := h
    rw [tt_typeText, typeText_union, tt_typeTexts_eq safe ts h2, tt_nonLitTexts_eq safe ts h2]
    split
    · rfl
    · split
      · rename_i c
        rcases h1 with h1 | h1
        · rw [h1] at c; cases c
        · rw [h1]
      · rfl
  | .enum _ => by
    intro _
    rw [tt_typeText, Spec.typeText]
  | .boundary .. => by
    intro _
    rw [tt_typeText, Spec.typeText]
theorem tt_typeTexts_eq (safe : Bool) : (ts : List AType) → tt_litOkL ts = true →
    tt_typeTexts safe ts = Spec.typeTexts safe ts
  | [] => by
    intro _
    rw [tt_typeTexts, Spec.typeTexts]
  | t :: ts => by
    intro h
    rw [tt_litOkL] at h
    simp only [Bool.and_eq_true] at h
    rw [tt_typeTexts, Spec.typeTexts, tt_typeText_eq safe t h.1, tt_typeTexts_eq safe ts h.2]
theorem tt_nonLitTexts_eq (safe : Bool) : (ts : List AType) → tt_litOkL ts = true →
    tt_nonLitTexts safe ts = Spec.nonLitTexts safe ts
  | [] => by
    intro _
    rw [tt_nonLitTexts, Spec.nonLitTexts]
  | t :: ts => by
    intro h
    rw [tt_litOkL] at h
    simp only [Bool.and_eq_true] at h
    rw [tt_nonLitTexts, Spec.nonLitTexts, tt_typeText_eq safe t h.1, tt_nonLitTexts_eq safe ts h.2]
theorem tt_namedTexts_eq (safe : Bool) : (ts : List AType) → tt_litOkL ts = true → ∀ pre i,
    tt_namedTexts safe pre i ts = Spec.namedTexts safe pre i ts
  | [] => by
    intro _ pre i
    rw [tt_namedTexts, Spec.namedTexts]
  | t :: ts => by
    intro h pre i
    rw [tt_litOkL] at h
    simp only [Bool.and_eq_true] at h
    rw [tt_namedTexts, Spec.namedTexts, tt_typeText_eq safe t h.1, tt_namedTexts_eq safe ts h.2]
end

/-! ### deduplication of literal values -/

section DedupFoldl
variable {α : Type} [BEq α] [LawfulBEq α]

theorem tt_dedupFoldl_nodup (l acc : List α) (h : acc.Nodup) :
    (l.foldl (fun acc a => if acc.contains a then acc else acc ++ [a]) acc).Nodup := by
  induction l generalizing acc with
  | nil => exact h
  | cons a as ih =>
    simp only [List.foldl_cons]
    apply ih
    split
    · exact h
    · rename_i hc
      simp only [List.contains_iff_mem] at hc
      exact List.nodup_append.2 ⟨h, List.nodup_singleton a, by
        intro x hx y hy; simp only [List.mem_singleton] at hy; subst hy; rintro rfl; exact hc hx⟩

theorem tt_dedupFoldl_mem (l acc : List α) (x : α) :
    x ∈ l.foldl (fun acc a => if acc.contains a then acc else acc ++ [a]) acc ↔ x ∈ acc ∨ x ∈ l := by
  induction l generalizing acc with
  | nil => simp
  | cons a as ih =>
    simp only [List.foldl_cons, ih, List.mem_cons]
    split
    · rename_i hc
      simp only [List.contains_iff_mem] at hc
      constructor
      · rintro (h | h)
        · exact Or.inl h
        · exact Or.inr (Or.inr h)
      · rintro (h | rfl | h)
        · exact Or.inl h
        · exact Or.inl hc
        · exact Or.inr h
    · simp only [List.mem_append, List.mem_singleton]
      tauto

theorem tt_dedupFoldl_sublist (l acc : List α) :
    ∃ l', l'.Sublist l ∧ l.foldl (fun acc a => if acc.contains a then acc else acc ++ [a]) acc = acc ++ l' := by
  induction l generalizing acc with
  | nil => exact ⟨[], List.Sublist.refl _, by simp⟩
  | cons a as ih =>
    simp only [List.foldl_cons]
    split
    · obtain ⟨l', h1, h2⟩ := ih acc
      exact ⟨l', h1.cons a, h2⟩
    · obtain ⟨l', h1, h2⟩ := ih (acc ++ [a])
      exact ⟨a :: l', h1.cons_cons a, by rw [h2]; simp⟩

theorem tt_dedupFoldl_of_nodup (l acc : List α) (h : (acc ++ l).Nodup) :
    l.foldl (fun acc a => if acc.contains a then acc else acc ++ [a]) acc = acc ++ l := by
  induction l generalizing acc with
  | nil => simp
  | cons a as ih =>
    simp only [List.foldl_cons]
    have ha : a ∉ acc := by
      intro hm
      have := (List.nodup_middle.1 h)
      rw [List.nodup_cons] at this
      exact this.1 (List.mem_append_left _ hm)
    rw [if_neg (by simpa [List.contains_iff_mem] using ha), ih (acc ++ [a]) (by simpa using h)]
    simp

end DedupFoldl

theorem tt_dedupLit_nodup (l : List Lit) : (Spec.dedupLit l).Nodup :=
  tt_dedupFoldl_nodup l [] List.nodup_nil

theorem tt_mem_dedupLit (l : List Lit) (x : Lit) : x ∈ Spec.dedupLit l ↔ x ∈ l := by
  unfold Spec.dedupLit
  rw [tt_dedupFoldl_mem]
  simp

theorem tt_dedupLit_sublist (l : List Lit) : (Spec.dedupLit l).Sublist l := by
  obtain ⟨l', h1, h2⟩ := tt_dedupFoldl_sublist l []
  unfold Spec.dedupLit
  rw [h2]
  exact h1

theorem tt_dedupLit_of_nodup (l : List Lit) (h : l.Nodup) : Spec.dedupLit l = l := by
  unfold Spec.dedupLit
  rw [tt_dedupFoldl_of_nodup l [] (by simpa using h)]
  rfl

theorem tt_escapeKeyword_ne_nothing (n : String) (hn : n ≠ "Nothing?") : escapeKeyword n ≠ "Nothing?" := by
  unfold escapeKeyword
  split
  · intro h
    have := congrArg String.toList h
    simp [Generated.keywordWrap, String.toList_append] at this
  · exact hn

mutual
/-- every `Literal[…]` in the type lists pairwise distinct values -/
def tt_litNodup : AType → Bool
  | .literal ls => decide ls.Nodup
  | .union ts => tt_litNodupL ts
  | .namedSeq _ _ ts => tt_litNodupL ts
  | .list ts => tt_litNodupL ts
  | .set ts => tt_litNodupL ts
  | .tuple ts => tt_litNodupL ts
  | .dict k v => tt_litNodup k && tt_litNodup v
  | .callable ps r => tt_litNodupL ps && tt_litNodup r
  | .final t => tt_litNodup t
  | _ => true
def tt_litNodupL : List AType → Bool
  | [] => true
  | t :: ts => tt_litNodup t && tt_litNodupL ts
end

theorem tt_litNodupL_mem {ts : List AType} (h : tt_litNodupL ts = true) {x : AType} (hx : x ∈ ts) :
    tt_litNodup x = true := by
  induction ts with
  | nil => cases hx
  | cons t ts ih =>
    rw [tt_litNodupL] at h
    simp only [Bool.and_eq_true] at h
    rcases List.mem_cons.1 hx with rfl | hx
    · exact h.1
    · exact ih h.2 hx

theorem tt_flatMap_lits_nodup (ts : List AType) (h : tt_litNodupL ts = true)
    (h1 : (ts.filter Spec.isLit).length = 1) : ((ts.filter Spec.isLit).flatMap Spec.litsOf).Nodup := by
  match hf : ts.filter Spec.isLit, h1 with
  | [x], _ =>
    have hx : x ∈ ts.filter Spec.isLit := by rw [hf]; simp
    rw [List.mem_filter] at hx
    have hn := tt_litNodupL_mem h hx.1
    have hl := hx.2
    cases x <;> simp [Spec.isLit] at hl
    rw [tt_litNodup] at hn
    simpa [Spec.litsOf] using hn

mutual
theorem tt_litOk_of_litNodup : (t : AType) → tt_litNodup t = true → tt_litOk t = true
  | .union ts => by
    intro h
    rw [tt_litNodup] at h
    rw [tt_litOk]
    simp only [Bool.and_eq_true, Bool.or_eq_true, Bool.not_eq_true', decide_eq_true_eq]
    refine ⟨?_, tt_litOkL_of_litNodup ts h⟩
    by_cases hc : (ts.length == 2 && (ts.filter Spec.isLit).length == 1 && ts.any Spec.isNoneType) = true
    · right
      simp only [Bool.and_eq_true, beq_iff_eq] at hc
      exact tt_dedupLit_of_nodup _ (tt_flatMap_lits_nodup ts h hc.1.2)
    · left
      simpa using hc
  | .namedSeq _ _ ts => by
    intro h; rw [tt_litNodup] at h; rw [tt_litOk]; exact tt_litOkL_of_litNodup ts h
  | .list ts => by
    intro h; rw [tt_litNodup] at h; rw [tt_litOk]; exact tt_litOkL_of_litNodup ts h
  | .set ts => by
    intro h; rw [tt_litNodup] at h; rw [tt_litOk]; exact tt_litOkL_of_litNodup ts h
  | .tuple ts => by
    intro h; rw [tt_litNodup] at h; rw [tt_litOk]; exact tt_litOkL_of_litNodup ts h
  | .dict k v => by
    intro h
    rw [tt_litNodup] at h
    simp only [Bool.and_eq_true] at h
    rw [tt_litOk, tt_litOk_of_litNodup k h.1, tt_litOk_of_litNodup v h.2]
    rfl
  | .callable ps r => by
    intro h
    rw [tt_litNodup] at h
    simp only [Bool.and_eq_true] at h
    rw [tt_litOk, tt_litOkL_of_litNodup ps h.1, tt_litOk_of_litNodup r h.2]
    rfl
  | .final t => by
    intro h; rw [tt_litNodup] at h; rw [tt_litOk]; exact tt_litOk_of_litNodup t h
  | .literal _ => by intro _; rfl
  | .named .. => by intro _; rfl
  | .unknown => by intro _; rfl
  | .typeVar _ => by intro _; rfl
  | .typeVarB .. => by intro _; rfl
  | .enum _ => by intro _; rfl
  | .boundary .. => by intro _; rfl
theorem tt_litOkL_of_litNodup : (ts : List AType) → tt_litNodupL ts = true → tt_litOkL ts = true
  | [] => by intro _; rfl
  | t :: ts => by
    intro h
    rw [tt_litNodupL] at h
    simp only [Bool.and_eq_true] at h
    rw [tt_litOkL, tt_litOk_of_litNodup t h.1, tt_litOkL_of_litNodup ts h.2]
    rfl
end

/-- `if c then addTodo k; pure x` -/
macro "todo_then_pure" : tactic => `(tactic|
  ((try dsimp only); split <;>
    first | exact GPost.bind GPost.addTodo (fun _ _ _ => GPost.pure rfl) | exact GPost.pure rfl))

mutual
theorem tt_typeStr_gpost (env : Env) : (t : AType) → ∀ st,
    GPost (typeStr env t) st (fun s => s = tt_typeText env.safe t)
  | .named name qname => by
    intro st
    rw [typeStr, builtinName_eq, tt_typeText]
    cases Spec.builtin name with
    | some b => exact GPost.pure rfl
    | none =>
      dsimp only
      refine GPost.bind GPost.addToImports (fun _ _ _ => ?_)
      split
      · exact GPost.throw
      · refine GPost.bind GPost.get (fun s _ _ => ?_)
        todo_then_pure
  | .final t => by
    intro st
    rw [typeStr, tt_typeText]
    exact tt_typeStr_gpost env t st
  | .callable params ret => by
    intro st
    have ihR := tt_typeStr_gpost env ret
    rw [typeStr, tt_typeText_callable]
    refine GPost.bind (tt_typeStrsNamed_gpost env params "param_" 1 _) (fun ps st1 hps => ?_)
    subst hps
    cases ret with
    | tuple ts =>
      dsimp only
      refine GPost.bind (tt_typeStrsNamed_gpost env ts "result_" 1 _) (fun rs _ hrs => ?_)
      subst hrs
      have e1 : ") -> (" = ") -> " ++ "(" := by decide
      exact GPost.pure (by rw [e1]; simp only [String.append_assoc])
    | _ =>
      dsimp only
      rw [namedNone_eq]
      split
      · have e2 : ") -> ()" = ") -> " ++ "()" := by decide
        exact GPost.pure (by rw [e2]; simp only [String.append_assoc])
      · refine GPost.bind (ihR _) (fun r _ hr => ?_)
        subst hr
        exact GPost.pure (by simp only [String.append_assoc])
  | .set ts => by
    intro st
    rw [typeStr, tt_typeText]
    refine GPost.bind (tt_typeStrs_gpost env ts st) (fun types st1 ht => ?_)
    subst ht
    refine GPost.bind GPost.addTodo (fun _ _ _ => ?_)
    rw [tt_typeTexts_isEmpty]
    split
    · exact GPost.pure rfl
    · todo_then_pure
  | .list ts => by
    intro st
    rw [typeStr, tt_typeText]
    refine GPost.bind (tt_typeStrs_gpost env ts st) (fun types st1 ht => ?_)
    subst ht
    rw [tt_typeTexts_isEmpty]
    split
    · exact GPost.pure rfl
    · todo_then_pure
  | .namedSeq name _ ts => by
    intro st
    rw [typeStr, tt_typeText]
    refine GPost.bind (tt_typeStrs_gpost env ts st) (fun types st1 ht => ?_)
    subst ht
    refine GPost.bind GPost.addToImports (fun _ _ _ => ?_)
    rw [tt_typeTexts_isEmpty]
    split
    · exact GPost.pure rfl
    · todo_then_pure
  | .unknown => by
    intro st
    rw [typeStr, tt_typeText]
    exact GPost.bind GPost.addTodo (fun _ _ _ => GPost.pure rfl)
  | .union ts => by
    intro st
    rw [typeStr, tt_typeText, isLiteral_eq, literalsOf_eq, isNoneNamed_eq, countsAsNamed_eq,
      Lit.render_eq', tt_dedupLits_eq]
    dsimp only
    by_cases h2 : (ts.filter Spec.isLit).length ≥ 2
    · simp only [if_pos h2]
      split
      · exact GPost.pure rfl
      · refine GPost.bind (tt_typeStrsSkipLit_gpost env ts _) (fun rs _ hrs => ?_)
        subst hrs
        exact GPost.pure (finishUnion_eq _ _)
    · simp only [if_neg h2]
      split
      · exact GPost.pure rfl
      · refine GPost.bind (tt_typeStrs_gpost env ts _) (fun rs _ hrs => ?_)
        subst hrs
        exact GPost.pure (finishUnion_eq _ _)
  | .tuple ts => by
    intro st
    rw [typeStr, tt_typeText]
    refine GPost.bind GPost.addTodo (fun _ _ _ => ?_)
    refine GPost.bind (tt_typeStrs_gpost env ts _) (fun types st1 ht => ?_)
    subst ht
    exact GPost.pure rfl
  | .dict k v => by
    intro st
    rw [typeStr, tt_typeText]
    refine GPost.bind (tt_typeStr_gpost env k _) (fun ks _ hk => ?_)
    refine GPost.bind (tt_typeStr_gpost env v _) (fun vs _ hv => ?_)
    subst hk hv
    exact GPost.pure rfl
  | .literal ls => by
    intro st
    rw [typeStr, tt_typeText, Lit.render_eq']
    exact GPost.pure rfl
  | .typeVar name => by
    intro st
    rw [typeStr, tt_typeText]
    exact GPost.pure rfl
  | .typeVarB name _ => by
    intro st
    rw [typeStr, tt_typeText]
    exact GPost.pure rfl
  | .enum _ => by
    intro st
    rw [typeStr]
    exact GPost.throw
  | .boundary .. => by
    intro st
    rw [typeStr]
    exact GPost.throw
theorem tt_typeStrs_gpost (env : Env) : (ts : List AType) → ∀ st,
    GPost (typeStrs env ts) st (fun r => r = tt_typeTexts env.safe ts)
  | [] => by
    intro st
    rw [typeStrs, tt_typeTexts]
    exact GPost.pure rfl
  | t :: ts => by
    intro st
    rw [typeStrs, tt_typeTexts]
    refine GPost.bind (tt_typeStr_gpost env t _) (fun a _ ha => ?_)
    refine GPost.bind (tt_typeStrs_gpost env ts _) (fun as _ has => ?_)
    subst ha has
    exact GPost.pure rfl
theorem tt_typeStrsSkipLit_gpost (env : Env) : (ts : List AType) → ∀ st,
    GPost (typeStrsSkipLit env ts) st (fun r => r = tt_nonLitTexts env.safe ts)
  | [] => by
    intro st
    rw [typeStrsSkipLit, tt_nonLitTexts]
    exact GPost.pure rfl
  | t :: ts => by
    intro st
    rw [typeStrsSkipLit, tt_nonLitTexts, isLiteral_eq]
    split
    · exact tt_typeStrsSkipLit_gpost env ts st
    · refine GPost.bind (tt_typeStr_gpost env t _) (fun a _ ha => ?_)
      refine GPost.bind (tt_typeStrsSkipLit_gpost env ts _) (fun as _ has => ?_)
      subst ha has
      exact GPost.pure rfl
theorem tt_typeStrsNamed_gpost (env : Env) : (ts : List AType) → ∀ pre i st,
    GPost (typeStrsNamed env pre i ts) st (fun r => r = tt_namedTexts env.safe pre i ts)
  | [] => by
    intro pre i st
    rw [typeStrsNamed, tt_namedTexts]
    exact GPost.pure rfl
  | t :: ts => by
    intro pre i st
    rw [typeStrsNamed, tt_namedTexts]
    refine GPost.bind (tt_typeStr_gpost env t _) (fun a _ ha => ?_)
    refine GPost.bind (tt_typeStrsNamed_gpost env ts _ _ _) (fun as _ has => ?_)
    subst ha has
    exact GPost.pure rfl
end

/-! ### `typeStr` computes `Spec.typeText` (on `tt_litOk` types) -/

theorem typeStr_gpost (env : Env) (t : AType) (hl : tt_litOk t = true) (st : St) :
    GPost (typeStr env t) st (fun s => s = Spec.typeText env.safe t) :=
  (tt_typeStr_gpost env t st).mono (fun _ hs => hs.trans (tt_typeText_eq env.safe t hl))

theorem typeStrs_gpost (env : Env) (ts : List AType) (hl : tt_litOkL ts = true) (st : St) :
    GPost (typeStrs env ts) st (fun r => r = Spec.typeTexts env.safe ts) :=
  (tt_typeStrs_gpost env ts st).mono (fun _ hs => hs.trans (tt_typeTexts_eq env.safe ts hl))

theorem typeStrsSkipLit_gpost (env : Env) (ts : List AType) (hl : tt_litOkL ts = true) (st : St) :
    GPost (typeStrsSkipLit env ts) st (fun r => r = Spec.nonLitTexts env.safe ts) :=
  (tt_typeStrsSkipLit_gpost env ts st).mono (fun _ hs => hs.trans (tt_nonLitTexts_eq env.safe ts hl))

theorem typeStrsNamed_gpost (env : Env) (ts : List AType) (hl : tt_litOkL ts = true) (pre : String) (i : Nat)
    (st : St) : GPost (typeStrsNamed env pre i ts) st (fun r => r = Spec.namedTexts env.safe pre i ts) :=
  (tt_typeStrsNamed_gpost env ts pre i st).mono (fun _ hs => hs.trans (tt_namedTexts_eq env.safe ts hl pre i))

/-! ### `typeStr` does not raise on renderable types -/

theorem toList_ne_nil_of_ne_empty {s : String} (h : s ≠ "") : s.toList ≠ [] := by
  intro h'
  apply h
  simpa using h'

mutual
/-- every generic class with type arguments (`Sequence[…]`, `Collection[…]`, `C[…]`) has a qualified
    name, i.e. an import source (`Spec.renderable` does not ask for it) -/
def tt_seqImportable : AType → Bool
  | .namedSeq _ q ts => q != "" && tt_seqImportableL ts
  | .union ts => tt_seqImportableL ts
  | .list ts => tt_seqImportableL ts
  | .set ts => tt_seqImportableL ts
  | .tuple ts => tt_seqImportableL ts
  | .dict k v => tt_seqImportable k && tt_seqImportable v
  | .callable ps r => tt_seqImportableL ps && tt_seqImportable r
  | .final t => tt_seqImportable t
  | _ => true
def tt_seqImportableL : List AType → Bool
  | [] => true
  | t :: ts => tt_seqImportable t && tt_seqImportableL ts
end

/-- `if c then addTodo k; pure x` -/
macro "todo_then_pure_tot" : tactic => `(tactic|
  ((try dsimp only); split <;>
    first | exact Tot.bind' (addTodo_tot _ _) (fun _ _ => Tot.pure) | exact Tot.pure))

mutual
theorem typeStr_tot (env : Env) : (t : AType) → Spec.renderable t = true → tt_seqImportable t = true →
    ∀ st, Tot (typeStr env t) st
  | .named name qname => by
    intro hr _ st
    rw [Spec.renderable] at hr
    simp only [Bool.and_eq_true, bne_iff_ne, ne_eq] at hr
    rw [typeStr]
    cases builtinName name with
    | some b => exact Tot.pure
    | none =>
      dsimp only
      refine Tot.bind' (addToImports_tot env qname st hr.2) (fun _ st1 => ?_)
      split
      · rename_i h; exact absurd h (toList_ne_nil_of_ne_empty hr.1)
      · refine Tot.bind' Tot.get (fun s _ => ?_)
        todo_then_pure_tot
  | .final t => by
    intro hr hq st
    rw [Spec.renderable] at hr
    rw [tt_seqImportable] at hq
    rw [typeStr]
    exact typeStr_tot env t hr hq st
  | .callable params ret => by
    intro hr hq st
    rw [Spec.renderable] at hr
    rw [tt_seqImportable] at hq
    simp only [Bool.and_eq_true] at hr hq
    have ihR := typeStr_tot env ret hr.2 hq.2
    rw [typeStr]
    refine Tot.bind' (typeStrsNamed_tot env params hr.1 hq.1 _ _ _) (fun ps st1 => ?_)
    cases ret with
    | tuple ts =>
      dsimp only
      rw [Spec.renderable] at hr
      rw [tt_seqImportable] at hq
      exact Tot.bind' (typeStrsNamed_tot env ts hr.2 hq.2 _ _ _) (fun rs _ => Tot.pure)
    | _ =>
      dsimp only
      split
      · exact Tot.pure
      · exact Tot.bind' (ihR _) (fun r _ => Tot.pure)
  | .set ts => by
    intro hr hq st
    rw [Spec.renderable] at hr
    rw [tt_seqImportable] at hq
    rw [typeStr]
    refine Tot.bind' (typeStrs_tot env ts hr hq st) (fun types st1 => ?_)
    refine Tot.bind' (addTodo_tot _ _) (fun _ _ => ?_)
    split
    · exact Tot.pure
    · todo_then_pure_tot
  | .list ts => by
    intro hr hq st
    rw [Spec.renderable] at hr
    rw [tt_seqImportable] at hq
    rw [typeStr]
    refine Tot.bind' (typeStrs_tot env ts hr hq st) (fun types st1 => ?_)
    split
    · exact Tot.pure
    · todo_then_pure_tot
  | .namedSeq name qname ts => by
    intro hr hq st
    rw [Spec.renderable] at hr
    rw [tt_seqImportable] at hq
    simp only [Bool.and_eq_true, bne_iff_ne, ne_eq] at hq
    rw [typeStr]
    refine Tot.bind' (typeStrs_tot env ts hr hq.2 st) (fun types st1 => ?_)
    refine Tot.bind' (addToImports_tot env qname st1 hq.1) (fun _ _ => ?_)
    split
    · exact Tot.pure
    · todo_then_pure_tot
  | .unknown => by
    intro _ _ st
    rw [typeStr]
    exact Tot.bind' (addTodo_tot _ _) (fun _ _ => Tot.pure)
  | .union ts => by
    intro hr hq st
    rw [Spec.renderable] at hr
    rw [tt_seqImportable] at hq
    rw [typeStr]
    dsimp only
    split
    · split
      · exact Tot.pure
      · exact Tot.bind' (typeStrsSkipLit_tot env ts hr hq _) (fun _ _ => Tot.pure)
    · split
      · exact Tot.pure
      · exact Tot.bind' (typeStrs_tot env ts hr hq _) (fun _ _ => Tot.pure)
  | .tuple ts => by
    intro hr hq st
    rw [Spec.renderable] at hr
    rw [tt_seqImportable] at hq
    rw [typeStr]
    refine Tot.bind' (addTodo_tot _ _) (fun _ _ => ?_)
    exact Tot.bind' (typeStrs_tot env ts hr hq _) (fun _ _ => Tot.pure)
  | .dict k v => by
    intro hr hq st
    rw [Spec.renderable] at hr
    rw [tt_seqImportable] at hq
    simp only [Bool.and_eq_true] at hr hq
    rw [typeStr]
    refine Tot.bind' (typeStr_tot env k hr.1 hq.1 _) (fun _ _ => ?_)
    exact Tot.bind' (typeStr_tot env v hr.2 hq.2 _) (fun _ _ => Tot.pure)
  | .literal ls => by
    intro _ _ st
    rw [typeStr]
    exact Tot.pure
  | .typeVar name => by
    intro _ _ st
    rw [typeStr]
    exact Tot.pure
  | .typeVarB name _ => by
    intro _ _ st
    rw [typeStr]
    exact Tot.pure
  | .enum _ => by
    intro hr
    rw [Spec.renderable] at hr
    cases hr
  | .boundary .. => by
    intro hr
    rw [Spec.renderable] at hr
    cases hr
theorem typeStrs_tot (env : Env) : (ts : List AType) → Spec.renderableL ts = true →
    tt_seqImportableL ts = true → ∀ st, Tot (typeStrs env ts) st
  | [] => by
    intro _ _ st
    rw [typeStrs]
    exact Tot.pure
  | t :: ts => by
    intro hr hq st
    rw [Spec.renderableL] at hr
    rw [tt_seqImportableL] at hq
    simp only [Bool.and_eq_true] at hr hq
    rw [typeStrs]
    refine Tot.bind' (typeStr_tot env t hr.1 hq.1 _) (fun _ _ => ?_)
    exact Tot.bind' (typeStrs_tot env ts hr.2 hq.2 _) (fun _ _ => Tot.pure)
theorem typeStrsSkipLit_tot (env : Env) : (ts : List AType) → Spec.renderableL ts = true →
    tt_seqImportableL ts = true → ∀ st, Tot (typeStrsSkipLit env ts) st
  | [] => by
    intro _ _ st
    rw [typeStrsSkipLit]
    exact Tot.pure
  | t :: ts => by
    intro hr hq st
    rw [Spec.renderableL] at hr
    rw [tt_seqImportableL] at hq
    simp only [Bool.and_eq_true] at hr hq
    rw [typeStrsSkipLit]
    split
    · exact typeStrsSkipLit_tot env ts hr.2 hq.2 st
    · refine Tot.bind' (typeStr_tot env t hr.1 hq.1 _) (fun _ _ => ?_)
      exact Tot.bind' (typeStrsSkipLit_tot env ts hr.2 hq.2 _) (fun _ _ => Tot.pure)
theorem typeStrsNamed_tot (env : Env) : (ts : List AType) → Spec.renderableL ts = true →
    tt_seqImportableL ts = true → ∀ pre i st, Tot (typeStrsNamed env pre i ts) st
  | [] => by
    intro _ _ pre i st
    rw [typeStrsNamed]
    exact Tot.pure
  | t :: ts => by
    intro hr hq pre i st
    rw [Spec.renderableL] at hr
    rw [tt_seqImportableL] at hq
    simp only [Bool.and_eq_true] at hr hq
    rw [typeStrsNamed]
    refine Tot.bind' (typeStr_tot env t hr.1 hq.1 _) (fun _ _ => ?_)
    exact Tot.bind' (typeStrsNamed_tot env ts hr.2 hq.2 _ _ _) (fun _ _ => Tot.pure)
end

end StubGen
