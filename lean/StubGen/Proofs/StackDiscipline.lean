/-
Stack discipline of the analyser (C01, analyser half).

`_ast_visitor.py` keeps a declaration stack and guards it with `assert`s / "unexpected parent" `AssertionError`s
(T3 lists them).  This file proves that none of them can fire: every helper leaves the stack exactly as it found it,
every `enter_*` pushes exactly one frame, every `leave_*` pops the frame its `enter_*` pushed and keeps the KINDS of
the frames below, and the walker calls them in an order in which every guard holds.  The statements are about
`Model/Analyze.lean`; S-A / S-P tie the model to the code.
-/
import StubGen.Model.Analyze
import StubGen.Proofs.Reconcile

namespace StubGen

/-! ### errors of the `Except`-valued helpers: never an `AssertionError` -/

theorem sd_griffeStep_err (n : GNode) (p : String) (b : Bool) (e : PyErr) (h : griffeStep n p b = .error e) :
    e ≠ .assertionError := by
  unfold griffeStep at h
  grind

theorem sd_griffeWalk_err : ∀ (ps : List String) (n : GNode) (e : PyErr), griffeWalk n ps = .error e → e ≠ .assertionError
  | [], n, e, h => by simp [griffeWalk] at h
  | p :: ps, n, e, h => by
    have := sd_griffeStep_err n p false
    have ih := sd_griffeWalk_err ps
    unfold griffeWalk at h
    grind

theorem sd_getGriffeNode_err (root : GNode) (q : String) (e : PyErr) (h : getGriffeNode root q = .error e) :
    e ≠ .assertionError := by
  have h1 := sd_griffeStep_err root
  have h2 := sd_griffeWalk_err
  unfold getGriffeNode at h
  grind

theorem sd_getCached_err (root : GNode) (c : Cache) (q : String) (e : PyErr) (h : getCached root c q = .error e) :
    e ≠ .assertionError := by
  have h1 := sd_getGriffeNode_err root
  unfold getCached lookupDoc at h
  grind

theorem sd_getClassDocumentation_err (s : ParserState) (q : String) (e : PyErr)
    (h : getClassDocumentation s q = .error e) : e ≠ .assertionError := by
  have h1 := sd_getGriffeNode_err s.root
  unfold getClassDocumentation at h
  grind

theorem sd_getFunctionDocumentation_err (s : ParserState) (q : String) (e : PyErr)
    (h : getFunctionDocumentation s q = .error e) : e ≠ .assertionError := by
  have h1 := sd_getCached_err s.root
  unfold getFunctionDocumentation at h
  grind

theorem sd_getParameterDocumentation_err (s : ParserState) (a b c : String) (e : PyErr)
    (h : getParameterDocumentation s a b c = .error e) : e ≠ .assertionError := by
  have h1 := sd_getCached_err s.root
  unfold getParameterDocumentation at h
  grind

theorem sd_getAttributeDocumentation_err (s : ParserState) (a b : String) (e : PyErr)
    (h : getAttributeDocumentation s a b = .error e) : e ≠ .assertionError := by
  have h1 := sd_getCached_err s.root
  unfold getAttributeDocumentation at h
  grind

theorem sd_getResultDocumentation_err (s : ParserState) (q : String) (e : PyErr)
    (h : getResultDocumentation s q = .error e) : e ≠ .assertionError := by
  have h1 := sd_getCached_err s.root
  unfold getResultDocumentation at h
  grind

theorem sd_findAlias_err (env : AEnv) (s : VSt) (n k : String) (e : PyErr) (h : findAlias env s n k = .error e) :
    e ≠ .assertionError := by
  unfold findAlias at h
  grind

theorem sd_isPublicV_err (s : VSt) (n q : String) (e : PyErr) (h : isPublicV s n q = .error e) :
    e ≠ .assertionError := by
  unfold isPublicV at h
  grind

theorem sd_argumentKind_err (a : Arg) (e : PyErr) (h : argumentKind a = .error e) : e ≠ .assertionError := by
  unfold argumentKind at h
  grind

theorem sd_varianceOf_err (n : Nat) (e : PyErr) (h : varianceOf n = .error e) : e ≠ .assertionError := by
  unfold varianceOf at h
  grind

theorem sd_lvalueNames_err (lv : LValue) (e : PyErr) (h : lvalueNames lv = .error e) : e ≠ .assertionError := by
  unfold lvalueNames at h
  grind

theorem sd_attributeAlreadyDefined_err (s : VSt) (n : String) (e : PyErr) (h : attributeAlreadyDefined s n = .error e) :
    e ≠ .assertionError := by
  unfold attributeAlreadyDefined at h
  grind

mutual
theorem sd_exprToType_ok : ∀ (x : Expr), ∃ t, exprToType x = .ok t
  | .name n fq a b c => by unfold exprToType; split <;> exact ⟨_, rfl⟩
  | .int _ => ⟨_, by unfold exprToType; rfl⟩
  | .float _ => ⟨_, by unfold exprToType; rfl⟩
  | .str _ => ⟨_, by unfold exprToType; rfl⟩
  | .tuple items => by
    obtain ⟨ts, h⟩ := sd_exprsToTypes_ok items
    exact ⟨_, by unfold exprToType; rw [h]⟩
  | .unary o e => by
    obtain ⟨t, h⟩ := sd_exprToType_ok e
    exact ⟨t, by unfold exprToType; exact h⟩
  | .call => ⟨_, by unfold exprToType; rfl⟩
  | .member => ⟨_, by unfold exprToType; rfl⟩
  | .cond a b => ⟨_, by unfold exprToType; rfl⟩
  | .other _ => ⟨_, by unfold exprToType; rfl⟩
theorem sd_exprsToTypes_ok : ∀ (xs : List Expr), ∃ ts, exprsToTypes xs = .ok ts
  | [] => ⟨[], by unfold exprsToTypes; rfl⟩
  | x :: xs => by
    obtain ⟨t, h⟩ := sd_exprToType_ok x
    obtain ⟨ts, hs⟩ := sd_exprsToTypes_ok xs
    exact ⟨t :: ts, by unfold exprsToTypes; rw [h, hs]⟩
end

theorem sd_exprToType_err (x : Expr) (e : PyErr) (h : exprToType x = .error e) : e ≠ .assertionError := by
  obtain ⟨t, ht⟩ := sd_exprToType_ok x
  rw [ht] at h
  cases h

/-- an `Except` value whose error, if any, is not an `AssertionError` -/
def sd_NoAE {α : Type} (x : Except PyErr α) : Prop := ∀ e, x = .error e → e ≠ .assertionError

theorem sd_foldl_noAE {α ι : Type} (step : Except PyErr α → ι → Except PyErr α)
    (h : ∀ acc i, sd_NoAE acc → sd_NoAE (step acc i)) :
    ∀ (l : List ι) (acc : Except PyErr α), sd_NoAE acc → sd_NoAE (l.foldl step acc)
  | [], acc, ha => ha
  | i :: l, acc, ha => sd_foldl_noAE step h l (step acc i) (h acc i ha)

theorem sd_foldl_ok' {α ι : Type} (step : Except PyErr α → ι → Except PyErr α)
    (h : ∀ l i, ∃ l', step (.ok l) i = .ok l') :
    ∀ (xs : List ι) (l : α) (e : PyErr), xs.foldl step (.ok l) = .error e → False
  | [], l, e, he => by cases he
  | i :: xs, l, e, he => by
    obtain ⟨l', hl⟩ := h l i
    rw [List.foldl_cons, hl] at he
    exact sd_foldl_ok' step h xs l' e he

theorem sd_inferFromReturns_ok (body : List Stmt) : ∃ r, inferFromReturns body = .ok r := by
  unfold inferFromReturns
  dsimp only
  split
  · exact ⟨_, rfl⟩
  · split
    · rename_i err he
      exfalso
      refine sd_foldl_ok' _ (fun l r => ?_) _ _ _ he
      dsimp only
      rcases r with _ | x
      · exact ⟨l, rfl⟩
      · dsimp only
        split
        · exact ⟨l, rfl⟩
        · split
          · rename_i a b _
            obtain ⟨ta, hta⟩ := sd_exprToType_ok a
            obtain ⟨tb, htb⟩ := sd_exprToType_ok b
            simp only [hta, htb]
            repeat' split
            all_goals first | exact ⟨_, rfl⟩ | grind
          · split <;> exact ⟨_, rfl⟩
          · split
            · rename_i err' h'
              obtain ⟨t, ht⟩ := sd_exprToType_ok _
              rw [ht] at h'
              cases h'
            · split <;> exact ⟨_, rfl⟩
    · exact ⟨_, rfl⟩

theorem sd_inferFromReturns_err (body : List Stmt) (e : PyErr) (h : inferFromReturns body = .error e) :
    e ≠ .assertionError := by
  obtain ⟨r, hr⟩ := sd_inferFromReturns_ok body
  rw [hr] at h
  cases h

theorem sd_createInferredResults_err (ts : List AType) (docs : List ResultDoc) (fid : String) (e : PyErr)
    (h : createInferredResults ts docs fid = .error e) : e ≠ .assertionError := by
  unfold createInferredResults at h
  dsimp only at h
  split at h
  · rename_i e' he
    cases h
    refine sd_foldl_noAE _ ?_ _ _ ?_ e he
    · intro acc t ha
      unfold sd_NoAE at *
      grind
    · intro e h; cases h
  · split at h <;> cases h

/-! ### the frame-preserving fragment of the visitor -/

/-- run from a state whose stack satisfies `P`, `x` raises no `AssertionError` and leaves the stack as it is -/
structure sd_Q {α : Type} (P : List Frame → Prop) (x : V α) : Prop where
  run : ∀ s : VSt, P s.stack →
    match x s with
    | .error e => e ≠ PyErr.assertionError
    | .ok (_, t) => t.stack = s.stack

namespace sd_Q
variable {α β : Type} {P : List Frame → Prop}

theorem pure (a : α) : sd_Q P (Pure.pure a : V α) := ⟨fun _ _ => rfl⟩

theorem throw {e : PyErr} (h : e ≠ .assertionError) : sd_Q P (throwV e : V α) := ⟨fun _ _ => h⟩

theorem absurd {x : V α} (h : ∀ st, ¬ P st) : sd_Q P x := ⟨fun s hs => (h _ hs).elim⟩

theorem mono {Q : List Frame → Prop} {x : V α} (hx : sd_Q P x) (h : ∀ st, Q st → P st) : sd_Q Q x :=
  ⟨fun s hs => hx.run s (h _ hs)⟩

theorem bind {x : V α} {f : α → V β} (hx : sd_Q P x) (hf : ∀ a, sd_Q P (f a)) : sd_Q P (x >>= f) := by
  refine ⟨fun s hs => ?_⟩
  have h := hx.run s hs
  simp only [Bind.bind, StateT.bind, Except.bind]
  revert h
  cases x s with
  | error e => exact fun h => h
  | ok r =>
    obtain ⟨a, t⟩ := r
    intro ht
    have h2 := (hf a).run t (by rw [ht]; exact hs)
    revert h2
    dsimp only
    cases f a t with
    | error e => exact fun h => h
    | ok r' =>
      obtain ⟨b, t'⟩ := r'
      exact fun h => h.trans ht

theorem get_bind {f : VSt → V β} (hf : ∀ s0, P s0.stack → sd_Q (fun st => st = s0.stack) (f s0)) :
    sd_Q P (get >>= f) :=
  ⟨fun s hs => (hf s hs).run s rfl⟩

theorem modify {g : VSt → VSt} (hg : ∀ s, (g s).stack = s.stack) : sd_Q P (modify g : V PUnit) :=
  ⟨fun s _ => hg s⟩

theorem set {t : VSt} (ht : ∀ st, P st → t.stack = st) : sd_Q P (set t : V PUnit) :=
  ⟨fun s hs => ht _ hs⟩

theorem warn (m : String) : sd_Q P (warnV m) := ⟨fun _ _ => rfl⟩

theorem ite {c : Prop} {d : Decidable c} {x y : V α} (h1 : c → sd_Q P x) (h2 : ¬c → sd_Q P y) :
    sd_Q P (@_root_.ite _ c d x y) := by
  by_cases h : c
  · rw [if_pos h]; exact h1 h
  · rw [if_neg h]; exact h2 h

theorem withDoc (f : ParserState → Except PyErr (α × ParserState)) (hf : ∀ p e, f p = .error e → e ≠ .assertionError) :
    sd_Q P (withDoc f) := by
  refine ⟨fun s _ => ?_⟩
  show (match (match f s.doc with | .error e => .error e | .ok (a, d) => .ok (a, { s with doc := d }) :
      Except PyErr (α × VSt)) with
    | .error e => e ≠ PyErr.assertionError
    | .ok (_, t) => t.stack = s.stack)
  cases hfd : f s.doc with
  | error e => exact hf s.doc e hfd
  | ok r => rfl

end sd_Q

open Lean in
macro "sd_q" "[" ls:term,* "]" : tactic => do
  let alts ← ls.getElems.mapM fun l => `(tacticSeq| apply $l)
  `(tactic| repeat' (first
      | with_reducible exact sd_Q.pure _
      | with_reducible exact sd_Q.warn _
      | with_reducible assumption
      | ((with_reducible apply sd_Q.throw); first
          | decide
          | (apply sd_isPublicV_err; assumption)
          | (apply sd_findAlias_err; assumption)
          | (apply sd_argumentKind_err; assumption)
          | (apply sd_varianceOf_err; assumption)
          | (apply sd_lvalueNames_err; assumption)
          | (apply sd_attributeAlreadyDefined_err; assumption)
          | (apply sd_exprToType_err; assumption)
          | (apply sd_inferFromReturns_err; assumption)
          | (apply sd_createInferredResults_err; assumption))
      | ((with_reducible apply sd_Q.modify); intro _; rfl)
      | ((with_reducible apply sd_Q.get_bind); intro _ _)
      $[| with_reducible $alts:tacticSeq]*
      | with_reducible apply sd_Q.bind
      | with_reducible apply sd_Q.ite
      | intro _
      | split))

section
variable (env : AEnv) {P : List Frame → Prop}

theorem sd_classDocumentation (fullname : String) (defs : List Def) : sd_Q P (classDocumentation env fullname defs) := by
  unfold classDocumentation
  split
  · exact sd_Q.pure _
  · exact sd_Q.withDoc _ (fun p e h => sd_getClassDocumentation_err p fullname e h)

theorem sd_functionDocumentation (f : FuncDef) : sd_Q P (functionDocumentation env f) := by
  unfold functionDocumentation
  split
  · exact sd_Q.pure _
  · exact sd_Q.withDoc _ (fun p e h => sd_getFunctionDocumentation_err p _ e h)

theorem sd_parameterDocumentation (fq pname parent : String) : sd_Q P (parameterDocumentation env fq pname parent) := by
  unfold parameterDocumentation
  split
  · exact sd_Q.pure _
  · exact sd_Q.withDoc _ (fun p e h => sd_getParameterDocumentation_err p _ _ _ e h)

theorem sd_attributeDocumentation (parent name : String) : sd_Q P (attributeDocumentation env parent name) := by
  unfold attributeDocumentation
  split
  · exact sd_Q.pure _
  · exact sd_Q.withDoc _ (fun p e h => sd_getAttributeDocumentation_err p _ _ e h)

theorem sd_resultDocumentation (fq : String) : sd_Q P (resultDocumentation env fq) := by
  unfold resultDocumentation
  split
  · exact sd_Q.pure _
  · exact sd_Q.withDoc _ (fun p e h => sd_getResultDocumentation_err p _ e h)

end


mutual
theorem sd_toAbstractNoUn (env : AEnv) {P : List Frame → Prop} :
    (t : MType) → sd_Q P (toAbstractNoUn env t)
  | .tuple items => by
    have := sd_toAbstracts env (P := P) items
    unfold toAbstractNoUn
    sd_q []
  | .union items => by
    have := sd_toAbstracts env (P := P) items
    unfold toAbstractNoUn
    sd_q []
  | .typeVar name ub ubStr => by
    have := sd_toAbstractNoUn env (P := P) ub
    unfold toAbstractNoUn
    sd_q []
  | .callable args ret => by
    have := sd_toAbstracts env (P := P) args
    have := sd_toAbstractNoUn env (P := P) ret
    unfold toAbstractNoUn
    sd_q []
  | .any t missing => by
    unfold toAbstractNoUn
    sd_q []
  | .none => by
    unfold toAbstractNoUn
    sd_q []
  | .literal v => by
    unfold toAbstractNoUn
    sd_q []
  | .unbound name args => by
    have h1 := fun Q => sd_toAbstracts env (P := Q) args
    unfold toAbstractNoUn
    sd_q [h1]
  | .inst name fullname [] => by
    have := sd_toAbstracts env (P := P) []
    unfold toAbstractNoUn
    sd_q []
  | .inst name fullname [k] => by
    have := sd_toAbstracts env (P := P) [k]
    unfold toAbstractNoUn
    sd_q []
  | .inst name fullname (k :: v :: rest) => by
    have := sd_toAbstracts env (P := P) (k :: v :: rest)
    have := sd_toAbstractNoUn env (P := P) k
    have := sd_toAbstractNoUn env (P := P) v
    unfold toAbstractNoUn
    sd_q []
  | .other _ _ => by
    unfold toAbstractNoUn
    sd_q []
theorem sd_toAbstracts (env : AEnv) {P : List Frame → Prop} :
    (ts : List MType) → sd_Q P (toAbstracts env ts)
  | [] => by
    unfold toAbstracts
    sd_q []
  | t :: ts => by
    have := sd_toAbstractNoUn env (P := P) t
    have := sd_toAbstracts env (P := P) ts
    unfold toAbstracts
    sd_q []
end

theorem sd_Q.forIn {α β : Type} {P : List Frame → Prop} {f : α → β → V (ForInStep β)} (hf : ∀ a b, sd_Q P (f a b)) :
    ∀ (l : List α) (b : β), sd_Q P (forIn l b f)
  | [], b => by
    rw [List.forIn_nil]
    exact sd_Q.pure _
  | a :: l, b => by
    rw [List.forIn_cons]
    refine sd_Q.bind (hf a b) (fun r => ?_)
    cases r with
    | done b' => exact sd_Q.pure _
    | yield b' => exact sd_Q.forIn hf l b'

theorem sd_Q.mapM {α β : Type} {P : List Frame → Prop} {f : α → V β} (hf : ∀ a, sd_Q P (f a)) :
    ∀ (l : List α), sd_Q P (l.mapM f)
  | [] => by
    rw [List.mapM_nil]
    exact sd_Q.pure _
  | a :: l => by
    rw [List.mapM_cons]
    exact sd_Q.bind (hf a) (fun b => sd_Q.bind (sd_Q.mapM hf l) (fun bs => sd_Q.pure _))

theorem sd_Q.optMatch {P : List Frame → Prop} {o : Option (V AType)} {d : V AType}
    (h : ∀ v, o = some v → sd_Q P v) (hd : sd_Q P d) :
    sd_Q P (match (generalizing := false) o with | some v => v | none => d) := by
  cases o with
  | none => exact hd
  | some v => exact h v rfl

section
variable (env : AEnv) {P : List Frame → Prop}

theorem sd_toAbstract (t : MType) (un : Option MType) : sd_Q P (toAbstract env t un) := by
  unfold toAbstract
  dsimp only
  apply sd_Q.optMatch
  · intro v hv
    repeat' split at hv
    all_goals first
      | (injection hv with hv; subst hv; sd_q [sd_toAbstractNoUn, sd_toAbstracts]; done)
      | cases hv
  · exact sd_toAbstractNoUn env t

theorem sd_parseParameter (f : FuncDef) (fid : String) (a : Arg) : sd_Q P (parseParameter env f fid a) := by
  have h1 := fun Q => sd_parameterDocumentation env (P := Q)
  unfold parseParameter
  sd_q [sd_toAbstract, h1, sd_Q.forIn]

theorem sd_parseParameters (f : FuncDef) (fid : String) :
    ∀ (as : List Arg), sd_Q P (parseParameters env f fid as)
  | [] => by
    unfold parseParameters
    sd_q []
  | a :: as => by
    have := sd_parseParameters f fid as
    unfold parseParameters
    sd_q [sd_parseParameter]

theorem sd_parseResults (f : FuncDef) (fid : String) (docs : List ResultDoc) :
    sd_Q P (parseResults env f fid docs) := by
  unfold parseResults
  sd_q [sd_toAbstract]

theorem sd_reconcileParameter (fid : String) (p : Parameter) : sd_Q P (reconcileParameter env fid p) := by
  refine ⟨fun s _ => ?_⟩
  rw [l14_reconcileParameter_run]

theorem sd_reconcileParameters (fid : String) :
    ∀ (ps : List Parameter), sd_Q P (reconcileParameters env fid ps)
  | [] => by
    unfold reconcileParameters
    sd_q []
  | p :: ps => by
    have := sd_reconcileParameters fid ps
    unfold reconcileParameters
    sd_q [sd_reconcileParameter]

theorem sd_reconcileResults (fid : String) (i : Nat) (all rs : List Result) (docs : List ResultDoc) :
    sd_Q P (reconcileResults env fid i all rs docs) := by
  refine ⟨fun s _ => ?_⟩
  rw [l14_reconcileResults_run]

theorem sd_typeParameter (tv : TypeVarInfo) : sd_Q P (typeParameter env tv) := by
  unfold typeParameter
  sd_q [sd_toAbstract, sd_toAbstracts]

theorem sd_typeParameters : ∀ (l : List (Option TypeVarInfo)), sd_Q P (typeParameters env l)
  | [] => by
    unfold typeParameters
    sd_q []
  | none :: _ => by
    unfold typeParameters
    sd_q []
  | some tv :: rest => by
    have := sd_typeParameters rest
    unfold typeParameters
    sd_q [sd_typeParameter]

theorem sd_ctorFullDoc : ∀ (defs : List Def), sd_Q P (ctorFullDoc env defs)
  | [] => by
    unfold ctorFullDoc
    sd_q []
  | .func f :: rest => by
    have := sd_ctorFullDoc rest
    unfold ctorFullDoc
    sd_q [sd_functionDocumentation]
  | .decorator _ :: rest => by
    have := sd_ctorFullDoc rest
    unfold ctorFullDoc
    sd_q []
  | .overloaded _ :: rest => by
    have := sd_ctorFullDoc rest
    unfold ctorFullDoc
    sd_q []
  | .cls .. :: rest => by
    have := sd_ctorFullDoc rest
    unfold ctorFullDoc
    sd_q []
  | .assign _ :: rest => by
    have := sd_ctorFullDoc rest
    unfold ctorFullDoc
    sd_q []
  | .docExpr .. :: rest => by
    have := sd_ctorFullDoc rest
    unfold ctorFullDoc
    sd_q []
  | .other _ :: rest => by
    have := sd_ctorFullDoc rest
    unfold ctorFullDoc
    sd_q []

end


/-! ### attribute creation: the only guarded helper -/

/-- where `_create_attribute` may be called: in a class body, or in the constructor of a class -/
def sd_AttrCtx (st : List Frame) : Prop :=
  (∃ c up, st = .cls c :: up) ∨ (∃ f c up, st = .fn f :: .cls c :: up ∧ (f.name == "__init__") = true)

section
variable (env : AEnv)

theorem sd_createAttributeV (isMember : Bool) (name fullname : String) (isVar : Bool) (var : Option VarInfo)
    (un : Option MType) (isStatic : Bool) :
    sd_Q sd_AttrCtx (createAttributeV env isMember name fullname isVar var un isStatic) := by
  have h1 := fun Q => sd_attributeDocumentation env (P := Q)
  have h2 := fun Q => sd_toAbstract env (P := Q)
  unfold createAttributeV
  sd_q [h1, h2]
  all_goals (apply sd_Q.absurd; intro st hst; subst hst; simp_all [sd_AttrCtx])

theorem sd_createAttributeV' {Q : List Frame → Prop} (hQ : ∀ st, Q st → sd_AttrCtx st)
    (isMember : Bool) (name fullname : String) (isVar : Bool) (var : Option VarInfo) (un : Option MType) (isStatic : Bool) :
    sd_Q Q (createAttributeV env isMember name fullname isVar var un isStatic) :=
  (sd_createAttributeV env isMember name fullname isVar var un isStatic).mono hQ

end

theorem sd_parseAttributes_go {P : List Frame → Prop}
    {one : Bool → String → String → Bool → Option VarInfo → V (List Attribute)}
    (h : ∀ m n fq iv var, sd_Q P (one m n fq iv var)) :
    ∀ (items : List LValue), sd_Q P (parseAttributes.go one items)
  | [] => by
    unfold parseAttributes.go
    sd_q []
  | .name n fq isVar var :: rest => by
    have := sd_parseAttributes_go h rest
    unfold parseAttributes.go
    sd_q [h]
  | .member n fq isVar var :: rest => by
    have := sd_parseAttributes_go h rest
    unfold parseAttributes.go
    sd_q [h]
  | .tuple _ :: rest => by
    have := sd_parseAttributes_go h rest
    unfold parseAttributes.go
    sd_q [h]
  | .other :: rest => by
    have := sd_parseAttributes_go h rest
    unfold parseAttributes.go
    sd_q [h]

section
variable (env : AEnv)

theorem sd_parseAttributes (lv : LValue) (un : Option MType) (isStatic : Bool) :
    sd_Q sd_AttrCtx (parseAttributes env lv un isStatic) := by
  unfold parseAttributes
  dsimp only
  have h : ∀ (m : Bool) (n fq : String) (iv : Bool) (var : Option VarInfo),
      sd_Q sd_AttrCtx (do
          let s ← get
          match attributeAlreadyDefined s n with
            | Except.error e => throwV e
            | Except.ok true => pure []
            | Except.ok false =>
              if (m && !iv) = true then pure []
              else do
                let a ← createAttributeV env m n fq iv var un isStatic
                pure [a] : V (List Attribute)) := by
    intro m n fq iv var
    sd_q [sd_createAttributeV' env]
    all_goals (subst_vars; assumption)
  cases lv with
  | name n fq isVar var => exact h _ _ _ _ _
  | member n fq isVar var => exact h _ _ _ _ _
  | tuple items => exact sd_parseAttributes_go h items
  | other => exact sd_Q.pure _

theorem sd_parseAttributes' {Q : List Frame → Prop} (hQ : ∀ st, Q st → sd_AttrCtx st)
    (lv : LValue) (un : Option MType) (isStatic : Bool) : sd_Q Q (parseAttributes env lv un isStatic) :=
  (sd_parseAttributes env lv un isStatic).mono hQ

theorem sd_enterAssignment_go (a : Assignment) :
    ∀ (lvs : List LValue) (P : List Frame → Prop), sd_Q P (enterAssignment.go env a lvs)
  | [], P => by
    unfold enterAssignment.go
    sd_q []
  | lv :: rest, P => by
    have ih := fun Q => sd_enterAssignment_go a rest Q
    unfold enterAssignment.go
    sd_q [sd_parseAttributes' env, ih]
    all_goals (subst_vars; simp_all [sd_AttrCtx])

end


/-! ### kinds of frames; what `enter_*` and `leave_*` do to the stack -/

inductive FK where
  | module | cls | fn | enum | assigns
  deriving DecidableEq, Repr

def kindOf : Frame → FK
  | .module _ => .module
  | .cls _ => .cls
  | .fn _ => .fn
  | .enum _ => .enum
  | .assigns _ => .assigns

/-- the kinds of the frames of a declaration stack, top first -/
def sd_shape (st : List Frame) : List FK := st.map kindOf

/-- `x` raises no `AssertionError` and pushes exactly one frame of kind `k` -/
structure sd_Push {α : Type} (P : List Frame → Prop) (k : FK) (x : V α) : Prop where
  run : ∀ s : VSt, P s.stack →
    match x s with
    | .error e => e ≠ PyErr.assertionError
    | .ok (_, t) => ∃ fr, kindOf fr = k ∧ t.stack = fr :: s.stack

namespace sd_Push
variable {α β : Type} {P : List Frame → Prop} {k : FK}

theorem throw {e : PyErr} (h : e ≠ .assertionError) : sd_Push P k (throwV e : V α) := ⟨fun _ _ => h⟩

theorem bind_q {x : V α} {f : α → V β} (hx : sd_Q P x) (hf : ∀ a, sd_Push P k (f a)) : sd_Push P k (x >>= f) := by
  refine ⟨fun s hs => ?_⟩
  have h := hx.run s hs
  simp only [Bind.bind, StateT.bind, Except.bind]
  revert h
  cases x s with
  | error e => exact fun h => h
  | ok r =>
    obtain ⟨a, t⟩ := r
    intro ht
    have h2 := (hf a).run t (by rw [ht]; exact hs)
    revert h2
    dsimp only
    cases f a t with
    | error e => exact fun h => h
    | ok r' =>
      obtain ⟨b, t'⟩ := r'
      rintro ⟨fr, hk, hfr⟩
      exact ⟨fr, hk, by rw [hfr, ht]⟩

theorem get_bind {f : VSt → V β} (hf : ∀ s0, P s0.stack → sd_Push (fun st => st = s0.stack) k (f s0)) :
    sd_Push P k (get >>= f) :=
  ⟨fun s hs => (hf s hs).run s rfl⟩

theorem modify {g : VSt → VSt} (hg : ∀ s, ∃ fr, kindOf fr = k ∧ (g s).stack = fr :: s.stack) :
    sd_Push P k (modify g : V PUnit) :=
  ⟨fun s _ => hg s⟩

theorem ite {c : Prop} {d : Decidable c} {x y : V α} (h1 : c → sd_Push P k x) (h2 : ¬c → sd_Push P k y) :
    sd_Push P k (@_root_.ite _ c d x y) := by
  by_cases h : c
  · rw [if_pos h]; exact h1 h
  · rw [if_neg h]; exact h2 h

end sd_Push

open Lean in
macro "sd_push" "[" ls:term,* "]" : tactic => do
  let alts ← ls.getElems.mapM fun l => `(tacticSeq| apply $l)
  `(tactic| repeat' (first
      | with_reducible exact sd_Q.pure _
      | with_reducible exact sd_Q.warn _
      | with_reducible assumption
      | ((with_reducible apply sd_Q.throw); first
          | decide
          | (apply sd_isPublicV_err; assumption)
          | (apply sd_findAlias_err; assumption)
          | (apply sd_argumentKind_err; assumption)
          | (apply sd_varianceOf_err; assumption)
          | (apply sd_lvalueNames_err; assumption)
          | (apply sd_attributeAlreadyDefined_err; assumption)
          | (apply sd_exprToType_err; assumption)
          | (apply sd_inferFromReturns_err; assumption)
          | (apply sd_createInferredResults_err; assumption))
      | ((with_reducible apply sd_Push.throw); first
          | decide
          | (apply sd_isPublicV_err; assumption)
          | (apply sd_findAlias_err; assumption))
      | ((with_reducible apply sd_Q.modify); intro _; rfl)
      | ((with_reducible apply sd_Push.modify); intro _; exact ⟨_, rfl, rfl⟩)
      | ((with_reducible apply sd_Q.get_bind); intro _ _)
      | ((with_reducible apply sd_Push.get_bind); intro _ _)
      $[| with_reducible $alts:tacticSeq]*
      | with_reducible apply sd_Q.bind
      | with_reducible apply sd_Push.bind_q
      | with_reducible apply sd_Q.ite
      | with_reducible apply sd_Push.ite
      | intro _
      | split))

section
variable (env : AEnv) {P : List Frame → Prop}

theorem sd_enterFuncdef (f : FuncDef) : sd_Push P .fn (enterFuncdef env f) := by
  have h1 := fun Q => sd_functionDocumentation env (P := Q)
  have h2 := fun Q => sd_parseParameters env (P := Q)
  have h3 := fun Q => sd_reconcileParameters env (P := Q)
  have h4 := fun Q => sd_resultDocumentation env (P := Q)
  have h5 := fun Q => sd_parseResults env (P := Q)
  have h6 := fun Q => sd_reconcileResults env (P := Q)
  unfold enterFuncdef
  sd_push [h1, h2, h3, h4, h5, h6]

theorem sd_enterAssignment (a : Assignment) : sd_Push P .assigns (enterAssignment env a) := by
  have h1 := fun Q => sd_enterAssignment_go env a a.lvalues Q
  unfold enterAssignment
  sd_push [h1]

theorem sd_enterClassdef (name fullname : String) (bases removed : List BaseExpr) (defs : List Def) :
    sd_Push P .cls (enterClassdef env name fullname bases removed defs) := by
  have h1 := fun Q => sd_classDocumentation env (P := Q)
  have h2 := fun Q => sd_typeParameters env (P := Q)
  have h3 := fun Q => sd_ctorFullDoc env (P := Q)
  unfold enterClassdef
  sd_push [h1, h2, h3, sd_Q.mapM]

theorem sd_enterEnumdef (name fullname : String) (defs : List Def) :
    sd_Push P .enum (enterEnumdef env name fullname defs) := by
  have h1 := fun Q => sd_classDocumentation env (P := Q)
  unfold enterEnumdef
  sd_push [h1]

theorem sd_enterModuledef (m : SrcModule) : sd_Push P .module (enterModuledef m) := by
  unfold enterModuledef
  sd_push []

end


/-! ### `leave_*`: pops the frame its `enter_*` pushed, keeps the kinds below -/

/-- `x` raises no `AssertionError` and pops the top frame; the kinds of the frames below stay -/
structure sd_Pop {α : Type} (P : List Frame → Prop) (x : V α) : Prop where
  run : ∀ s : VSt, P s.stack →
    match x s with
    | .error e => e ≠ PyErr.assertionError
    | .ok (_, t) => sd_shape t.stack = (sd_shape s.stack).tail

namespace sd_Pop
variable {α β : Type} {P : List Frame → Prop}

theorem absurd {x : V α} (h : ∀ st, ¬ P st) : sd_Pop P x := ⟨fun s hs => (h _ hs).elim⟩

theorem bind_q {x : V α} {f : α → V β} (hx : sd_Q P x) (hf : ∀ a, sd_Pop P (f a)) : sd_Pop P (x >>= f) := by
  refine ⟨fun s hs => ?_⟩
  have h := hx.run s hs
  simp only [Bind.bind, StateT.bind, Except.bind]
  revert h
  cases x s with
  | error e => exact fun h => h
  | ok r =>
    obtain ⟨a, t⟩ := r
    intro ht
    have h2 := (hf a).run t (by rw [ht]; exact hs)
    revert h2
    dsimp only
    cases f a t with
    | error e => exact fun h => h
    | ok r' =>
      obtain ⟨b, t'⟩ := r'
      intro h
      dsimp only at h ht ⊢
      rw [h, ht]

theorem get_bind {f : VSt → V β} (hf : ∀ s0, P s0.stack → sd_Pop (fun st => st = s0.stack) (f s0)) :
    sd_Pop P (get >>= f) :=
  ⟨fun s hs => (hf s hs).run s rfl⟩

theorem set {t : VSt} (ht : ∀ st, P st → sd_shape t.stack = (sd_shape st).tail) : sd_Pop P (set t : V PUnit) :=
  ⟨fun s hs => ht _ hs⟩

end sd_Pop

theorem sd_foldl_shape {ι : Type} (step : AnaResult × List Frame → ι → AnaResult × List Frame)
    (h : ∀ x i, sd_shape (step x i).2 = sd_shape x.2) :
    ∀ (items : List ι) (x : AnaResult × List Frame), sd_shape (items.foldl step x).2 = sd_shape x.2
  | [], _ => rfl
  | i :: items, x => by
    rw [List.foldl_cons, sd_foldl_shape step h items, h]

def sd_TopFn (st : List Frame) : Prop := ∃ f rest, st = Frame.fn f :: rest
def sd_TopCls (st : List Frame) : Prop := ∃ c rest, st = Frame.cls c :: rest
def sd_TopEnum (st : List Frame) : Prop := ∃ e rest, st = Frame.enum e :: rest
def sd_TopModule (st : List Frame) : Prop := ∃ m rest, st = Frame.module m :: rest
/-- an assignment frame on top of a class, a function or an enum -/
def sd_TopAssign (st : List Frame) : Prop :=
  ∃ items parent up, st = Frame.assigns items :: parent :: up ∧
    (kindOf parent = .cls ∨ kindOf parent = .fn ∨ kindOf parent = .enum)

theorem sd_leaveFuncdef : sd_Pop sd_TopFn leaveFuncdef := by
  unfold leaveFuncdef
  refine sd_Pop.get_bind (fun s0 hP => ?_)
  obtain ⟨f, rest, hs⟩ := hP
  rw [hs]
  dsimp only
  cases rest with
  | nil => exact sd_Pop.set (fun st h => by subst h; rfl)
  | cons parent up =>
    dsimp only
    refine sd_Pop.set (fun st h => ?_)
    subst h
    cases parent <;> first | rfl | (simp only [sd_shape, List.map_cons, List.tail_cons]; split <;> rfl)

theorem sd_leaveClassdef : sd_Pop sd_TopCls leaveClassdef := by
  unfold leaveClassdef
  refine sd_Pop.get_bind (fun s0 hP => ?_)
  obtain ⟨c, rest, hs⟩ := hP
  rw [hs]
  dsimp only
  split <;> exact sd_Pop.set (fun st h => by subst h; rfl)

theorem sd_leaveEnumdef : sd_Pop sd_TopEnum leaveEnumdef := by
  unfold leaveEnumdef
  refine sd_Pop.get_bind (fun s0 hP => ?_)
  obtain ⟨c, rest, hs⟩ := hP
  rw [hs]
  dsimp only
  split <;> exact sd_Pop.set (fun st h => by subst h; rfl)

theorem sd_leaveModuledef : sd_Pop sd_TopModule leaveModuledef := by
  unfold leaveModuledef
  refine sd_Pop.get_bind (fun s0 hP => ?_)
  obtain ⟨c, rest, hs⟩ := hP
  rw [hs]
  dsimp only
  exact sd_Pop.set (fun st h => by subst h; rfl)

theorem sd_leaveAssignment : sd_Pop sd_TopAssign leaveAssignment := by
  unfold leaveAssignment
  refine sd_Pop.get_bind (fun s0 hP => ?_)
  obtain ⟨items, parent, up, hs, hk⟩ := hP
  rw [hs]
  dsimp only
  have closer : ∀ (p : Frame) (t : VSt),
      sd_shape t.stack = sd_shape (p :: up) →
      sd_Pop (fun st => st = Frame.assigns items :: p :: up) (set t : V PUnit) := by
    intro p t ht
    refine sd_Pop.set (fun st h => ?_)
    subst h
    exact ht
  have hstep : ∀ (x : AnaResult × List Frame) (i : AssignItem), sd_shape ((fun (st : AnaResult × List Frame) (i : AssignItem) =>
      match i with
      | .attr a =>
        (match st.2 with
          | .fn f :: .cls c :: up' =>
            ({ st.1 with attributes := dictSet (·.id) st.1.attributes a }, Frame.fn f :: .cls { c with attributes := c.attributes ++ [a] } :: up')
          | .cls c :: up' =>
            ({ st.1 with attributes := dictSet (·.id) st.1.attributes a }, Frame.cls { c with attributes := c.attributes ++ [a] } :: up')
          | fr => (st.1, fr))
      | .inst e =>
        (match st.2 with
          | .enum en :: up' =>
            ({ st.1 with enumInstances := dictSet (·.id) st.1.enumInstances e }, Frame.enum { en with instances := en.instances ++ [e] } :: up')
          | fr => (st.1, fr))) x i).2 = sd_shape x.2 := by
    intro x i
    obtain ⟨A, fr⟩ := x
    cases i <;> (dsimp only; split <;> rfl)
  cases parent with
  | module m => simp [kindOf] at hk
  | assigns _ => simp [kindOf] at hk
  | cls c =>
    dsimp only
    refine sd_Pop.bind_q (sd_Q.pure _) (fun _ => closer _ _ ?_)
    exact sd_foldl_shape _ hstep items (s0.api, Frame.cls c :: up)
  | enum e =>
    dsimp only
    refine sd_Pop.bind_q (sd_Q.pure _) (fun _ => closer _ _ ?_)
    exact sd_foldl_shape _ hstep items (s0.api, Frame.enum e :: up)
  | fn f =>
    dsimp only
    refine sd_Pop.bind_q ?_ (fun _ => closer _ _ ?_)
    · sd_q []
    · exact sd_foldl_shape _ hstep items (s0.api, Frame.fn f :: up)


/-! ### the walker: every enter is matched by its leave, and every guard holds -/

/-- run from a stack whose kinds satisfy `P`, `x` raises no `AssertionError` and leaves the kinds of the stack as they are -/
structure sd_Bal {α : Type} (P : List FK → Prop) (x : V α) : Prop where
  run : ∀ s : VSt, P (sd_shape s.stack) →
    match x s with
    | .error e => e ≠ PyErr.assertionError
    | .ok (_, t) => sd_shape t.stack = sd_shape s.stack

namespace sd_Bal
variable {α β : Type} {P : List FK → Prop}

theorem pure (a : α) : sd_Bal P (Pure.pure a : V α) := ⟨fun _ _ => rfl⟩

theorem mono {Q : List FK → Prop} {x : V α} (hx : sd_Bal P x) (h : ∀ sh, Q sh → P sh) : sd_Bal Q x :=
  ⟨fun s hs => hx.run s (h _ hs)⟩

theorem bind {x : V α} {f : α → V β} (hx : sd_Bal P x) (hf : ∀ a, sd_Bal P (f a)) : sd_Bal P (x >>= f) := by
  refine ⟨fun s hs => ?_⟩
  have h := hx.run s hs
  simp only [Bind.bind, StateT.bind, Except.bind]
  revert h
  cases x s with
  | error e => exact fun h => h
  | ok r =>
    obtain ⟨a, t⟩ := r
    intro ht
    dsimp only at ht
    have h2 := (hf a).run t (by rw [ht]; exact hs)
    revert h2
    dsimp only
    cases f a t with
    | error e => exact fun h => h
    | ok r' =>
      obtain ⟨b, t'⟩ := r'
      intro h
      dsimp only at h ⊢
      rw [h, ht]

theorem ite {c : Prop} {d : Decidable c} {x y : V α} (h1 : c → sd_Bal P x) (h2 : ¬c → sd_Bal P y) :
    sd_Bal P (@_root_.ite _ c d x y) := by
  by_cases h : c
  · rw [if_pos h]; exact h1 h
  · rw [if_neg h]; exact h2 h

theorem forIn {ι : Type} {f : ι → PUnit → V (ForInStep PUnit)} (hf : ∀ a b, sd_Bal P (f a b)) :
    ∀ (l : List ι) (b : PUnit), sd_Bal P (forIn l b f)
  | [], b => by
    rw [List.forIn_nil]
    exact sd_Bal.pure _
  | a :: l, b => by
    rw [List.forIn_cons]
    refine sd_Bal.bind (hf a b) (fun r => ?_)
    cases r with
    | done b' => exact sd_Bal.pure _
    | yield b' => exact sd_Bal.forIn hf l b'

/-- `enter; body; leave` -/
theorem bracket {γ δ : Type} {enter : V α} {body : V γ} {leave : V δ} {k : FK} {P' : List FK → Prop}
    {L : List Frame → Prop}
    (he : sd_Push (fun _ => True) k enter)
    (hb : sd_Bal P' body)
    (hP' : ∀ sh, P sh → P' (k :: sh))
    (hl : sd_Pop L leave)
    (hL : ∀ st sh, sd_shape st = k :: sh → P sh → L st) :
    sd_Bal P (enter >>= fun _ => body >>= fun _ => leave) := by
  refine ⟨fun s hs => ?_⟩
  have h1 := he.run s trivial
  simp only [Bind.bind, StateT.bind, Except.bind]
  revert h1
  cases enter s with
  | error e => exact fun h => h
  | ok r =>
    obtain ⟨a, t1⟩ := r
    rintro ⟨fr, hk, ht1⟩
    have hsh1 : sd_shape t1.stack = k :: sd_shape s.stack := by rw [ht1]; simp [sd_shape, hk]
    have h2 := hb.run t1 (by rw [hsh1]; exact hP' _ hs)
    revert h2
    dsimp only
    cases body t1 with
    | error e => exact fun h => h
    | ok r2 =>
      obtain ⟨c, t2⟩ := r2
      intro ht2
      dsimp only at ht2
      have hsh2 : sd_shape t2.stack = k :: sd_shape s.stack := by rw [ht2, hsh1]
      have h3 := hl.run t2 (hL _ _ hsh2 hs)
      revert h3
      dsimp only
      cases leave t2 with
      | error e => exact fun h => h
      | ok r3 =>
        obtain ⟨d, t3⟩ := r3
        intro h
        dsimp only at h ⊢
        rw [h, hsh2]
        rfl

/-- `enter; leave` -/
theorem bracket0 {δ : Type} {enter : V α} {leave : V δ} {k : FK} {L : List Frame → Prop}
    (he : sd_Push (fun _ => True) k enter)
    (hl : sd_Pop L leave)
    (hL : ∀ st sh, sd_shape st = k :: sh → P sh → L st) :
    sd_Bal P (enter >>= fun _ => leave) := by
  have h := bracket (P := P) (P' := fun _ => True) (body := (Pure.pure () : V Unit)) he (sd_Bal.pure _)
    (fun _ _ => trivial) hl hL
  refine ⟨fun s hs => ?_⟩
  have := h.run s hs
  simpa [Bind.bind, StateT.bind, Except.bind, Pure.pure, StateT.pure, Except.pure] using this

end sd_Bal

def sd_topIn (ks : List FK) (sh : List FK) : Prop := ∃ k rest, sh = k :: rest ∧ k ∈ ks

section
variable (env : AEnv)

theorem sd_walkAssignment (a : Assignment) : sd_Bal (sd_topIn [.cls, .fn, .enum]) (walkAssignment env a) := by
  unfold walkAssignment
  have h := sd_Bal.bracket (P := sd_topIn [.cls, .fn, .enum]) (P' := fun _ => True) (body := (Pure.pure () : V Unit))
    (sd_enterAssignment env a) (sd_Bal.pure _) (fun _ _ => trivial) sd_leaveAssignment
    (by
      intro st sh hst hP
      obtain ⟨k, rest, rfl, hk⟩ := hP
      rcases st with _ | ⟨fr, _ | ⟨parent, up⟩⟩
      · simp [sd_shape] at hst
      · simp [sd_shape] at hst
      · simp only [sd_shape, List.map_cons, List.cons.injEq] at hst
        obtain ⟨h1, h2, _⟩ := hst
        cases fr <;> simp [kindOf] at h1
        refine ⟨_, parent, up, rfl, ?_⟩
        rw [h2]
        simp at hk
        rcases hk with rfl | rfl | rfl <;> simp)
  refine ⟨fun s hs => ?_⟩
  have := h.run s hs
  simpa [Bind.bind, StateT.bind, Except.bind, Pure.pure, StateT.pure, Except.pure] using this

end


theorem sd_topFn_of_shape (st : List Frame) (sh : List FK) (h : sd_shape st = .fn :: sh) : sd_TopFn st := by
  rcases st with _ | ⟨fr, rest⟩
  · simp [sd_shape] at h
  · simp only [sd_shape, List.map_cons, List.cons.injEq] at h
    cases fr <;> simp [kindOf] at h
    exact ⟨_, _, rfl⟩

theorem sd_topCls_of_shape (st : List Frame) (sh : List FK) (h : sd_shape st = .cls :: sh) : sd_TopCls st := by
  rcases st with _ | ⟨fr, rest⟩
  · simp [sd_shape] at h
  · simp only [sd_shape, List.map_cons, List.cons.injEq] at h
    cases fr <;> simp [kindOf] at h
    exact ⟨_, _, rfl⟩

theorem sd_topEnum_of_shape (st : List Frame) (sh : List FK) (h : sd_shape st = .enum :: sh) : sd_TopEnum st := by
  rcases st with _ | ⟨fr, rest⟩
  · simp [sd_shape] at h
  · simp only [sd_shape, List.map_cons, List.cons.injEq] at h
    cases fr <;> simp [kindOf] at h
    exact ⟨_, _, rfl⟩

theorem sd_topModule_of_shape (st : List Frame) (sh : List FK) (h : sd_shape st = .module :: sh) : sd_TopModule st := by
  rcases st with _ | ⟨fr, rest⟩
  · simp [sd_shape] at h
  · simp only [sd_shape, List.map_cons, List.cons.injEq] at h
    cases fr <;> simp [kindOf] at h
    exact ⟨_, _, rfl⟩

section
variable (env : AEnv)

theorem sd_walkFunc (f : FuncDef) {P : List FK → Prop} : sd_Bal P (walkFunc env f) := by
  unfold walkFunc
  by_cases hc : (f.name == "__init__") = true
  · simp only [hc, if_true]
    refine sd_Bal.bracket (P' := sd_topIn [.cls, .fn, .enum]) (sd_enterFuncdef env f) ?_
      (fun sh _ => ⟨_, _, rfl, by simp⟩) sd_leaveFuncdef (fun st sh h _ => sd_topFn_of_shape st sh h)
    apply sd_Bal.forIn
    intro a b
    exact sd_Bal.bind (sd_walkAssignment env a) (fun _ => sd_Bal.pure _)
  · simp only [hc, Bool.false_eq_true, if_false]
    exact sd_Bal.bracket0 (sd_enterFuncdef env f) sd_leaveFuncdef (fun st sh h _ => sd_topFn_of_shape st sh h)

end

/-! the node `None` of an `OverloadedFuncDef` without items cannot come out of mypy; the walker's "Node visited twice"
guard is the only `AssertionError` the model can raise, and only on such input -/
mutual
def sd_noNone : Def → Bool
  | .overloaded none => false
  | .cls _ _ _ _ defs => sd_noNoneL defs
  | _ => true
def sd_noNoneL : List Def → Bool
  | [] => true
  | d :: ds => sd_noNone d && sd_noNoneL ds
end

/-- what the walker guarantees about the top of the stack when it walks the children of a node -/
def sd_ModeOk : WalkMode → List FK → Prop
  | .module, _ => True
  | .cls, sh => sd_topIn [.cls] sh
  | .enum, sh => sd_topIn [.enum] sh

theorem sd_modeOk_assign (mode : WalkMode) (hm : mode ≠ .module) (sh : List FK) (h : sd_ModeOk mode sh) :
    sd_topIn [.cls, .fn, .enum] sh := by
  cases mode with
  | module => exact (hm rfl).elim
  | cls => obtain ⟨k, rest, rfl, hk⟩ := h; exact ⟨k, rest, rfl, by simp at hk; simp [hk]⟩
  | enum => obtain ⟨k, rest, rfl, hk⟩ := h; exact ⟨k, rest, rfl, by simp at hk; simp [hk]⟩

mutual
theorem sd_walkDef (env : AEnv) (mode : WalkMode) :
    (d : Def) → sd_noNone d = true → sd_Bal (sd_ModeOk mode) (walkDef env mode d)
  | .func f, _ => by
    unfold walkDef
    split
    · exact sd_Bal.pure _
    · exact sd_walkFunc env f
  | .decorator f, _ => by
    unfold walkDef
    split
    · exact sd_Bal.pure _
    · exact sd_walkFunc env f
  | .overloaded (some f), _ => by
    unfold walkDef
    split
    · exact sd_Bal.pure _
    · exact sd_walkFunc env f
  | .overloaded none, h => by simp [sd_noNone] at h
  | .cls name fullname bases removed defs, h => by
    have hd : sd_noNoneL defs = true := by simpa [sd_noNone] using h
    have h1 := sd_walkDefs env .enum defs hd
    have h2 := sd_walkDefs env .cls defs hd
    unfold walkDef
    split
    · exact sd_Bal.pure _
    · split
      · exact sd_Bal.bracket (sd_enterEnumdef env name fullname defs) h1 (fun sh _ => ⟨_, _, rfl, by simp⟩)
          sd_leaveEnumdef (fun st sh h _ => sd_topEnum_of_shape st sh h)
      · exact sd_Bal.bracket (sd_enterClassdef env name fullname bases removed defs) h2 (fun sh _ => ⟨_, _, rfl, by simp⟩)
          sd_leaveClassdef (fun st sh h _ => sd_topCls_of_shape st sh h)
  | .assign a, _ => by
    unfold walkDef
    split
    · exact sd_Bal.pure _
    · rename_i hm
      exact (sd_walkAssignment env a).mono (sd_modeOk_assign mode (by intro e; subst e; simp at hm))
  | .docExpr _ _, _ => by
    unfold walkDef
    exact sd_Bal.pure _
  | .other _, _ => by
    unfold walkDef
    exact sd_Bal.pure _
theorem sd_walkDefs (env : AEnv) (mode : WalkMode) :
    (ds : List Def) → sd_noNoneL ds = true → sd_Bal (sd_ModeOk mode) (walkDefs env mode ds)
  | [], _ => by
    unfold walkDefs
    exact sd_Bal.pure _
  | d :: ds, h => by
    have hd : sd_noNone d = true ∧ sd_noNoneL ds = true := by simpa [sd_noNoneL] using h
    have h1 := sd_walkDef env mode d hd.1
    have h2 := sd_walkDefs env mode ds hd.2
    unfold walkDefs
    exact sd_Bal.bind h1 (fun _ => h2)
end

section
variable (env : AEnv)

theorem sd_walkModule (m : SrcModule) (h : sd_noNoneL m.defs = true) {P : List FK → Prop} :
    sd_Bal P (walkModule env m) := by
  unfold walkModule
  refine sd_Bal.bind (P := P) ⟨fun s _ => rfl⟩ (fun _ => ?_)
  exact sd_Bal.bracket (sd_enterModuledef m) (sd_walkDefs env .module m.defs h) (fun _ _ => trivial)
    sd_leaveModuledef (fun st sh h _ => sd_topModule_of_shape st sh h)

theorem sd_walkModules {P : List FK → Prop} :
    ∀ (ms : List SrcModule), (∀ m ∈ ms, sd_noNoneL m.defs = true) → sd_Bal P (walkModules env ms)
  | [], _ => by
    unfold walkModules
    exact sd_Bal.pure _
  | m :: ms, h => by
    have h1 := sd_walkModule env m (h m (by simp)) (P := P)
    have h2 := sd_walkModules (P := P) ms (fun x hx => h x (by simp [hx]))
    unfold walkModules
    exact sd_Bal.bind h1 (fun _ => h2)

/-- THE ANALYSIS NEVER TRIPS ONE OF ITS OWN GUARDS: for every environment, docstring tree and list of modules (without
    the impossible `None` node) the analysis does not end in an `AssertionError`. -/
theorem sd_analyze_no_assertion (docRoot : GNode) (ms : List SrcModule)
    (h : ∀ m ∈ ms, sd_noNoneL m.defs = true) :
    analyze env docRoot ms ≠ .error .assertionError := by
  unfold analyze
  have := (sd_walkModules env (P := fun _ => True) ms h).run
    { doc := { root := docRoot, style := env.opts.style } } trivial
  revert this
  dsimp only [StateT.run]
  cases walkModules env ms { doc := { root := docRoot, style := env.opts.style } } with
  | error e => intro h1 h2; injection h2 with h2; exact h1 h2
  | ok r => intro _ h2; cases h2

end

end StubGen
