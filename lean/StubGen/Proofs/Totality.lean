/-
Helper lemmas for `StubGen.Theorems.C01` (the generator never raises on `Spec.Scope01` APIs).

* `o01_Safe P x`: total correctness of a `G` computation relative to the state invariant `o01_Inv P`
  ("every pending TODO key satisfies `P.pT`, every outside-package class path satisfies `P.pO`, every
  queued re-export node satisfies `P.pN`"): from every state satisfying the invariant, `x` returns
  normally in a state satisfying the invariant.  The predicates are parameters, so that the same
  lemmas give totality for *all* states (`o01_PTriv`), totality under "every pending key has a message"
  (`o01_PTodo`) and the full invariant of a generator run (`o01_PFull`).
* the tactic `o01_safe [lemmas]` walks through a `do` block.
* `…_safe` for every function of the generator, bottom-up; the fuel-indexed class rendering follows
  the fuel-indexed check `Spec.classOk`.
All names are prefixed `o01_`.
-/
import StubGen.Spec.Scope01
import StubGen.Proofs.TypeText
import StubGen.Proofs.Markers
import StubGen.Proofs.Files

namespace StubGen

open List

/-! ### invariant and total-correctness predicate -/

structure o01_Preds where
  pT : String → Prop
  pO : String → Prop
  pN : Node → Prop

/-- the key has a message in the generator's table -/
@[reducible] def o01_hasMsg (k : String) : Prop := (assocGet? Generated.todoMessages k).isSome = true

/-- the class path can be split into a module path and a class name -/
@[reducible] def o01_dotted (q : String) : Prop := '.' ∈ q.toList

structure o01_Inv (P : o01_Preds) (s : St) : Prop where
  todos : ∀ k ∈ s.todos, P.pT k
  outside : ∀ q ∈ s.outside, P.pO q
  reexports : ∀ kv ∈ s.reexports, ∀ n ∈ kv.2, P.pN n

/-- the invariant admits every key of the message table and every dotted class path -/
structure o01_Good (P : o01_Preds) : Prop where
  keys : ∀ k, o01_hasMsg k → P.pT k
  dots : ∀ q, o01_dotted q → P.pO q

/-- the invariant admits only keys of the message table (needed where markers are flushed) -/
def o01_Flush (P : o01_Preds) : Prop := ∀ k, P.pT k → o01_hasMsg k

/-- from every state satisfying the invariant, `x` returns normally in such a state -/
structure o01_Safe (P : o01_Preds) {α : Type} (x : G α) : Prop where
  run : ∀ s, o01_Inv P s → ∃ a s', x s = .ok (a, s') ∧ o01_Inv P s'

namespace o01_Safe
variable {α β : Type} {P : o01_Preds}

theorem pure (a : α) : o01_Safe P (Pure.pure a : G α) := ⟨fun s h => ⟨a, s, rfl, h⟩⟩

theorem bind {x : G α} {f : α → G β} (hx : o01_Safe P x) (hf : ∀ a, o01_Safe P (f a)) :
    o01_Safe P (x >>= f) := by
  refine ⟨fun s h => ?_⟩
  obtain ⟨a, s1, h1, hI⟩ := hx.run s h
  obtain ⟨b, s2, h2, hI2⟩ := (hf a).run s1 hI
  refine ⟨b, s2, ?_, hI2⟩
  rw [bind_apply, h1]
  exact h2

/-- `get` followed by a continuation that is safe whatever state it was handed -/
theorem get_bind {f : St → G β} (hf : ∀ s, o01_Safe P (f s)) : o01_Safe P (get >>= f) := by
  refine ⟨fun s h => ?_⟩
  obtain ⟨b, s2, h2, hI2⟩ := (hf s).run s h
  refine ⟨b, s2, ?_, hI2⟩
  rw [bind_apply]
  exact h2

/-- `get` followed by a continuation, knowing that the state handed over is the current one -/
theorem get_bind_at {f : St → G β}
    (hf : ∀ s, o01_Inv P s → ∃ b s', f s s = .ok (b, s') ∧ o01_Inv P s') : o01_Safe P (get >>= f) := by
  refine ⟨fun s h => ?_⟩
  obtain ⟨b, s2, h2, hI2⟩ := hf s h
  refine ⟨b, s2, ?_, hI2⟩
  rw [bind_apply]
  exact h2

theorem modify {g : St → St} (hg : ∀ s, o01_Inv P s → o01_Inv P (g s)) :
    o01_Safe P (modify g : G PUnit) := ⟨fun s h => ⟨⟨⟩, g s, rfl, hg s h⟩⟩

theorem addTodo {k : String} (hk : P.pT k) : o01_Safe P (addTodo k) := by
  unfold StubGen.addTodo
  refine modify fun s h => ⟨?_, h.outside, h.reexports⟩
  intro k' hk'
  rcases (mem_insertSet_mk _ _ _).1 hk' with h' | rfl
  · exact h.todos k' h'
  · exact hk

theorem logEmit (kind id : String) : o01_Safe P (logEmit kind id) := by
  unfold StubGen.logEmit
  exact modify fun s h => ⟨h.todos, h.outside, h.reexports⟩

theorem of_eq {x y : G α} (h : x = y) (hy : o01_Safe P y) : o01_Safe P x := h ▸ hy

end o01_Safe

open Lean in
/-- walk through a `do` block: `pure`, `logEmit`, `addTodo` with a literal key, state updates that leave
    `todos`/`outside`/`reexports` alone, `get`, the lemmas given, `bind`, case splits -/
macro "o01_safe" "[" ls:term,* "]" : tactic => do
  let alts ← ls.getElems.mapM fun l => `(tacticSeq| apply $l)
  `(tactic| repeat' (first
      | with_reducible exact o01_Safe.pure _
      | with_reducible exact o01_Safe.logEmit _ _
      | with_reducible assumption
      | ((with_reducible apply o01_Safe.addTodo); exact (o01_Good.keys ‹_› _ (by decide)))
      | ((with_reducible apply o01_Safe.modify); intro _ h; exact ⟨h.1, h.2, h.3⟩)
      | ((with_reducible apply o01_Safe.get_bind); intro _)
      $[| with_reducible $alts:tacticSeq]*
      | with_reducible apply o01_Safe.bind
      | intro _
      | split
      | dsimp only))

/-! ### the three instances of the invariant -/

/-- no constraint: totality from all states -/
def o01_PTriv : o01_Preds := ⟨fun _ => True, fun _ => True, fun _ => True⟩
/-- every pending key has a message -/
def o01_PTodo : o01_Preds := ⟨o01_hasMsg, fun _ => True, fun _ => True⟩

theorem o01_PTriv_good : o01_Good o01_PTriv := ⟨fun _ _ => trivial, fun _ _ => trivial⟩
theorem o01_PTodo_good : o01_Good o01_PTodo := ⟨fun _ h => h, fun _ _ => trivial⟩
theorem o01_PTodo_flush : o01_Flush o01_PTodo := fun _ h => h

theorem o01_inv_triv (s : St) : o01_Inv o01_PTriv s :=
  ⟨fun _ _ => trivial, fun _ _ => trivial, fun _ _ _ _ => trivial⟩

theorem o01_inv_todo {s : St} (h : ∀ k ∈ s.todos, o01_hasMsg k) : o01_Inv o01_PTodo s :=
  ⟨h, fun _ _ => trivial, fun _ _ _ _ => trivial⟩

/-- totality from all states -/
theorem o01_Safe.total {α : Type} {x : G α} (h : o01_Safe o01_PTriv x) (s : St) :
    ∃ a s', x s = .ok (a, s') := by
  obtain ⟨a, s', h1, _⟩ := h.run s (o01_inv_triv s)
  exact ⟨a, s', h1⟩

/-! ### leaves -/

section Leaves
variable {P : o01_Preds}

theorem o01_setModuleId_safe (id : String) : o01_Safe P (setModuleId id) := by
  unfold setModuleId
  refine o01_Safe.modify fun s h => ?_
  split <;> exact ⟨h.1, h.2, h.3⟩

/-- a class path with at least two dot-segments contains a dot -/
theorem o01_dotted_of_length {q : String} (h : (splitDot q).length ≠ 1) : o01_dotted q := by
  by_contra hn
  have h0 := (dropLast'_splitDot_eq_nil q).2 hn
  have hne : splitDot q ≠ [] := pySplit_ne_nil '.' q
  match hq : splitDot q with
  | [] => exact hne hq
  | [_] => rw [hq] at h; exact h rfl
  | a :: b :: r => rw [hq] at h0; simp [dropLast'] at h0

theorem o01_inv_ite {a b : St} {c : Prop} [Decidable c] (ha : o01_Inv P a) (hb : o01_Inv P b) :
    o01_Inv P (if c then a else b) := by
  split <;> assumption

theorem o01_inv_imports {s : St} (x : List String) (h : o01_Inv P s) : o01_Inv P { s with imports := x } :=
  ⟨h.1, h.2, h.3⟩

theorem o01_inv_outside {s : St} {q : String} (hq : P.pO q) (h : o01_Inv P s) :
    o01_Inv P { s with outside := insertSet q s.outside } := by
  refine ⟨h.1, ?_, h.3⟩
  intro o ho
  rcases (mem_insertSet_mk _ _ _).1 ho with h' | rfl
  · exact h.outside o h'
  · exact hq

theorem o01_addToImports_safe (hG : o01_Good P) (env : Env) (q : String) (hq : q ≠ "") :
    o01_Safe P (addToImports env q) := by
  unfold addToImports
  extract_lets parts path found jp
  rw [if_neg (by simpa using hq)]
  simp only [jp]
  split
  · exact o01_Safe.pure _
  · split
    · exact o01_Safe.pure _
    · rename_i hlen
      have hd : P.pO q := hG.dots q (o01_dotted_of_length (by simpa using hlen))
      refine o01_Safe.get_bind_at fun s h => ?_
      split
      · refine ⟨⟨⟩, _, rfl, ?_⟩
        clear_value found
        clear jp
        have he : ("" != "") = false := by decide
        cases found with
        | none =>
          simp only [he, Bool.false_eq_true, if_false, Bool.not_false, if_true]
          exact o01_inv_ite (o01_inv_imports _ (o01_inv_outside hd h)) (o01_inv_outside hd h)
        | some c =>
          dsimp only
          simp only [Bool.not_true, Bool.false_eq_true, if_false]
          exact o01_inv_ite (o01_inv_imports _ h) h
      · exact ⟨⟨⟩, s, rfl, h⟩

theorem o01_createTodoMsg_safe (hF : o01_Flush P) (indent : String) : o01_Safe P (createTodoMsg indent) := by
  refine ⟨fun s h => ?_⟩
  refine ⟨_, _, (createTodoMsg_ok indent s _).2 ⟨fun k hk => hF k (h.todos k hk), rfl⟩, ?_⟩
  exact o01_Inv.mk (fun _ hk => nomatch hk) h.outside h.reexports

theorem o01_mem_appendReexport {rs : List (String × List Node)} {k : String} {n : Node} {kv : String × List Node}
    (hkv : kv ∈ appendReexport rs k n) {m : Node} (hm : m ∈ kv.2) :
    m = n ∨ ∃ kv' ∈ rs, m ∈ kv'.2 := by
  unfold appendReexport at hkv
  split at hkv
  · rw [List.mem_map] at hkv
    obtain ⟨kv', hkv', rfl⟩ := hkv
    split at hm
    · rcases List.mem_append.1 hm with h | h
      · exact Or.inr ⟨kv', hkv', h⟩
      · exact Or.inl (by simpa using h)
    · exact Or.inr ⟨kv', hkv', hm⟩
  · rcases List.mem_append.1 hkv with h | h
    · exact Or.inr ⟨kv, h, hm⟩
    · have : kv = (k, [n]) := by simpa using h
      subst this
      exact Or.inl (by simpa using hm)

/-- queueing a node for a re-export module: the node, also under a new name, has to satisfy `P.pN` -/
theorem o01_hasNodeShorterReexport_safe (name : String) (r : List ModRef) (node : Node)
    (hn : P.pN node) (hr : ∀ a, P.pN (node.rename a)) : o01_Safe P (hasNodeShorterReexport name r node) := by
  unfold hasNodeShorterReexport
  refine o01_Safe.get_bind_at fun s h => ?_
  dsimp only
  generalize foldl _ (getModuleId s, none) r = acc
  obtain ⟨shortId, shortMod⟩ := acc
  cases shortMod with
  | none => exact ⟨false, s, rfl, h⟩
  | some m =>
    dsimp only
    split
    · refine ⟨true, _, rfl, h.todos, h.outside, ?_⟩
      intro kv hkv m hm
      rcases o01_mem_appendReexport hkv hm with rfl | ⟨kv', hkv', hm'⟩
      · split
        · split
          · exact hr _
          · exact hn
        · exact hn
      · exact h.reexports kv' hkv' m hm'
    · exact ⟨false, s, rfl, h⟩

/-- the three variance names are keys of the generated table: no `KeyError` -/
theorem o01_varianceKeyword_eq (v : Variance) :
    varianceKeyword v = pure (match v with | .invariant => "" | .covariant => "out " | .contravariant => "in ") := by
  cases v <;> rfl

theorem o01_varianceKeyword_safe (v : Variance) : o01_Safe P (varianceKeyword v) := by
  rw [o01_varianceKeyword_eq]
  exact o01_Safe.pure _

end Leaves

/-! ### types -/

mutual
theorem o01_importable_eq : (t : AType) → Spec.importable t = tt_seqImportable t
  | .namedSeq _ q ts => by rw [Spec.importable, tt_seqImportable, o01_importableL_eq ts]
  | .union ts => by rw [Spec.importable, tt_seqImportable, o01_importableL_eq ts]
  | .list ts => by rw [Spec.importable, tt_seqImportable, o01_importableL_eq ts]
  | .set ts => by rw [Spec.importable, tt_seqImportable, o01_importableL_eq ts]
  | .tuple ts => by rw [Spec.importable, tt_seqImportable, o01_importableL_eq ts]
  | .dict k v => by rw [Spec.importable, tt_seqImportable, o01_importable_eq k, o01_importable_eq v]
  | .callable ps r => by rw [Spec.importable, tt_seqImportable, o01_importableL_eq ps, o01_importable_eq r]
  | .final t => by rw [Spec.importable, tt_seqImportable, o01_importable_eq t]
  | .named .. => rfl
  | .unknown => rfl
  | .literal _ => rfl
  | .typeVar _ => rfl
  | .typeVarB .. => rfl
  | .enum _ => rfl
  | .boundary .. => rfl
theorem o01_importableL_eq : (ts : List AType) → Spec.importableL ts = tt_seqImportableL ts
  | [] => rfl
  | t :: ts => by rw [Spec.importableL, tt_seqImportableL, o01_importable_eq t, o01_importableL_eq ts]
end

section Types
variable {P : o01_Preds}

/-- `if c then addTodo k; pure x` with a literal key -/
macro "o01_todo_then_pure" : tactic => `(tactic|
  ((try dsimp only); split <;>
    first
      | exact o01_Safe.bind (o01_Safe.addTodo (o01_Good.keys ‹_› _ (by decide))) (fun _ => o01_Safe.pure _)
      | exact o01_Safe.pure _))

mutual
theorem o01_typeStr_safe (hG : o01_Good P) (env : Env) : (t : AType) → Spec.renderable t = true →
    Spec.importable t = true → o01_Safe P (typeStr env t)
  | .named name qname => by
    intro hr _
    rw [Spec.renderable] at hr
    simp only [Bool.and_eq_true, bne_iff_ne, ne_eq] at hr
    rw [typeStr]
    cases builtinName name with
    | some b => exact o01_Safe.pure _
    | none =>
      dsimp only
      refine o01_Safe.bind (o01_addToImports_safe hG env qname hr.2) (fun _ => ?_)
      split
      · rename_i h; exact absurd h (toList_ne_nil_of_ne_empty hr.1)
      · refine o01_Safe.get_bind (fun s => ?_)
        o01_todo_then_pure
  | .final t => by
    intro hr hq
    rw [Spec.renderable] at hr
    rw [Spec.importable] at hq
    rw [typeStr]
    exact o01_typeStr_safe hG env t hr hq
  | .callable params ret => by
    intro hr hq
    rw [Spec.renderable] at hr
    rw [Spec.importable] at hq
    simp only [Bool.and_eq_true] at hr hq
    have ihR := o01_typeStr_safe hG env ret hr.2 hq.2
    rw [typeStr]
    refine o01_Safe.bind (o01_typeStrsNamed_safe hG env params hr.1 hq.1 _ _) (fun ps => ?_)
    cases ret with
    | tuple ts =>
      dsimp only
      rw [Spec.renderable] at hr
      rw [Spec.importable] at hq
      exact o01_Safe.bind (o01_typeStrsNamed_safe hG env ts hr.2 hq.2 _ _) (fun rs => o01_Safe.pure _)
    | _ =>
      dsimp only
      split
      · exact o01_Safe.pure _
      · exact o01_Safe.bind ihR (fun r => o01_Safe.pure _)
  | .set ts => by
    intro hr hq
    rw [Spec.renderable] at hr
    rw [Spec.importable] at hq
    rw [typeStr]
    refine o01_Safe.bind (o01_typeStrs_safe hG env ts hr hq) (fun types => ?_)
    refine o01_Safe.bind (o01_Safe.addTodo (hG.keys _ (by decide))) (fun _ => ?_)
    split
    · exact o01_Safe.pure _
    · o01_todo_then_pure
  | .list ts => by
    intro hr hq
    rw [Spec.renderable] at hr
    rw [Spec.importable] at hq
    rw [typeStr]
    refine o01_Safe.bind (o01_typeStrs_safe hG env ts hr hq) (fun types => ?_)
    split
    · exact o01_Safe.pure _
    · o01_todo_then_pure
  | .namedSeq name qname ts => by
    intro hr hq
    rw [Spec.renderable] at hr
    rw [Spec.importable] at hq
    simp only [Bool.and_eq_true, bne_iff_ne, ne_eq] at hq
    rw [typeStr]
    refine o01_Safe.bind (o01_typeStrs_safe hG env ts hr hq.2) (fun types => ?_)
    refine o01_Safe.bind (o01_addToImports_safe hG env qname hq.1) (fun _ => ?_)
    split
    · exact o01_Safe.pure _
    · dsimp only
      split
      · rename_i hc
        simp only [Bool.and_eq_true, Bool.or_eq_true, beq_iff_eq] at hc
        refine o01_Safe.bind (o01_Safe.addTodo (hG.keys _ ?_)) (fun _ => o01_Safe.pure _)
        rcases hc.2 with h | h <;> rw [h] <;> decide
      · exact o01_Safe.pure _
  | .unknown => by
    intro _ _
    rw [typeStr]
    exact o01_Safe.bind (o01_Safe.addTodo (hG.keys _ (by decide))) (fun _ => o01_Safe.pure _)
  | .union ts => by
    intro hr hq
    rw [Spec.renderable] at hr
    rw [Spec.importable] at hq
    rw [typeStr]
    dsimp only
    split
    · split
      · exact o01_Safe.pure _
      · exact o01_Safe.bind (o01_typeStrsSkipLit_safe hG env ts hr hq) (fun _ => o01_Safe.pure _)
    · split
      · exact o01_Safe.pure _
      · exact o01_Safe.bind (o01_typeStrs_safe hG env ts hr hq) (fun _ => o01_Safe.pure _)
  | .tuple ts => by
    intro hr hq
    rw [Spec.renderable] at hr
    rw [Spec.importable] at hq
    rw [typeStr]
    refine o01_Safe.bind (o01_Safe.addTodo (hG.keys _ (by decide))) (fun _ => ?_)
    exact o01_Safe.bind (o01_typeStrs_safe hG env ts hr hq) (fun _ => o01_Safe.pure _)
  | .dict k v => by
    intro hr hq
    rw [Spec.renderable] at hr
    rw [Spec.importable] at hq
    simp only [Bool.and_eq_true] at hr hq
    rw [typeStr]
    refine o01_Safe.bind (o01_typeStr_safe hG env k hr.1 hq.1) (fun _ => ?_)
    exact o01_Safe.bind (o01_typeStr_safe hG env v hr.2 hq.2) (fun _ => o01_Safe.pure _)
  | .literal ls => by
    intro _ _
    rw [typeStr]
    exact o01_Safe.pure _
  | .typeVar name => by
    intro _ _
    rw [typeStr]
    exact o01_Safe.pure _
  | .typeVarB name _ => by
    intro _ _
    rw [typeStr]
    exact o01_Safe.pure _
  | .enum _ => by
    intro hr
    rw [Spec.renderable] at hr
    cases hr
  | .boundary .. => by
    intro hr
    rw [Spec.renderable] at hr
    cases hr
theorem o01_typeStrs_safe (hG : o01_Good P) (env : Env) : (ts : List AType) → Spec.renderableL ts = true →
    Spec.importableL ts = true → o01_Safe P (typeStrs env ts)
  | [] => by
    intro _ _
    rw [typeStrs]
    exact o01_Safe.pure _
  | t :: ts => by
    intro hr hq
    rw [Spec.renderableL] at hr
    rw [Spec.importableL] at hq
    simp only [Bool.and_eq_true] at hr hq
    rw [typeStrs]
    refine o01_Safe.bind (o01_typeStr_safe hG env t hr.1 hq.1) (fun _ => ?_)
    exact o01_Safe.bind (o01_typeStrs_safe hG env ts hr.2 hq.2) (fun _ => o01_Safe.pure _)
theorem o01_typeStrsSkipLit_safe (hG : o01_Good P) (env : Env) : (ts : List AType) → Spec.renderableL ts = true →
    Spec.importableL ts = true → o01_Safe P (typeStrsSkipLit env ts)
  | [] => by
    intro _ _
    rw [typeStrsSkipLit]
    exact o01_Safe.pure _
  | t :: ts => by
    intro hr hq
    rw [Spec.renderableL] at hr
    rw [Spec.importableL] at hq
    simp only [Bool.and_eq_true] at hr hq
    rw [typeStrsSkipLit]
    split
    · exact o01_typeStrsSkipLit_safe hG env ts hr.2 hq.2
    · refine o01_Safe.bind (o01_typeStr_safe hG env t hr.1 hq.1) (fun _ => ?_)
      exact o01_Safe.bind (o01_typeStrsSkipLit_safe hG env ts hr.2 hq.2) (fun _ => o01_Safe.pure _)
theorem o01_typeStrsNamed_safe (hG : o01_Good P) (env : Env) : (ts : List AType) → Spec.renderableL ts = true →
    Spec.importableL ts = true → ∀ pre i, o01_Safe P (typeStrsNamed env pre i ts)
  | [] => by
    intro _ _ pre i
    rw [typeStrsNamed]
    exact o01_Safe.pure _
  | t :: ts => by
    intro hr hq pre i
    rw [Spec.renderableL] at hr
    rw [Spec.importableL] at hq
    simp only [Bool.and_eq_true] at hr hq
    rw [typeStrsNamed]
    refine o01_Safe.bind (o01_typeStr_safe hG env t hr.1 hq.1) (fun _ => ?_)
    exact o01_Safe.bind (o01_typeStrsNamed_safe hG env ts hr.2 hq.2 _ _) (fun _ => o01_Safe.pure _)
end

theorem o01_typeOk_safe (hG : o01_Good P) (env : Env) (t : AType) (h : Spec.typeOk t = true) :
    o01_Safe P (typeStr env t) := by
  unfold Spec.typeOk at h
  simp only [Bool.and_eq_true] at h
  exact o01_typeStr_safe hG env t h.1 h.2

theorem o01_typeStrOpt_safe (hG : o01_Good P) (env : Env) (t : Option AType) (h : Spec.optTypeOk t = true) :
    o01_Safe P (typeStrOpt env t) := by
  cases t with
  | none => exact o01_Safe.pure _
  | some t => exact o01_typeOk_safe hG env t h

end Types

/-! ### parameters, results, type variables -/

section Decls
variable {P : o01_Preds}

theorem o01_defaultString_safe (hG : o01_Good P) (a : Assign) (d : DefaultVal) : o01_Safe P (defaultString a d) := by
  unfold defaultString
  o01_safe []

theorem o01_createParameter_safe (hG : o01_Good P) (env : Env) (p : Parameter)
    (hp : Spec.optTypeOk p.type = true) : o01_Safe P (createParameter env p) := by
  unfold createParameter
  cases hpt : p.type with
  | none =>
    dsimp only
    o01_safe []
  | some t =>
    rw [hpt] at hp
    dsimp only
    o01_safe [o01_typeOk_safe hG env, o01_defaultString_safe hG]
    all_goals exact hp

theorem o01_createParameters_safe (hG : o01_Good P) (env : Env) :
    (ps : List Parameter) → Spec.paramsOk ps = true → o01_Safe P (createParameters env ps)
  | [], _ => by unfold createParameters; o01_safe []
  | p :: ps, h => by
    unfold Spec.paramsOk at h
    simp only [List.all_cons, Bool.and_eq_true] at h
    have ih := o01_createParameters_safe hG env ps h.2
    have hp := o01_createParameter_safe hG env p h.1
    unfold createParameters
    o01_safe []

theorem o01_createParameterString_safe (hG : o01_Good P) (env : Env) (ps : List Parameter) (indent : String)
    (b : Bool) (h : Spec.paramsOk (if b then ps.drop 1 else ps) = true) :
    o01_Safe P (createParameterString env ps indent b) := by
  have := o01_createParameters_safe hG env _ h
  unfold createParameterString
  o01_safe []

theorem o01_createResults_safe (hG : o01_Good P) (env : Env) :
    (rs : List Result) → Spec.resultsOk rs = true → o01_Safe P (createResults env rs)
  | [], _ => by unfold createResults; o01_safe []
  | r :: rs, h => by
    unfold Spec.resultsOk at h
    simp only [List.all_cons, Bool.and_eq_true] at h
    have ih := o01_createResults_safe hG env rs h.2
    have hr := h.1
    unfold createResults
    cases hrt : r.type with
    | none => exact ih
    | some t =>
      rw [hrt] at hr
      have := o01_typeOk_safe hG env t hr
      dsimp only
      o01_safe []

theorem o01_createResultString_safe (hG : o01_Good P) (env : Env) (rs : List Result)
    (h : Spec.resultsOk rs = true) : o01_Safe P (createResultString env rs) := by
  have := o01_createResults_safe hG env rs h
  unfold createResultString
  o01_safe []

theorem o01_typeVarStrings_safe (hG : o01_Good P) (env : Env) (b : Bool) :
    (tvs : List TypeVar) → Spec.typeVarsOk tvs = true → o01_Safe P (typeVarStrings env b tvs)
  | [], _ => by unfold typeVarStrings; o01_safe []
  | tv :: tvs, h => by
    unfold Spec.typeVarsOk at h
    simp only [List.all_cons, Bool.and_eq_true] at h
    have ih := o01_typeVarStrings_safe hG env b tvs h.2
    have hb := h.1
    unfold typeVarStrings
    cases hu : tv.upperBound with
    | none =>
      dsimp only
      o01_safe []
    | some u =>
      rw [hu] at hb
      have := o01_typeOk_safe hG env u hb
      dsimp only
      o01_safe []

theorem o01_typeParamStrings_safe (hG : o01_Good P) (env : Env) :
    (tps : List TypeParam) → Spec.typeParamsOk tps = true → o01_Safe P (typeParamStrings env tps)
  | [], _ => by unfold typeParamStrings; o01_safe []
  | tp :: tps, h => by
    unfold Spec.typeParamsOk at h
    simp only [List.all_cons, Bool.and_eq_true] at h
    have ih := o01_typeParamStrings_safe hG env tps h.2
    have hb := h.1
    have hv := o01_varianceKeyword_safe (P := P) tp.variance
    unfold typeParamStrings
    cases hu : tp.type with
    | none =>
      dsimp only
      o01_safe []
    | some u =>
      rw [hu] at hb
      have := o01_typeOk_safe hG env u hb
      dsimp only
      o01_safe []

/-- `_create_function_string`; when the function may be queued for a re-export module (a module-level
    function outside a re-export module) the queued node has to satisfy `P.pN` -/
theorem o01_createFunctionString_safe (hG : o01_Good P) (hF : o01_Flush P) (env : Env) (f : Function)
    (indent : String) (isMethod inRe : Bool) (h : Spec.functionOk isMethod f = true)
    (hn : isMethod = false → inRe = false → P.pN (.fn f) ∧ ∀ a, P.pN ((Node.fn f).rename a)) :
    o01_Safe P (createFunctionString env f indent isMethod inRe) := by
  unfold Spec.functionOk at h
  obtain ⟨h12, h3⟩ := Bool.and_eq_true_iff.1 h
  obtain ⟨h1, h2⟩ := Bool.and_eq_true_iff.1 h12
  have h1 := o01_createParameterString_safe hG env f.params indent (!f.isStatic && isMethod) h1
  have h2 := o01_typeVarStrings_safe hG env isMethod f.typeVars h2
  have h3 := o01_createResultString_safe hG env f.results h3
  have h4 := o01_createTodoMsg_safe hF indent
  unfold createFunctionString
  by_cases hc : (!isMethod && !inRe) = true
  · have hc' : isMethod = false ∧ inRe = false := by simpa using hc
    have hn1 := (hn hc'.1 hc'.2).1
    have hn2 := (hn hc'.1 hc'.2).2
    have h5 := o01_hasNodeShorterReexport_safe f.name f.reexportedBy (.fn f) hn1 hn2
    rw [if_pos hc]
    o01_safe []
  · rw [if_neg hc]
    o01_safe []

theorem o01_resultTypes_ok : (rs : List Result) → Spec.resultsOk rs = true →
    Spec.renderableL (rs.filterMap (·.type)) = true ∧ Spec.importableL (rs.filterMap (·.type)) = true
  | [], _ => ⟨rfl, rfl⟩
  | r :: rs, h => by
    unfold Spec.resultsOk at h
    simp only [List.all_cons, Bool.and_eq_true] at h
    have ih := o01_resultTypes_ok rs h.2
    have hr := h.1
    cases hrt : r.type with
    | none => simpa [List.filterMap_cons, hrt] using ih
    | some t =>
      rw [hrt] at hr
      unfold Spec.optTypeOk Spec.typeOk at hr
      simp only [Bool.and_eq_true] at hr
      simp only [List.filterMap_cons, hrt, Spec.renderableL, Spec.importableL, Bool.and_eq_true]
      exact ⟨⟨hr.1, ih.1⟩, hr.2, ih.2⟩

theorem o01_createPropertyFunctionString_safe (hG : o01_Good P) (hF : o01_Flush P) (env : Env) (f : Function)
    (indent : String) (h : Spec.resultsOk f.results = true) :
    o01_Safe P (createPropertyFunctionString env f indent) := by
  have h1 : o01_Safe P (typeStr env (.union (f.results.filterMap (·.type)))) := by
    have := o01_resultTypes_ok f.results h
    refine o01_typeStr_safe hG env _ ?_ ?_
    · rw [Spec.renderable]; exact this.1
    · rw [Spec.importable]; exact this.2
  have h4 := o01_createTodoMsg_safe hF indent
  unfold createPropertyFunctionString
  o01_safe []

theorem o01_createAttribute_safe (hG : o01_Good P) (hF : o01_Flush P) (env : Env) (a : Attribute)
    (inner : String) (h : (!a.isPublic || Spec.optTypeOk a.type) = true) :
    o01_Safe P (createAttribute env a inner) := by
  have h4 := o01_createTodoMsg_safe hF inner
  unfold createAttribute
  by_cases hc : (!a.isPublic) = true
  · rw [if_pos hc]
    o01_safe []
  · rw [if_neg hc]
    have ht : Spec.optTypeOk a.type = true := by
      rcases Bool.or_eq_true_iff.1 h with h' | h'
      · exact absurd h' hc
      · exact h'
    have h1 := o01_typeStrOpt_safe hG env a.type ht
    o01_safe []

theorem o01_createAttributes_safe (hG : o01_Good P) (hF : o01_Flush P) (env : Env) (inner : String) :
    (as : List Attribute) → Spec.attributesOk as = true → o01_Safe P (createAttributes env inner as)
  | [], _ => by unfold createAttributes; o01_safe []
  | a :: as, h => by
    unfold Spec.attributesOk at h
    simp only [List.all_cons, Bool.and_eq_true] at h
    have ih := o01_createAttributes_safe hG hF env inner as h.2
    have ha := o01_createAttribute_safe hG hF env a inner h.1
    unfold createAttributes
    o01_safe []

theorem o01_createClassAttributeString_safe (hG : o01_Good P) (hF : o01_Flush P) (env : Env)
    (as : List Attribute) (inner : String) (h : Spec.attributesOk as = true) :
    o01_Safe P (createClassAttributeString env as inner) := by
  have := o01_createAttributes_safe hG hF env inner as h
  unfold createClassAttributeString
  o01_safe []

theorem o01_createMethods_safe (hG : o01_Good P) (hF : o01_Flush P) (env : Env) (inner : String) (b : Bool)
    (ad : List String) : (ms : List Function) →
    (∀ m ∈ ms, methodSkipped m b ad = false → Spec.methodOk m = true) →
    o01_Safe P (createMethods env inner b ad ms)
  | [], _ => by unfold createMethods; o01_safe []
  | m :: ms, h => by
    have ih := o01_createMethods_safe hG hF env inner b ad ms (fun m' hm' => h m' (List.mem_cons_of_mem _ hm'))
    unfold createMethods
    by_cases hs : methodSkipped m b ad = true
    · rw [if_pos hs]; exact ih
    · rw [if_neg hs]
      have hm := h m (List.mem_cons_self ..) (by simpa using hs)
      unfold Spec.methodOk at hm
      by_cases hp : m.isProperty = true
      · rw [if_pos hp] at hm ⊢
        have := o01_createPropertyFunctionString_safe hG hF env m inner hm
        o01_safe []
      · rw [if_neg hp] at hm ⊢
        have := o01_createFunctionString_safe hG hF env m inner true false hm (fun h' => nomatch h')
        o01_safe []

theorem o01_createClassMethodString_safe (hG : o01_Good P) (hF : o01_Flush P) (env : Env) (ms : List Function)
    (inner : String) (b : Bool) (ad : List String)
    (h : ∀ m ∈ ms, methodSkipped m b ad = false → Spec.methodOk m = true) :
    o01_Safe P (createClassMethodString env ms inner b ad) := by
  have := o01_createMethods_safe hG hF env inner b ad ms h
  unfold createClassMethodString
  o01_safe []

theorem o01_innerClassesG_safe (render : Class → G String) :
    (cs : List Class) → (∀ c ∈ cs, o01_Safe P (render c)) → o01_Safe P (innerClassesG render cs)
  | [], _ => by unfold innerClassesG; o01_safe []
  | c :: cs, h => by
    have ih := o01_innerClassesG_safe render cs (fun c' hc' => h c' (List.mem_cons_of_mem _ hc'))
    have hc := h c (List.mem_cons_self ..)
    unfold innerClassesG
    o01_safe []

theorem o01_superclassesG_safe (hG : o01_Good P) (env : Env) (inline : String → G String) :
    (scs : List String) →
    (∀ sc ∈ scs, if Spec.privateSuper sc then o01_Safe P (inline sc) else sc ≠ "") →
    o01_Safe P (superclassesG env inline scs)
  | [], _ => by unfold superclassesG; o01_safe []
  | sc :: scs, h => by
    have ih := o01_superclassesG_safe hG env inline scs (fun c' hc' => h c' (List.mem_cons_of_mem _ hc'))
    have hc := h sc (List.mem_cons_self ..)
    unfold Spec.privateSuper at hc
    unfold superclassesG
    by_cases hi : isInternal (lastD "" (splitDot sc)) = true
    · rw [if_pos hi] at hc
      rw [if_neg (by simpa using hi)]
      o01_safe []
    · rw [if_neg hi] at hc
      have := o01_addToImports_safe hG env sc hc
      rw [if_pos (by simpa using hi)]
      o01_safe []

theorem o01_internalSupersG_safe (inline : String → G String) :
    (scs : List String) → (∀ sc ∈ scs, Spec.privateSuper sc = true → o01_Safe P (inline sc)) →
    o01_Safe P (internalSupersG inline scs)
  | [], _ => by unfold internalSupersG; o01_safe []
  | sc :: scs, h => by
    have ih := o01_internalSupersG_safe inline scs (fun c' hc' => h c' (List.mem_cons_of_mem _ hc'))
    have hc := h sc (List.mem_cons_self ..)
    unfold Spec.privateSuper at hc
    unfold internalSupersG
    dsimp only
    by_cases hi : isInternal (lastD "" (splitDot sc)) = true
    · have := hc hi
      rw [if_pos hi]
      o01_safe []
    · rw [if_neg hi]
      o01_safe []

/-! ### classes: the fuel of the generator against the fuel of `Spec.classOk` -/

theorem o01_getClassInPackage_eq (env : Env) (sc : String) :
    getClassInPackage env sc = match Spec.resolveClass env.api sc with
      | some c => .ok c
      | none => .error .lookupError := by
  unfold getClassInPackage Spec.resolveClass
  dsimp only
  cases find? (fun c => c.id == replaceChar sc '.' "/") env.api.classes with
  | some c => rfl
  | none => dsimp only; cases find? _ env.api.classes <;> rfl

theorem o01_notSkipped_public {m : Function} (h : methodSkipped m false [] = false) : m.isPublic = true := by
  cases hp : m.isPublic
  · simp [methodSkipped, hp] at h
  · rfl

theorem o01_notSkipped_inlined {m : Function} {ad : List String} (h : methodSkipped m true ad = false) :
    (m.isPublic || !isInternal m.name) = true := by
  cases hp : m.isPublic <;> cases hi : isInternal m.name <;> simp [methodSkipped, hp, hi] at h ⊢

mutual
theorem o01_createClassString_safe (hG : o01_Good P) (hF : o01_Flush P) (env : Env) :
    (n : Nat) → (c : Class) → (indent : String) → (b : Bool) → Spec.classOk env.api n c = true →
    (b = false → P.pN (.cls c) ∧ ∀ a, P.pN ((Node.cls c).rename a)) →
    o01_Safe P (createClassString env n c indent b)
  | 0, _, _, _ => by
    intro h
    rw [Spec.classOk] at h
    cases h
  | n + 1, c, indent, b => by
    intro h hn
    rw [Spec.classOk] at h
    obtain ⟨h, hsup⟩ := Bool.and_eq_true_iff.1 h
    obtain ⟨h, hmeth⟩ := Bool.and_eq_true_iff.1 h
    obtain ⟨h, hinner⟩ := Bool.and_eq_true_iff.1 h
    obtain ⟨h, hattr⟩ := Bool.and_eq_true_iff.1 h
    obtain ⟨hctor, htp⟩ := Bool.and_eq_true_iff.1 h
    have h1 : ∀ ctor, ¬ c.isAbstract = true → c.ctor = some ctor →
        o01_Safe P (createParameterString env ctor.params indent true) := by
      intro ctor hab hc
      unfold Spec.ctorOk at hctor
      rw [hc] at hctor
      rcases Bool.or_eq_true_iff.1 hctor with h' | h'
      · exact absurd h' hab
      · exact o01_createParameterString_safe hG env ctor.params indent true h'
    have h2 := o01_typeParamStrings_safe hG env c.typeParams htp
    have h3 := o01_createTodoMsg_safe hF indent
    have h4 := o01_createClassAttributeString_safe hG hF env c.attributes (indent ++ indentation) hattr
    have h5 : o01_Safe P (innerClassesG (fun ic => createClassString env n ic (indent ++ indentation) true)
        (c.classes.filter (·.isPublic))) := by
      refine o01_innerClassesG_safe _ _ (fun ic hic => ?_)
      exact o01_createClassString_safe hG hF env n ic _ true (List.all_eq_true.1 hinner ic hic)
        (fun h' => nomatch h')
    have h6 : o01_Safe P (createClassMethodString env c.methods (indent ++ indentation)) := by
      refine o01_createClassMethodString_safe hG hF env _ _ _ _ (fun m hm hs => ?_)
      have := List.all_eq_true.1 hmeth m hm
      simpa [o01_notSkipped_public hs] using this
    have h7 : (!c.renderedSupers.isEmpty && !c.isAbstract) = true → ∀ ad,
        o01_Safe P (superclassesG env (fun sc => createInternalClassString env n sc (indent ++ indentation) ad)
          c.renderedSupers) := by
      intro hc ad
      simp only [Bool.and_eq_true, Bool.not_eq_true'] at hc
      have hne : c.superclasses.isEmpty = false := by
        cases hs : c.superclasses with
        | nil => simp [Class.renderedSupers, hs] at hc
        | cons _ _ => rfl
      simp only [hne, hc.2, Bool.false_or] at hsup
      refine o01_superclassesG_safe hG env _ _ (fun sc hsc => ?_)
      have := List.all_eq_true.1 hsup sc (List.mem_filter.mp hsc).1
      split
      · rename_i hp
        rw [if_pos hp] at this
        exact o01_createInternalClassString_safe hG hF env n sc _ ad this
      · rename_i hp
        rw [if_neg hp] at this
        simpa using this
    unfold createClassString
    by_cases hc : (!b) = true
    · have hb : b = false := by simpa using hc
      have hn1 := (hn hb).1
      have hn2 := (hn hb).2
      have h8 := o01_hasNodeShorterReexport_safe c.name c.reexportedBy (.cls c) hn1 hn2
      rw [if_pos hc]
      o01_safe [h7]
      all_goals exact h1 _ ‹_› ‹_›
    · rw [if_neg hc]
      o01_safe [h7]
      all_goals exact h1 _ ‹_› ‹_›
theorem o01_createInternalClassString_safe (hG : o01_Good P) (hF : o01_Flush P) (env : Env) :
    (n : Nat) → (sc inner : String) → (ad : List String) → Spec.inlinedOk env.api n sc = true →
    o01_Safe P (createInternalClassString env n sc inner ad)
  | 0, _, _, _ => by
    intro h
    rw [Spec.inlinedOk] at h
    cases h
  | n + 1, sc, inner, ad => by
    intro h
    rw [Spec.inlinedOk] at h
    cases hres : Spec.resolveClass env.api sc with
    | none => rw [hres] at h; cases h
    | some c =>
      rw [hres] at h
      unfold createInternalClassString
      rw [o01_getClassInPackage_eq, hres]
      dsimp only at h ⊢
      rw [pure_bind]
      obtain ⟨h, hsup⟩ := Bool.and_eq_true_iff.1 h
      obtain ⟨hmeth, hinner⟩ := Bool.and_eq_true_iff.1 h
      have h1 : o01_Safe P (createClassMethodString env c.methods inner true ad) := by
        refine o01_createClassMethodString_safe hG hF env _ _ _ _ (fun m hm hs => ?_)
        have := List.all_eq_true.1 hmeth m hm
        simpa [o01_notSkipped_inlined hs] using this
      have h2 : o01_Safe P (innerClassesG (fun ic => createClassString env n ic inner true)
          (c.classes.filter (fun ic => !isInternal ic.name && !ad.contains ic.name))) := by
        refine o01_innerClassesG_safe _ _ (fun ic hic => ?_)
        have hic' : ic ∈ c.classes.filter (fun ic => !isInternal ic.name) := by
          rw [List.mem_filter] at hic ⊢
          exact ⟨hic.1, by simpa using (Bool.and_eq_true_iff.1 hic.2).1⟩
        exact o01_createClassString_safe hG hF env n ic _ true (List.all_eq_true.1 hinner ic hic')
          (fun h' => nomatch h')
      have h3 : ∀ ad', o01_Safe P (internalSupersG
          (fun ss => createInternalClassString env n ss inner ad') c.superclasses) := by
        intro ad'
        refine o01_internalSupersG_safe _ _ (fun ss hss hp => ?_)
        have := List.all_eq_true.1 hsup ss hss
        rw [hp] at this
        exact o01_createInternalClassString_safe hG hF env n ss inner ad' (by simpa using this)
      o01_safe [h3]
end

theorem o01_createImportsString_safe (env : Env) : o01_Safe P (createImportsString env) := by
  unfold createImportsString
  o01_safe []

theorem o01_createImportsString_ok (env : Env) (st : St) : ∃ r, createImportsString env st = .ok (r, st) := by
  unfold createImportsString
  rw [bind_apply]
  show ∃ r, (if st.imports.isEmpty = true then _ else _ : G String) st = _
  split
  · exact ⟨_, rfl⟩
  · exact ⟨_, rfl⟩

end Decls

/-! ### the invariant of a whole run -/

/-- a queued re-export node can be rendered with the full fuel -/
def o01_nodeOk (api : API) : Node → Prop
  | .cls c => Spec.classOk api (Spec.fuel01 api) c = true
  | .fn f => Spec.functionOk false f = true

def o01_PFull (api : API) : o01_Preds := ⟨o01_hasMsg, o01_dotted, o01_nodeOk api⟩

theorem o01_PFull_good (api : API) : o01_Good (o01_PFull api) := ⟨fun _ h => h, fun _ h => h⟩
theorem o01_PFull_flush (api : API) : o01_Flush (o01_PFull api) := fun _ h => h

theorem o01_classOk_rename (api : API) (n : Nat) (c : Class) (a : String) :
    Spec.classOk api n { c with name := a } = Spec.classOk api n c := by
  cases n with
  | zero => rw [Spec.classOk, Spec.classOk]
  | succ n => rw [Spec.classOk, Spec.classOk]; rfl

theorem o01_nodeOk_rename (api : API) (n : Node) (a : String) (h : o01_nodeOk api n) :
    o01_nodeOk api (n.rename a) := by
  cases n with
  | cls c =>
    show Spec.classOk api _ { c with name := a } = true
    rw [o01_classOk_rename]; exact h
  | fn f => exact h

section Modules
variable (env : Env)

local notation "PF" => o01_PFull env.api

theorem o01_createFunctions_safe (inRe : Bool) : (fs : List Function) →
    (∀ f ∈ fs, f.isPublic = true → Spec.functionOk false f = true) →
    o01_Safe PF (createFunctions env inRe fs)
  | [], _ => by unfold createFunctions; o01_safe []
  | f :: fs, h => by
    have ih := o01_createFunctions_safe inRe fs (fun f' hf' => h f' (List.mem_cons_of_mem _ hf'))
    have hf : f.isPublic = true → o01_Safe PF (createFunctionString env f "" false inRe) := fun hp =>
      o01_createFunctionString_safe (o01_PFull_good _) (o01_PFull_flush _) env f "" false inRe
        (h f (List.mem_cons_self ..) hp)
        (fun _ _ => ⟨h f (List.mem_cons_self ..) hp,
          fun a => o01_nodeOk_rename env.api (.fn f) a (h f (List.mem_cons_self ..) hp)⟩)
    unfold createFunctions
    o01_safe [hf]

theorem o01_createClasses_safe (inRe : Bool) : (cs : List Class) →
    (∀ c ∈ cs, (c.isPublic && !c.inheritsFromException) = true → Spec.classOk env.api (Spec.fuel01 env.api) c = true) →
    o01_Safe PF (createClasses env inRe cs)
  | [], _ => by unfold createClasses; o01_safe []
  | c :: cs, h => by
    have ih := o01_createClasses_safe inRe cs (fun c' hc' => h c' (List.mem_cons_of_mem _ hc'))
    have hc : (c.isPublic && !c.inheritsFromException) = true →
        o01_Safe PF (createClassString env (classFuel env) c "" inRe) := fun hp =>
      o01_createClassString_safe (o01_PFull_good _) (o01_PFull_flush _) env _ c "" inRe
        (h c (List.mem_cons_self ..) hp)
        (fun _ => ⟨h c (List.mem_cons_self ..) hp,
          fun a => o01_nodeOk_rename env.api (.cls c) a (h c (List.mem_cons_self ..) hp)⟩)
    unfold createClasses
    o01_safe [hc]

/-- the conditions `Spec.moduleOk` puts on a module that is rendered -/
def o01_modOk (m : Module) : Prop :=
  (∀ f ∈ m.functions, f.isPublic = true → Spec.functionOk false f = true) ∧
  (∀ c ∈ m.classes, (c.isPublic && !c.inheritsFromException) = true →
    Spec.classOk env.api (Spec.fuel01 env.api) c = true)

theorem o01_modOk_of_moduleOk {m : Module} (h : Spec.moduleOk env.api m = true) (hn : ¬ (m.name == "__init__") = true) :
    o01_modOk env m := by
  unfold Spec.moduleOk at h
  rcases Bool.or_eq_true_iff.1 h with h | h
  · exact absurd h hn
  · obtain ⟨h1, h2⟩ := Bool.and_eq_true_iff.1 h
    refine ⟨fun f hf hp => ?_, fun c hc hp => ?_⟩
    · have := List.all_eq_true.1 h1 f hf
      simpa [hp] using this
    · have := List.all_eq_true.1 h2 c hc
      rw [hp] at this
      simpa using this

theorem o01_createModuleString_safe (m : Module) (h : o01_modOk env m) : o01_Safe PF (createModuleString env m) := by
  have h1 := fun b => o01_createFunctions_safe env b m.functions h.1
  have h2 := fun b => o01_createClasses_safe env b m.classes h.2
  have h3 := o01_createImportsString_safe (P := PF) env
  unfold createModuleString
  o01_safe [h1, h2]

theorem o01_callGenerator_safe (m : Module) (h : o01_modOk env m) : o01_Safe PF (callGenerator env m) := by
  have h1 := o01_createModuleString_safe env m h
  have h2 := o01_setModuleId_safe (P := PF) m.id
  have h3 : o01_Safe PF (modify fun s => { s with reexportModuleId := "", classGenerics := [], imports := [], todos := [] } : G PUnit) :=
    o01_Safe.modify fun s hI => o01_Inv.mk (fun _ hk => nomatch hk) hI.outside hI.reexports
  unfold callGenerator
  o01_safe []

theorem o01_generateModules_safe : (ms : List Module) → (∀ m ∈ ms, Spec.moduleOk env.api m = true) →
    o01_Safe PF (generateModules env ms)
  | [], _ => by unfold generateModules; o01_safe []
  | m :: ms, h => by
    have ih := o01_generateModules_safe ms (fun m' hm' => h m' (List.mem_cons_of_mem _ hm'))
    unfold generateModules
    by_cases hn : (m.name == "__init__") = true
    · rw [if_pos hn]; exact ih
    · rw [if_neg hn]
      have := o01_callGenerator_safe env m (o01_modOk_of_moduleOk env (h m (List.mem_cons_self ..)) hn)
      o01_safe []

theorem o01_createReexportElements_safe (moduleId : String) : (els : List Node) →
    (∀ n ∈ els, o01_nodeOk env.api n) → o01_Safe PF (createReexportElements env moduleId els)
  | [], _ => by unfold createReexportElements; o01_safe []
  | el :: els, h => by
    have ih := o01_createReexportElements_safe moduleId els (fun n hn => h n (List.mem_cons_of_mem _ hn))
    have hel := h el (List.mem_cons_self ..)
    have h2 := fun id => o01_setModuleId_safe (P := PF) id
    have h3 := o01_createImportsString_safe (P := PF) env
    have h4 : o01_Safe PF (match el with
        | .cls c => createClassString env (classFuel env) c "" true
        | .fn f => createFunctionString env f "" false true : G String) := by
      cases el with
      | cls c =>
        exact o01_createClassString_safe (o01_PFull_good _) (o01_PFull_flush _) env _ c "" true hel
          (fun h' => nomatch h')
      | fn f =>
        exact o01_createFunctionString_safe (o01_PFull_good _) (o01_PFull_flush _) env f "" false true hel
          (fun _ h' => nomatch h')
    unfold createReexportElements
    o01_safe [h2]

theorem o01_createReexportModules_safe : (rs : List (String × List Node)) →
    (∀ kv ∈ rs, ∀ n ∈ kv.2, o01_nodeOk env.api n) → o01_Safe PF (createReexportModules env rs)
  | [], _ => by unfold createReexportModules; o01_safe []
  | (moduleId, elements) :: rest, h => by
    have ih := o01_createReexportModules_safe rest (fun kv hkv => h kv (List.mem_cons_of_mem _ hkv))
    have h1 := o01_createReexportElements_safe env moduleId
      (sortBy nodeLe elements)
      (fun n hn => h _ (List.mem_cons_self ..) n ((mem_sortBy _ n elements).1 hn))
    have h2 := fun id => o01_setModuleId_safe (P := PF) id
    unfold createReexportModules
    o01_safe [h2]

theorem o01_createReexportModuleStrings_safe : o01_Safe PF (createReexportModuleStrings env) := by
  unfold createReexportModuleStrings
  refine o01_Safe.get_bind_at fun s h => ?_
  exact (o01_createReexportModules_safe env s.reexports h.reexports).run s h

theorem o01_generateStubData_safe (h : Spec.Scope01 env.api = true) : o01_Safe PF (generateStubData env) := by
  have h1 := o01_generateModules_safe env env.api.modules (List.all_eq_true.1 h)
  have h2 := o01_createReexportModuleStrings_safe env
  unfold generateStubData
  o01_safe []

end Modules

/-! ### writing the files -/

theorem o01_createOutsidePackageClass_ok (safe : Bool) (c : String) (created existing : List String)
    (hc : o01_dotted c) : ∃ r, createOutsidePackageClass safe c created existing = .ok r := by
  rw [createOutsidePackageClass_eq, if_neg (fun h => (dropLast'_splitDot_eq_nil c).1 h hc)]
  dsimp only
  split <;> exact ⟨_, rfl⟩

theorem o01_outsideWrites_ok (safe : Bool) : (cs created existing : List String) → (∀ c ∈ cs, o01_dotted c) →
    ∃ ops, outsideWrites safe cs created existing = .ok ops
  | [], _, _, _ => ⟨[], rfl⟩
  | c :: cs, created, existing, h => by
    obtain ⟨⟨op, created'⟩, h1⟩ := o01_createOutsidePackageClass_ok safe c created existing (h c (List.mem_cons_self ..))
    obtain ⟨ops, h2⟩ := o01_outsideWrites_ok safe cs created' (insertSet op.path existing)
      (fun c' hc' => h c' (List.mem_cons_of_mem _ hc'))
    refine ⟨op :: ops, ?_⟩
    rw [outsideWrites, h1]
    dsimp only
    rw [h2]

theorem o01_createStubFiles_ok (safe : Bool) (stubs : List StubData) (outside pre : List String)
    (h : ∀ c ∈ outside, o01_dotted c) : ∃ ops, createStubFiles safe stubs outside pre = .ok ops := by
  unfold createStubFiles
  dsimp only
  obtain ⟨ops, h1⟩ := o01_outsideWrites_ok safe (sortStrings outside) []
    (foldl (fun acc op => insertSet op.path acc) pre
      (stubs.map fun d => ({ path := stubPath d, mode := .write, text := d.text } : WriteOp)))
    (fun c hc => h c ((mem_sortStrings c outside).1 hc))
  rw [h1]
  exact ⟨_, rfl⟩

theorem o01_inv_init (P : o01_Preds) : o01_Inv P {} :=
  o01_Inv.mk (fun _ hk => absurd hk List.not_mem_nil) (fun _ hk => absurd hk List.not_mem_nil)
    (fun _ hk => absurd hk List.not_mem_nil)

theorem o01_runGenerator_ok (api : API) (safe : Bool) (pre : List String) (h : Spec.Scope01 api = true) :
    ∃ r, runGenerator api safe pre = .ok r := by
  obtain ⟨stubs, st, h1, hI⟩ := (o01_generateStubData_safe ⟨api, safe⟩ h).run {} (o01_inv_init _)
  obtain ⟨ops, h2⟩ := o01_createStubFiles_ok safe stubs st.outside pre hI.outside
  refine ⟨{ log := st.log, stubs := stubs, outside := st.outside, ops := ops }, ?_⟩
  unfold runGenerator
  dsimp only
  have h1' : (generateStubData { api := api, safe := safe }).run {} = .ok (stubs, st) := h1
  rw [h1']
  dsimp only
  rw [h2]


/-! ### fuel: monotonicity, and nesting depth as a sufficient budget -/

mutual
theorem o01_classOk_succ (api : API) : (n : Nat) → (c : Class) → Spec.classOk api n c = true →
    Spec.classOk api (n + 1) c = true
  | 0, c, h => by rw [Spec.classOk] at h; cases h
  | n + 1, c, h => by
    rw [Spec.classOk] at h ⊢
    obtain ⟨h, hsup⟩ := Bool.and_eq_true_iff.1 h
    obtain ⟨h, hmeth⟩ := Bool.and_eq_true_iff.1 h
    obtain ⟨h, hinner⟩ := Bool.and_eq_true_iff.1 h
    refine Bool.and_eq_true_iff.2 ⟨Bool.and_eq_true_iff.2 ⟨Bool.and_eq_true_iff.2 ⟨h, ?_⟩, hmeth⟩, ?_⟩
    · exact List.all_eq_true.2 fun ic hic => o01_classOk_succ api n ic (List.all_eq_true.1 hinner ic hic)
    · rcases Bool.or_eq_true_iff.1 hsup with h' | h'
      · exact Bool.or_eq_true_iff.2 (Or.inl h')
      · refine Bool.or_eq_true_iff.2 (Or.inr (List.all_eq_true.2 fun sc hsc => ?_))
        have := List.all_eq_true.1 h' sc hsc
        by_cases hp : Spec.privateSuper sc = true
        · rw [if_pos hp] at this ⊢
          exact o01_inlinedOk_succ api n sc this
        · rw [if_neg hp] at this ⊢
          exact this
theorem o01_inlinedOk_succ (api : API) : (n : Nat) → (sc : String) → Spec.inlinedOk api n sc = true →
    Spec.inlinedOk api (n + 1) sc = true
  | 0, sc, h => by rw [Spec.inlinedOk] at h; cases h
  | n + 1, sc, h => by
    rw [Spec.inlinedOk] at h ⊢
    cases hres : Spec.resolveClass api sc with
    | none => rw [hres] at h; cases h
    | some c =>
      rw [hres] at h
      dsimp only at h ⊢
      obtain ⟨h, hsup⟩ := Bool.and_eq_true_iff.1 h
      obtain ⟨hmeth, hinner⟩ := Bool.and_eq_true_iff.1 h
      refine Bool.and_eq_true_iff.2 ⟨Bool.and_eq_true_iff.2 ⟨hmeth, ?_⟩, ?_⟩
      · exact List.all_eq_true.2 fun ic hic => o01_classOk_succ api n ic (List.all_eq_true.1 hinner ic hic)
      · refine List.all_eq_true.2 fun ss hss => ?_
        have := List.all_eq_true.1 hsup ss hss
        rcases Bool.or_eq_true_iff.1 this with h' | h'
        · exact Bool.or_eq_true_iff.2 (Or.inl h')
        · exact Bool.or_eq_true_iff.2 (Or.inr (o01_inlinedOk_succ api n ss h'))
end

/-- the check is monotone in the fuel -/
theorem o01_classOk_mono (api : API) {n m : Nat} (hnm : n ≤ m) (c : Class) (h : Spec.classOk api n c = true) :
    Spec.classOk api m c = true := by
  induction hnm with
  | refl => exact h
  | step _ ih => exact o01_classOk_succ api _ c ih

theorem o01_inlinedOk_mono (api : API) {n m : Nat} (hnm : n ≤ m) (sc : String)
    (h : Spec.inlinedOk api n sc = true) : Spec.inlinedOk api m sc = true := by
  induction hnm with
  | refl => exact h
  | step _ ih => exact o01_inlinedOk_succ api _ sc ih

theorem o01_nestDepth_le {c : Class} : {cs : List Class} → c ∈ cs → Spec.nestDepth c ≤ Spec.nestDepthL cs
  | [], h => nomatch h
  | c' :: cs, h => by
    rw [Spec.nestDepthL]
    rcases List.mem_cons.1 h with rfl | h
    · exact Nat.le_max_left _ _
    · exact Nat.le_trans (o01_nestDepth_le h) (Nat.le_max_right _ _)

theorem o01_localOk_mem {c : Class} : {cs : List Class} → Spec.localOkL cs = true → c ∈ cs → c.isPublic = true →
    Spec.localOk c = true
  | [], _, h, _ => nomatch h
  | c' :: cs, hl, h, hp => by
    rw [Spec.localOkL] at hl
    obtain ⟨h1, h2⟩ := Bool.and_eq_true_iff.1 hl
    rcases List.mem_cons.1 h with rfl | h
    · simpa [hp] using h1
    · exact o01_localOk_mem h2 h hp

/-- without private superclasses the nesting depth is all the fuel that is needed -/
theorem o01_classOk_of_depth (api : API) : (n : Nat) → (c : Class) → Spec.localOk c = true →
    Spec.nestDepth c ≤ n → Spec.classOk api n c = true
  | 0, c, _, hd => by
    obtain ⟨_, _, _, _, _, _, _, _, _, _, cs, _⟩ := c
    rw [Spec.nestDepth] at hd
    omega
  | n + 1, c, hl, hd => by
    obtain ⟨id, name, supers, isPublic, doc, ctor, exc, reex, attrs, methods, cs, tps⟩ := c
    rw [Spec.nestDepth] at hd
    rw [Spec.localOk] at hl
    obtain ⟨hl, hcs⟩ := Bool.and_eq_true_iff.1 hl
    obtain ⟨hl, hsup⟩ := Bool.and_eq_true_iff.1 hl
    obtain ⟨hl, hmeth⟩ := Bool.and_eq_true_iff.1 hl
    rw [Spec.classOk]
    refine Bool.and_eq_true_iff.2 ⟨Bool.and_eq_true_iff.2 ⟨Bool.and_eq_true_iff.2 ⟨hl, ?_⟩, hmeth⟩, ?_⟩
    · refine List.all_eq_true.2 fun ic hic => ?_
      obtain ⟨hic1, hic2⟩ := List.mem_filter.1 hic
      have hic1 : ic ∈ cs := hic1
      refine o01_classOk_of_depth api n ic (o01_localOk_mem hcs hic1 (by simpa using hic2)) ?_
      have := o01_nestDepth_le hic1
      omega
    · rcases Bool.or_eq_true_iff.1 hsup with h' | h'
      · exact Bool.or_eq_true_iff.2 (Or.inl h')
      · refine Bool.or_eq_true_iff.2 (Or.inr (List.all_eq_true.2 fun sc hsc => ?_))
        have := List.all_eq_true.1 h' sc hsc
        obtain ⟨hp, hne⟩ := Bool.and_eq_true_iff.1 this
        rw [if_neg (by simpa using hp)]
        exact hne

/-! ### without hypotheses: which errors are possible, and what every function preserves

`o01_Keeps P x`, for an invariant that admits exactly the keys of the message table and puts no
condition on queued nodes (`o01_Nice P`): from a state satisfying the invariant, `x` either returns in
such a state or raises one of `o01_errs` — never `KeyError`.  Instances: `o01_PTodo` ("every pending
key has a message") and `o01_P0` (… and every outside-package class path is dotted). -/

structure o01_Nice (P : o01_Preds) : Prop where
  good : o01_Good P
  flush : o01_Flush P
  nodes : ∀ n, P.pN n

def o01_P0 : o01_Preds := ⟨o01_hasMsg, o01_dotted, fun _ => True⟩

instance o01_P0_nice : Fact (o01_Nice o01_P0) := ⟨⟨⟨fun _ h => h, fun _ h => h⟩, fun _ h => h, fun _ => trivial⟩⟩
instance o01_PTodo_nice : Fact (o01_Nice o01_PTodo) := ⟨⟨o01_PTodo_good, o01_PTodo_flush, fun _ => trivial⟩⟩

/-- the exceptions the generator's own code can raise -/
def o01_errs : List PyErr := [.valueError, .indexError, .lookupError, .unsupported]

def o01_outOk (P : o01_Preds) {α : Type} : Except PyErr (α × St) → Prop
  | .ok (_, s') => o01_Inv P s'
  | .error e => e ∈ o01_errs

structure o01_Keeps (P : o01_Preds) {α : Type} (x : G α) : Prop where
  run : ∀ s, o01_Inv P s → o01_outOk P (x s)

namespace o01_Keeps
variable {α β : Type} {P : o01_Preds}

theorem pure (a : α) : o01_Keeps P (Pure.pure a : G α) := ⟨fun _ h => h⟩

theorem throw {e : PyErr} (he : e ∈ o01_errs) : o01_Keeps P (throwG e : G α) := ⟨fun _ _ => he⟩

theorem bind {x : G α} {f : α → G β} (hx : o01_Keeps P x) (hf : ∀ a, o01_Keeps P (f a)) : o01_Keeps P (x >>= f) := by
  refine ⟨fun s h => ?_⟩
  rw [bind_apply]
  have := hx.run s h
  cases hxs : x s with
  | error e => rw [hxs] at this; exact this
  | ok v =>
    obtain ⟨a, s1⟩ := v
    rw [hxs] at this
    exact (hf a).run s1 this

theorem get_bind {f : St → G β} (hf : ∀ s0, o01_Inv P s0 → o01_Keeps P (f s0)) : o01_Keeps P (get >>= f) := by
  refine ⟨fun s h => ?_⟩
  rw [bind_apply]
  exact (hf s h).run s h

theorem set {t : St} (ht : o01_Inv P t) : o01_Keeps P (MonadStateOf.set t : G PUnit) := ⟨fun _ _ => ht⟩

theorem modify {g : St → St} (hg : ∀ s, o01_Inv P s → o01_Inv P (g s)) :
    o01_Keeps P (modify g : G PUnit) := ⟨fun s h => hg s h⟩

theorem of_safe {x : G α} (h : o01_Safe P x) : o01_Keeps P x := by
  refine ⟨fun s hs => ?_⟩
  obtain ⟨a, s', h1, h2⟩ := h.run s hs
  rw [h1]
  exact h2

end o01_Keeps

section KeepsAll
set_option linter.unusedSectionVars false
variable {P : o01_Preds} [hP : Fact (o01_Nice P)]

theorem o01_addTodo_keeps {k : String} (h : o01_hasMsg k) : o01_Keeps P (addTodo k) :=
  o01_Keeps.of_safe (o01_Safe.addTodo (hP.out.good.keys _ h))

theorem o01_logEmit_keeps (kind id : String) : o01_Keeps P (logEmit kind id) :=
  o01_Keeps.of_safe (o01_Safe.logEmit _ _)

open Lean in
macro "o01_keeps" "[" ls:term,* "]" : tactic => do
  let alts ← ls.getElems.mapM fun l => `(tacticSeq| apply $l)
  `(tactic| repeat' (first
      | with_reducible exact o01_Keeps.pure _
      | ((with_reducible apply o01_Keeps.throw); decide)
      | with_reducible assumption
      | ((with_reducible apply o01_addTodo_keeps); decide)
      | with_reducible exact o01_logEmit_keeps _ _
      | ((with_reducible apply o01_Keeps.modify); intro _ h; exact ⟨h.1, h.2, h.3⟩)
      | ((with_reducible apply o01_Keeps.get_bind); intro _ _)
      $[| with_reducible $alts:tacticSeq]*
      | with_reducible apply o01_Keeps.bind
      | intro _
      | split
      | dsimp only))

theorem o01_hasNodeShorterReexport_keeps (n : String) (r : List ModRef) (node : Node) :
    o01_Keeps P (hasNodeShorterReexport n r node) :=
  o01_Keeps.of_safe (o01_hasNodeShorterReexport_safe n r node (hP.out.nodes _) (fun _ => hP.out.nodes _))

theorem o01_addToImports_keeps (env : Env) (q : String) : o01_Keeps P (addToImports env q) := by
  by_cases hq : q = ""
  · subst hq
    unfold addToImports
    rw [if_pos (by decide)]
    exact o01_Keeps.bind (o01_Keeps.throw (by decide)) (fun _ => o01_Keeps.pure _)
  · exact o01_Keeps.of_safe (o01_addToImports_safe hP.out.good env q hq)

theorem o01_createTodoMsg_keeps (indent : String) : o01_Keeps P (createTodoMsg indent) :=
  o01_Keeps.of_safe (o01_createTodoMsg_safe hP.out.flush indent)

theorem o01_setModuleId_keeps (id : String) : o01_Keeps P (setModuleId id) :=
  o01_Keeps.of_safe (o01_setModuleId_safe id)

theorem o01_varianceKeyword_keeps (v : Variance) : o01_Keeps P (varianceKeyword v) :=
  o01_Keeps.of_safe (o01_varianceKeyword_safe v)

/-- for a tuple type, the property of the named rendering of its members (used by `callable`) -/
def o01_TupleNamedKeeps (P : o01_Preds) (env : Env) (t : AType) : Prop :=
  ∀ ts, t = .tuple ts → ∀ pre i, o01_Keeps P (typeStrsNamed env pre i ts)

mutual
theorem o01_typeStr_keeps' (env : Env) : (t : AType) → o01_Keeps P (typeStr env t) ∧ o01_TupleNamedKeeps P env t
  | .named name qname => by
    refine ⟨?_, fun ts h => by cases h⟩
    unfold typeStr
    o01_keeps [o01_addToImports_keeps]
  | .final t => by
    have := (o01_typeStr_keeps' env t).1
    refine ⟨?_, fun ts h => by cases h⟩
    unfold typeStr
    exact this
  | .callable params ret => by
    have h1 := o01_typeStrsNamed_keeps env "param_" 1 params
    have h2 := (o01_typeStr_keeps' env ret).1
    have h3 : ∀ ts, ret = .tuple ts → o01_Keeps P (typeStrsNamed env "result_" 1 ts) :=
      fun ts h => (o01_typeStr_keeps' env ret).2 ts h "result_" 1
    refine ⟨?_, fun ts h => by cases h⟩
    unfold typeStr
    o01_keeps [h3 _ rfl]
  | .set ts => by
    have h1 := o01_typeStrs_keeps env ts
    refine ⟨?_, fun ts h => by cases h⟩
    unfold typeStr
    o01_keeps []
  | .list ts => by
    have h1 := o01_typeStrs_keeps env ts
    refine ⟨?_, fun ts h => by cases h⟩
    unfold typeStr
    o01_keeps []
  | .namedSeq name _ ts => by
    have h1 := o01_typeStrs_keeps env ts
    refine ⟨?_, fun ts h => by cases h⟩
    unfold typeStr
    o01_keeps [o01_addToImports_keeps]
    rename_i hc
    simp only [Bool.and_eq_true, Bool.or_eq_true, beq_iff_eq] at hc
    refine o01_addTodo_keeps ?_
    rcases hc.2 with h | h <;> rw [h] <;> decide
  | .unknown => by
    refine ⟨?_, fun ts h => by cases h⟩
    unfold typeStr
    o01_keeps []
  | .union ts => by
    have h1 := o01_typeStrs_keeps env ts
    have h2 := o01_typeStrsSkipLit_keeps env ts
    refine ⟨?_, fun ts h => by cases h⟩
    unfold typeStr
    o01_keeps []
  | .tuple ts => by
    have h1 := o01_typeStrs_keeps env ts
    have h2 := fun pre i => o01_typeStrsNamed_keeps env pre i ts
    refine ⟨?_, fun ts' h pre i => by cases h; exact h2 pre i⟩
    unfold typeStr
    o01_keeps []
  | .dict k v => by
    have h1 := (o01_typeStr_keeps' env k).1
    have h2 := (o01_typeStr_keeps' env v).1
    refine ⟨?_, fun ts h => by cases h⟩
    unfold typeStr
    o01_keeps []
  | .literal ls => by
    refine ⟨?_, fun ts h => by cases h⟩
    unfold typeStr
    o01_keeps []
  | .typeVar name => by
    refine ⟨?_, fun ts h => by cases h⟩
    unfold typeStr
    o01_keeps []
  | .typeVarB name _ => by
    refine ⟨?_, fun ts h => by cases h⟩
    unfold typeStr
    o01_keeps []
  | .enum _ => by
    refine ⟨?_, fun ts h => by cases h⟩
    unfold typeStr
    o01_keeps []
  | .boundary .. => by
    refine ⟨?_, fun ts h => by cases h⟩
    unfold typeStr
    o01_keeps []
theorem o01_typeStrs_keeps (env : Env) : (ts : List AType) → o01_Keeps P (typeStrs env ts)
  | [] => by unfold typeStrs; o01_keeps []
  | t :: ts => by
    have h1 := (o01_typeStr_keeps' env t).1
    have h2 := o01_typeStrs_keeps env ts
    unfold typeStrs
    o01_keeps []
theorem o01_typeStrsSkipLit_keeps (env : Env) : (ts : List AType) → o01_Keeps P (typeStrsSkipLit env ts)
  | [] => by unfold typeStrsSkipLit; o01_keeps []
  | t :: ts => by
    have h1 := (o01_typeStr_keeps' env t).1
    have h2 := o01_typeStrsSkipLit_keeps env ts
    unfold typeStrsSkipLit
    o01_keeps []
theorem o01_typeStrsNamed_keeps (env : Env) (pre : String) (i : Nat) :
    (ts : List AType) → o01_Keeps P (typeStrsNamed env pre i ts)
  | [] => by unfold typeStrsNamed; o01_keeps []
  | t :: ts => by
    have h1 := (o01_typeStr_keeps' env t).1
    have h2 := o01_typeStrsNamed_keeps env pre (i + 1) ts
    unfold typeStrsNamed
    o01_keeps []
end

theorem o01_typeStr_keeps (env : Env) (t : AType) : o01_Keeps P (typeStr env t) := (o01_typeStr_keeps' env t).1

theorem o01_typeStrOpt_keeps (env : Env) (t : Option AType) : o01_Keeps P (typeStrOpt env t) := by
  unfold typeStrOpt
  o01_keeps [o01_typeStr_keeps]

theorem o01_defaultString_keeps (a : Assign) (d : DefaultVal) : o01_Keeps P (defaultString a d) := by
  unfold defaultString
  o01_keeps []

theorem o01_createParameter_keeps (env : Env) (p : Parameter) : o01_Keeps P (createParameter env p) := by
  unfold createParameter
  o01_keeps [o01_typeStr_keeps, o01_defaultString_keeps]

theorem o01_createParameters_keeps (env : Env) : (ps : List Parameter) → o01_Keeps P (createParameters env ps)
  | [] => by unfold createParameters; o01_keeps []
  | p :: ps => by
    have := o01_createParameters_keeps env ps
    unfold createParameters
    o01_keeps [o01_createParameter_keeps]

theorem o01_createParameterString_keeps (env : Env) (ps : List Parameter) (indent : String) (b : Bool) :
    o01_Keeps P (createParameterString env ps indent b) := by
  unfold createParameterString
  o01_keeps [o01_createParameters_keeps]

theorem o01_createResults_keeps (env : Env) : (rs : List Result) → o01_Keeps P (createResults env rs)
  | [] => by unfold createResults; o01_keeps []
  | r :: rs => by
    have := o01_createResults_keeps env rs
    unfold createResults
    o01_keeps [o01_typeStr_keeps]

theorem o01_createResultString_keeps (env : Env) (rs : List Result) : o01_Keeps P (createResultString env rs) := by
  unfold createResultString
  o01_keeps [o01_createResults_keeps]

theorem o01_typeVarStrings_keeps (env : Env) (b : Bool) : (tvs : List TypeVar) → o01_Keeps P (typeVarStrings env b tvs)
  | [] => by unfold typeVarStrings; o01_keeps []
  | tv :: tvs => by
    have := o01_typeVarStrings_keeps env b tvs
    unfold typeVarStrings
    o01_keeps [o01_typeStr_keeps]

theorem o01_createFunctionString_keeps (env : Env) (f : Function) (indent : String) (b1 b2 : Bool) :
    o01_Keeps P (createFunctionString env f indent b1 b2) := by
  unfold createFunctionString
  o01_keeps [o01_hasNodeShorterReexport_keeps, o01_createParameterString_keeps, o01_typeVarStrings_keeps,
    o01_createResultString_keeps, o01_createTodoMsg_keeps]

theorem o01_createPropertyFunctionString_keeps (env : Env) (f : Function) (indent : String) :
    o01_Keeps P (createPropertyFunctionString env f indent) := by
  unfold createPropertyFunctionString
  o01_keeps [o01_typeStr_keeps, o01_createTodoMsg_keeps]

theorem o01_createAttribute_keeps (env : Env) (a : Attribute) (inner : String) :
    o01_Keeps P (createAttribute env a inner) := by
  unfold createAttribute
  o01_keeps [o01_typeStrOpt_keeps, o01_createTodoMsg_keeps]

theorem o01_createAttributes_keeps (env : Env) (inner : String) :
    (as : List Attribute) → o01_Keeps P (createAttributes env inner as)
  | [] => by unfold createAttributes; o01_keeps []
  | a :: as => by
    have := o01_createAttributes_keeps env inner as
    unfold createAttributes
    o01_keeps [o01_createAttribute_keeps]

theorem o01_createClassAttributeString_keeps (env : Env) (as : List Attribute) (inner : String) :
    o01_Keeps P (createClassAttributeString env as inner) := by
  unfold createClassAttributeString
  o01_keeps [o01_createAttributes_keeps]

theorem o01_createMethods_keeps (env : Env) (inner : String) (b : Bool) (ad : List String) :
    (ms : List Function) → o01_Keeps P (createMethods env inner b ad ms)
  | [] => by unfold createMethods; o01_keeps []
  | m :: ms => by
    have := o01_createMethods_keeps env inner b ad ms
    unfold createMethods
    o01_keeps [o01_createPropertyFunctionString_keeps, o01_createFunctionString_keeps]

theorem o01_createClassMethodString_keeps (env : Env) (ms : List Function) (inner : String) (b : Bool)
    (ad : List String) : o01_Keeps P (createClassMethodString env ms inner b ad) := by
  unfold createClassMethodString
  o01_keeps [o01_createMethods_keeps]

theorem o01_typeParamStrings_keeps (env : Env) : (tps : List TypeParam) → o01_Keeps P (typeParamStrings env tps)
  | [] => by unfold typeParamStrings; o01_keeps []
  | tp :: tps => by
    have := o01_typeParamStrings_keeps env tps
    unfold typeParamStrings
    o01_keeps [o01_varianceKeyword_keeps, o01_typeStr_keeps]

theorem o01_innerClassesG_keeps (render : Class → G String) (hr : ∀ c, o01_Keeps P (render c)) :
    (cs : List Class) → o01_Keeps P (innerClassesG render cs)
  | [] => by unfold innerClassesG; o01_keeps []
  | c :: cs => by
    have := o01_innerClassesG_keeps render hr cs
    unfold innerClassesG
    o01_keeps [hr]

theorem o01_superclassesG_keeps (env : Env) (inline : String → G String) (hr : ∀ c, o01_Keeps P (inline c)) :
    (scs : List String) → o01_Keeps P (superclassesG env inline scs)
  | [] => by unfold superclassesG; o01_keeps []
  | sc :: scs => by
    have := o01_superclassesG_keeps env inline hr scs
    unfold superclassesG
    o01_keeps [hr, o01_addToImports_keeps]

theorem o01_internalSupersG_keeps (inline : String → G String) (hr : ∀ c, o01_Keeps P (inline c)) :
    (scs : List String) → o01_Keeps P (internalSupersG inline scs)
  | [] => by unfold internalSupersG; o01_keeps []
  | sc :: scs => by
    have := o01_internalSupersG_keeps inline hr scs
    unfold internalSupersG
    o01_keeps [hr]

theorem o01_getClassInPackage_err {env : Env} {sc : String} {e : PyErr}
    (h : getClassInPackage env sc = .error e) : e = .lookupError := by
  rw [o01_getClassInPackage_eq] at h
  split at h
  · cases h
  · cases h; rfl

mutual
theorem o01_createClassString_keeps (env : Env) : (fuel : Nat) → (c : Class) → (indent : String) → (b : Bool) →
    o01_Keeps P (createClassString env fuel c indent b)
  | 0, _, _, _ => by unfold createClassString; o01_keeps []
  | fuel + 1, c, indent, b => by
    have h1 := fun c i b => o01_createClassString_keeps env fuel c i b
    have h2 := fun sc i ad => o01_createInternalClassString_keeps env fuel sc i ad
    unfold createClassString
    o01_keeps [o01_hasNodeShorterReexport_keeps, o01_createParameterString_keeps, o01_typeParamStrings_keeps,
      o01_createTodoMsg_keeps, o01_createClassAttributeString_keeps, o01_innerClassesG_keeps,
      o01_createClassMethodString_keeps, o01_superclassesG_keeps, h1, h2]
theorem o01_createInternalClassString_keeps (env : Env) : (fuel : Nat) → (sc : String) → (inner : String) →
    (ad : List String) → o01_Keeps P (createInternalClassString env fuel sc inner ad)
  | 0, _, _, _ => by unfold createInternalClassString; o01_keeps []
  | fuel + 1, sc, inner, ad => by
    have h1 := fun c i b => o01_createClassString_keeps env fuel c i b
    have h2 := fun sc i ad => o01_createInternalClassString_keeps env fuel sc i ad
    unfold createInternalClassString
    o01_keeps [o01_createClassMethodString_keeps, o01_innerClassesG_keeps, o01_internalSupersG_keeps, h1, h2]
    rename_i e he
    exact o01_Keeps.throw (by rw [o01_getClassInPackage_err he]; decide)
end

theorem o01_createImportsString_keeps (env : Env) : o01_Keeps P (createImportsString env) :=
  o01_Keeps.of_safe (o01_createImportsString_safe env)

theorem o01_createFunctions_keeps (env : Env) (b : Bool) : (fs : List Function) → o01_Keeps P (createFunctions env b fs)
  | [] => by unfold createFunctions; o01_keeps []
  | f :: fs => by
    have := o01_createFunctions_keeps env b fs
    unfold createFunctions
    o01_keeps [o01_createFunctionString_keeps]

theorem o01_createClasses_keeps (env : Env) (b : Bool) : (cs : List Class) → o01_Keeps P (createClasses env b cs)
  | [] => by unfold createClasses; o01_keeps []
  | c :: cs => by
    have := o01_createClasses_keeps env b cs
    unfold createClasses
    o01_keeps [o01_createClassString_keeps]

theorem o01_createModuleString_keeps (env : Env) (m : Module) : o01_Keeps P (createModuleString env m) := by
  unfold createModuleString
  o01_keeps [o01_createFunctions_keeps, o01_createClasses_keeps, o01_createImportsString_keeps]

theorem o01_callGenerator_keeps (env : Env) (m : Module) : o01_Keeps P (callGenerator env m) := by
  have h3 : o01_Keeps P (modify fun s => { s with reexportModuleId := "", classGenerics := [], imports := [], todos := [] } : G PUnit) :=
    o01_Keeps.modify fun s hI => o01_Inv.mk (fun _ hk => nomatch hk) hI.outside hI.reexports
  unfold callGenerator
  o01_keeps [o01_setModuleId_keeps, o01_createModuleString_keeps]

theorem o01_generateModules_keeps (env : Env) : (ms : List Module) → o01_Keeps P (generateModules env ms)
  | [] => by unfold generateModules; o01_keeps []
  | m :: ms => by
    have := o01_generateModules_keeps env ms
    unfold generateModules
    o01_keeps [o01_callGenerator_keeps]

theorem o01_createReexportElements_keeps (env : Env) (moduleId : String) :
    (els : List Node) → o01_Keeps P (createReexportElements env moduleId els)
  | [] => by unfold createReexportElements; o01_keeps []
  | el :: els => by
    have := o01_createReexportElements_keeps env moduleId els
    unfold createReexportElements
    o01_keeps [o01_setModuleId_keeps, o01_createClassString_keeps, o01_createFunctionString_keeps,
      o01_createImportsString_keeps]

theorem o01_createReexportModules_keeps (env : Env) :
    (rs : List (String × List Node)) → o01_Keeps P (createReexportModules env rs)
  | [] => by unfold createReexportModules; o01_keeps []
  | (moduleId, elements) :: rest => by
    have := o01_createReexportModules_keeps env rest
    unfold createReexportModules
    o01_keeps [o01_setModuleId_keeps, o01_createReexportElements_keeps]

theorem o01_createReexportModuleStrings_keeps (env : Env) : o01_Keeps P (createReexportModuleStrings env) := by
  unfold createReexportModuleStrings
  o01_keeps [o01_createReexportModules_keeps]

theorem o01_generateStubData_keeps (env : Env) : o01_Keeps P (generateStubData env) := by
  unfold generateStubData
  o01_keeps [o01_generateModules_keeps, o01_createReexportModuleStrings_keeps]

end KeepsAll

/-- the only exceptions a run can end in; the placeholder stubs never raise -/
theorem o01_runGenerator_errs (api : API) (safe : Bool) (pre : List String) (e : PyErr)
    (h : runGenerator api safe pre = .error e) : e ∈ o01_errs := by
  have hk := (o01_generateStubData_keeps (P := o01_P0) ⟨api, safe⟩).run {} (o01_inv_init _)
  unfold runGenerator at h
  dsimp only at h
  cases hg : generateStubData { api := api, safe := safe } {} with
  | error e' =>
    rw [hg] at hk
    have hg' : (generateStubData { api := api, safe := safe }).run {} = .error e' := hg
    rw [hg'] at h
    dsimp only at h
    cases h
    exact hk
  | ok v =>
    obtain ⟨stubs, st⟩ := v
    rw [hg] at hk
    have hg' : (generateStubData { api := api, safe := safe }).run {} = .ok (stubs, st) := hg
    rw [hg'] at h
    dsimp only at h
    obtain ⟨ops, h2⟩ := o01_createStubFiles_ok safe stubs st.outside pre hk.outside
    rw [h2] at h
    cases h

end StubGen
