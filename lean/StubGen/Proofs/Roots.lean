/-
Helper lemmas for `StubGen.Theorems.C15a` (root adjustment `_get_nearest_init_dirs`, the composed
discovery step `discoverFrom`, the AST selection `selectAsts`).

* `x15_loop`: the Python loop of `_get_nearest_init_dirs`, literally, as a left fold with its three
  branches; `x15_loop_eq`: it computes what the model's min-based `nearestInitDirs` computes.
* `x15_isNearest`: the declarative "is an `__init__.py` with the fewest components" test and the
  filter form of `nearestInitDirs`.
* `isPrefixParts` is `<+:`; init files are determined by their directory.

All new names are prefixed `x15_`.
-/
import StubGen.Model.Discovery
import StubGen.Proofs.Order
import Mathlib.Data.List.Perm.Basic
import Mathlib.Data.List.Nodup
import Mathlib.Data.List.Infix

namespace StubGen

open List

/-! ### 1. the imperative loop -/

/-- One iteration of the loop body of `_get_nearest_init_dirs`.  The state is
    `(shortest_len, shortest_init_paths)`; Python's `shortest_len == -1` is `none`.

    ```
    if shortest_len == -1:           shortest_len = path_len; shortest_init_paths.append(init.parent)
    elif path_len <= shortest_len:
        if path_len == shortest_len: shortest_init_paths.append(init.parent)
        else:                        shortest_len = path_len; shortest_init_paths = [init.parent]
    ```
-/
def x15_step (st : Option Nat × List PathParts) (init : PathParts) : Option Nat × List PathParts :=
  match st.1 with
  | none => (some init.length, st.2 ++ [init.dropLast])
  | some shortest =>
    if init.length ≤ shortest then
      if init.length = shortest then (some shortest, st.2 ++ [init.dropLast])
      else (some init.length, [init.dropLast])
    else st

/-- the loop over `all_inits`, from `shortest_init_paths = []`, `shortest_len = -1` -/
def x15_loop (inits : List PathParts) : Option Nat × List PathParts :=
  inits.foldl x15_step (none, [])

/-- the seeded defect: the branch "a shorter path is found later" removed -/
def x15_stepDefect (st : Option Nat × List PathParts) (init : PathParts) : Option Nat × List PathParts :=
  match st.1 with
  | none => (some init.length, st.2 ++ [init.dropLast])
  | some shortest =>
    if init.length = shortest then (some shortest, st.2 ++ [init.dropLast]) else st

def x15_loopDefect (inits : List PathParts) : Option Nat × List PathParts :=
  inits.foldl x15_stepDefect (none, [])

theorem x15_foldl_min_le (ls : List Nat) (m : Nat) : ls.foldl min m ≤ m :=
  (p08_foldl_min_spec ls m).2 m (by simp)

/-- the loop invariant, as the closed form of the fold from an arbitrary reached state -/
theorem x15_foldl_step (l : List PathParts) : ∀ (m : Nat) (acc : List PathParts),
    l.foldl x15_step (some m, acc) =
      (some ((l.map List.length).foldl min m),
        if (l.map List.length).foldl min m = m
        then acc ++ (l.filter (·.length == (l.map List.length).foldl min m)).map List.dropLast
        else (l.filter (·.length == (l.map List.length).foldl min m)).map List.dropLast) := by
  induction l with
  | nil => intro m acc; simp
  | cons x l ih =>
    intro m acc
    rw [List.foldl_cons, List.map_cons, List.foldl_cons]
    rcases Nat.lt_trichotomy x.length m with hlt | heq | hgt
    · -- a shorter path found later: restart
      have hs : x15_step (some m, acc) x = (some x.length, [x.dropLast]) := by
        simp only [x15_step, if_pos (Nat.le_of_lt hlt), if_neg (Nat.ne_of_lt hlt)]
      have hmin : min m x.length = x.length := Nat.min_eq_right (Nat.le_of_lt hlt)
      rw [hs, hmin, ih]
      have hle := x15_foldl_min_le (l.map List.length) x.length
      have hne : ¬ (l.map List.length).foldl min x.length = m := by omega
      rw [if_neg hne]
      by_cases he : (l.map List.length).foldl min x.length = x.length
      · rw [if_pos he, he, List.filter_cons, if_pos (by simp)]; simp
      · rw [if_neg he, List.filter_cons, if_neg (by simpa using fun h => he h.symm)]
    · -- equally short: append
      have hs : x15_step (some m, acc) x = (some m, acc ++ [x.dropLast]) := by
        simp only [x15_step, heq, Nat.le_refl, if_true]
      have hmin : min m x.length = m := by rw [heq]; exact Nat.min_self _
      rw [hs, hmin, ih]
      by_cases he : (l.map List.length).foldl min m = m
      · rw [if_pos he, if_pos he, he, List.filter_cons, if_pos (by simp [heq])]; simp
      · rw [if_neg he, if_neg he, List.filter_cons,
          if_neg (by rw [heq]; simpa using fun h => he h.symm)]
    · -- longer: skip
      have hs : x15_step (some m, acc) x = (some m, acc) := by
        simp only [x15_step, if_neg (Nat.not_le_of_gt hgt)]
      have hmin : min m x.length = m := Nat.min_eq_left (Nat.le_of_lt hgt)
      rw [hs, hmin, ih]
      have hle := x15_foldl_min_le (l.map List.length) m
      have hx : ¬ (x.length == (l.map List.length).foldl min m) = true := by
        simp only [beq_iff_eq]; omega
      rw [List.filter_cons, if_neg hx]

/-- Theorem 1, on the list of init files: the loop returns the minimum length and the directories of
    the minimal ones in order -/
theorem x15_loop_closed (inits : List PathParts) :
    x15_loop inits =
      match inits with
      | [] => (none, [])
      | i :: is =>
        (some ((is.map List.length).foldl min i.length),
          ((i :: is).filter (·.length == (is.map List.length).foldl min i.length)).map List.dropLast) := by
  cases inits with
  | nil => rfl
  | cons i is =>
    have h0 : x15_step (none, []) i = (some i.length, [i.dropLast]) := rfl
    show (i :: is).foldl x15_step (none, []) =
      (some ((is.map List.length).foldl min i.length),
        ((i :: is).filter (·.length == (is.map List.length).foldl min i.length)).map List.dropLast)
    rw [List.foldl_cons, h0, x15_foldl_step]
    by_cases he : (is.map List.length).foldl min i.length = i.length
    · rw [if_pos he, he, List.filter_cons, if_pos (by simp)]; simp
    · rw [if_neg he, List.filter_cons, if_neg (by simpa using fun h => he h.symm)]

theorem x15_loop_eq (files : List PathParts) :
    nearestInitDirs files = (x15_loop (files.filter isInitFile)).2 := by
  rw [x15_loop_closed]
  unfold nearestInitDirs
  cases files.filter isInitFile with
  | nil => rfl
  | cons i is => rfl

theorem x15_loop_fst (inits : List PathParts) :
    (x15_loop inits).1 = match inits with
      | [] => none
      | i :: is => some ((is.map List.length).foldl min i.length) := by
  rw [x15_loop_closed]; cases inits <;> rfl

/-! ### 2. the declarative form -/

/-- `f` is an `__init__.py` with the fewest path components among the `__init__.py` files of `files` -/
def x15_isNearest (files : List PathParts) (f : PathParts) : Bool :=
  isInitFile f && files.all fun g => !isInitFile g || decide (f.length ≤ g.length)

theorem x15_isNearest_iff (files : List PathParts) (f : PathParts) :
    x15_isNearest files f = true ↔
      isInitFile f = true ∧ ∀ g ∈ files, isInitFile g = true → f.length ≤ g.length := by
  simp only [x15_isNearest, Bool.and_eq_true, List.all_eq_true, Bool.or_eq_true, Bool.not_eq_eq_eq_not,
    Bool.not_true, decide_eq_true_eq]
  constructor
  · rintro ⟨h1, h2⟩
    refine ⟨h1, fun g hg hi => ?_⟩
    rcases h2 g hg with h | h
    · rw [hi] at h; cases h
    · exact h
  · rintro ⟨h1, h2⟩
    refine ⟨h1, fun g hg => ?_⟩
    by_cases hi : isInitFile g = true
    · exact Or.inr (h2 g hg hi)
    · exact Or.inl (by simpa using hi)

theorem x15_minLen_spec (ls : List Nat) (hne : ls ≠ []) :
    p08_minLen ls ∈ ls ∧ ∀ x ∈ ls, p08_minLen ls ≤ x := by
  cases ls with
  | nil => exact absurd rfl hne
  | cons l ls => exact p08_foldl_min_spec ls l

/-- `nearestInitDirs` as an order-preserving filter of the enumeration -/
theorem x15_nearest_eq_filter (files : List PathParts) :
    nearestInitDirs files = (files.filter (x15_isNearest files)).map List.dropLast := by
  rw [p08_nearestInitDirs_eq, List.filter_filter]
  congr 1
  apply List.filter_congr
  intro f hf
  rw [Bool.eq_iff_iff, x15_isNearest_iff]
  simp only [Bool.and_eq_true, beq_iff_eq]
  have hne : (files.filter isInitFile).map List.length ≠ [] ∨ isInitFile f = false := by
    by_cases hi : isInitFile f = true
    · left
      intro h
      have : f.length ∈ (files.filter isInitFile).map List.length :=
        List.mem_map.2 ⟨f, List.mem_filter.2 ⟨hf, hi⟩, rfl⟩
      rw [h] at this; cases this
    · right; simpa using hi
  constructor
  · rintro ⟨hl, hi⟩
    rcases hne with hne | hne
    · refine ⟨hi, fun g hg hgi => ?_⟩
      rw [hl]
      exact (x15_minLen_spec _ hne).2 _ (List.mem_map.2 ⟨g, List.mem_filter.2 ⟨hg, hgi⟩, rfl⟩)
    · rw [hne] at hi; cases hi
  · rintro ⟨hi, hmin⟩
    rcases hne with hne | hne
    · refine ⟨?_, hi⟩
      obtain ⟨hmem, hle⟩ := x15_minLen_spec _ hne
      obtain ⟨g, hg, hgl⟩ := List.mem_map.1 hmem
      obtain ⟨hg1, hg2⟩ := List.mem_filter.1 hg
      apply Nat.le_antisymm
      · rw [← hgl]; exact hmin g hg1 hg2
      · exact hle _ (List.mem_map.2 ⟨f, List.mem_filter.2 ⟨hf, hi⟩, rfl⟩)
    · rw [hne] at hi; cases hi

/-! ### 3. paths -/

theorem x15_isPrefixParts_iff : ∀ (a b : PathParts), isPrefixParts a b = true ↔ a <+: b
  | [], b => by simp [isPrefixParts]
  | _ :: _, [] => by simp [isPrefixParts]
  | a :: as, b :: bs => by
    simp only [isPrefixParts, Bool.and_eq_true, beq_iff_eq, x15_isPrefixParts_iff as bs, List.cons_prefix_cons]

theorem x15_init_eq {f : PathParts} (h : isInitFile f = true) : f = f.dropLast ++ ["__init__.py"] := by
  simp only [isInitFile, beq_iff_eq] at h
  exact (List.dropLast_append_getLast? _ (by rw [h]; rfl)).symm

theorem x15_isInitFile_append (d : PathParts) : isInitFile (d ++ ["__init__.py"]) = true := by
  simp [isInitFile]

theorem x15_dropLast_inj {f g : PathParts} (hf : isInitFile f = true) (hg : isInitFile g = true)
    (h : f.dropLast = g.dropLast) : f = g := by
  rw [x15_init_eq hf, x15_init_eq hg, h]

theorem x15_nearest_nodup {files : List PathParts} (h : files.Nodup) : (nearestInitDirs files).Nodup := by
  rw [x15_nearest_eq_filter]
  apply List.Nodup.map_on _ (h.filter _)
  intro f hf g hg hfg
  exact x15_dropLast_inj ((x15_isNearest_iff _ _).1 (List.mem_filter.1 hf).2).1
    ((x15_isNearest_iff _ _).1 (List.mem_filter.1 hg).2).1 hfg

/-! ### 4. `adjustRoot` -/

theorem x15_adjustRoot_single {root : PathParts} {files : List PathParts} {d : PathParts}
    (h : nearestInitDirs files = [d]) : adjustRoot root files = d := by
  unfold adjustRoot; rw [h]

theorem x15_adjustRoot_other {root : PathParts} {files : List PathParts}
    (h : ∀ d, nearestInitDirs files ≠ [d]) : adjustRoot root files = root := by
  unfold adjustRoot
  split
  · rename_i d hd; exact absurd hd (h d)
  · rfl

theorem x15_adjustRoot_cases (root : PathParts) (files : List PathParts) :
    (∃ d, nearestInitDirs files = [d] ∧ adjustRoot root files = d) ∨
    ((∀ d, nearestInitDirs files ≠ [d]) ∧ adjustRoot root files = root) := by
  by_cases h : ∃ d, nearestInitDirs files = [d]
  · obtain ⟨d, hd⟩ := h
    exact Or.inl ⟨d, hd, x15_adjustRoot_single hd⟩
  · have h' : ∀ d, nearestInitDirs files ≠ [d] := fun d hd => h ⟨d, hd⟩
    exact Or.inr ⟨h', x15_adjustRoot_other h'⟩

/-- a duplicate-free list has exactly the member `d` iff it is `[d]` -/
theorem x15_nodup_unique {α : Type} {l : List α} (hn : l.Nodup) (d : α) :
    (∀ x, x ∈ l ↔ x = d) ↔ l = [d] := by
  constructor
  · intro h
    cases l with
    | nil => exact absurd ((h d).2 rfl) (by simp)
    | cons a t =>
      have ha : a = d := (h a).1 (by simp)
      subst ha
      cases t with
      | nil => rfl
      | cons b t =>
        have hb : b = a := (h b).1 (by simp)
        subst hb
        simp at hn
  · intro h x; rw [h]; simp

/-- every nearest init directory of a tree whose init files lie strictly below `root` is below `root` -/
theorem x15_nearest_below {root : PathParts} {files : List PathParts}
    (hbelow : ∀ f ∈ files, isInitFile f = true → root <+: f ∧ f ≠ root)
    {d : PathParts} (hd : d ∈ nearestInitDirs files) : root <+: d := by
  rw [x15_nearest_eq_filter] at hd
  obtain ⟨f, hf, rfl⟩ := List.mem_map.1 hd
  obtain ⟨hf1, hf2⟩ := List.mem_filter.1 hf
  obtain ⟨⟨t, ht⟩, hne⟩ := hbelow f hf1 ((x15_isNearest_iff _ _).1 hf2).1
  have htne : t ≠ [] := by
    intro h; apply hne; rw [← ht, h]; simp
  rw [← ht, List.dropLast_append_of_ne_nil htne]
  exact List.prefix_append _ _

/-- `root` itself is a package and nothing shallower exists: all nearest directories are `root` -/
theorem x15_nearest_root_package {root : PathParts} {files : List PathParts}
    (hin : root ++ ["__init__.py"] ∈ files)
    (hbelow : ∀ f ∈ files, isInitFile f = true → root <+: f ∧ f ≠ root)
    {d : PathParts} (hd : d ∈ nearestInitDirs files) : d = root := by
  rw [x15_nearest_eq_filter] at hd
  obtain ⟨f, hf, rfl⟩ := List.mem_map.1 hd
  obtain ⟨hf1, hf2⟩ := List.mem_filter.1 hf
  obtain ⟨hi, hmin⟩ := (x15_isNearest_iff _ _).1 hf2
  obtain ⟨⟨t, ht⟩, hne⟩ := hbelow f hf1 hi
  have hlen := hmin _ hin (x15_isInitFile_append root)
  have htne : t ≠ [] := by
    intro h; apply hne; rw [← ht, h]; simp
  rw [← ht] at hlen
  simp only [List.length_append, List.length_cons, List.length_nil] at hlen
  have ht1 : t.length = 1 := by
    have : 0 < t.length := List.length_pos_iff.2 htne
    omega
  obtain ⟨x, rfl⟩ := List.length_eq_one_iff.1 ht1
  rw [← ht]; simp

theorem x15_adjustRoot_root_package {root : PathParts} {files : List PathParts}
    (hin : root ++ ["__init__.py"] ∈ files)
    (hbelow : ∀ f ∈ files, isInitFile f = true → root <+: f ∧ f ≠ root) :
    adjustRoot root files = root := by
  rcases x15_adjustRoot_cases root files with ⟨d, hd, h⟩ | ⟨_, h⟩
  · rw [h]; exact x15_nearest_root_package hin hbelow (by rw [hd]; simp)
  · exact h

/-- restricting to the files below a directory that contains a nearest init file keeps the nearest
    init files that are below it -/
theorem x15_filter_isNearest_under (files : List PathParts) (P : PathParts → Bool) {f : PathParts}
    (hf : f ∈ files) (hP : P f = true) (hn : x15_isNearest files f = true) :
    (files.filter P).filter (x15_isNearest (files.filter P)) = (files.filter (x15_isNearest files)).filter P := by
  rw [List.filter_filter, List.filter_filter]
  apply List.filter_congr
  intro g hg
  obtain ⟨hfi, hfmin⟩ := (x15_isNearest_iff _ _).1 hn
  by_cases hPg : P g = true
  · rw [hPg, Bool.and_true, Bool.true_and, Bool.eq_iff_iff, x15_isNearest_iff, x15_isNearest_iff]
    constructor
    · rintro ⟨hi, hmin⟩
      refine ⟨hi, fun k hk hki => ?_⟩
      exact Nat.le_trans (hmin f (List.mem_filter.2 ⟨hf, hP⟩) hfi) (hfmin k hk hki)
    · rintro ⟨hi, hmin⟩
      exact ⟨hi, fun k hk hki => hmin k (List.mem_filter.1 hk).1 hki⟩
  · have : P g = false := by simpa using hPg
    rw [this]; simp

theorem x15_adjustRoot_idem (root : PathParts) (files : List PathParts)
    (hbelow : ∀ f ∈ files, isPrefixParts root f = true) :
    adjustRoot (adjustRoot root files) (filesUnder (adjustRoot root files) files) = adjustRoot root files := by
  rcases x15_adjustRoot_cases root files with ⟨d, hd, h⟩ | ⟨hno, h⟩
  · rw [h]
    apply x15_adjustRoot_single
    have hd' := hd
    rw [x15_nearest_eq_filter] at hd'
    obtain ⟨f, hfl, hfd⟩ : ∃ f, files.filter (x15_isNearest files) = [f] ∧ f.dropLast = d := by
      cases hl : files.filter (x15_isNearest files) with
      | nil => rw [hl] at hd'; cases hd'
      | cons a t =>
        rw [hl] at hd'
        cases t with
        | nil => exact ⟨a, rfl, by simpa using hd'⟩
        | cons b t => simp at hd'
    have hfm : f ∈ files.filter (x15_isNearest files) := by rw [hfl]; simp
    obtain ⟨hf1, hf2⟩ := List.mem_filter.1 hfm
    have hP : isPrefixParts d f = true := by
      rw [x15_isPrefixParts_iff, ← hfd]
      exact List.dropLast_prefix f
    rw [x15_nearest_eq_filter]
    unfold filesUnder
    rw [x15_filter_isNearest_under files (isPrefixParts d) hf1 hP hf2, hfl]
    simp [hP, hfd]
  · rw [h]
    have : filesUnder root files = files := by
      unfold filesUnder
      exact List.filter_eq_self.2 hbelow
    rw [this, h]

/-! ### 5. `selectAsts` -/

/-- `ast.path.endswith("__init__.py")` -/
def x15_isInitPath (p : String) : Bool := pyEndsWith p "__init__.py"

/-- `ast.path.split("__init__.py")[0][:-1]` -/
def x15_pkgDir (p : String) : String :=
  String.ofList ((pySplitStr p "__init__.py").headD "").toList.dropLast

def x15_selPkg (d : Discovered) (p : String) : Bool :=
  x15_isInitPath p && (d.packages.map pathStr).contains (x15_pkgDir p)

def x15_selMod (d : Discovered) (p : String) : Bool :=
  !x15_isInitPath p && (d.walkable.map pathStr).contains p

theorem x15_selectAsts_eq (graph : List String) (d : Discovered) :
    selectAsts graph d = graph.filter (x15_selPkg d) ++ graph.filter (x15_selMod d) := rfl

theorem x15_sel_disjoint (d : Discovered) (p : String) (h : x15_selPkg d p = true) : x15_selMod d p = false := by
  simp only [x15_selPkg, Bool.and_eq_true] at h
  simp [x15_selMod, h.1]

theorem x15_selectAsts_perm_filter (graph : List String) (d : Discovered) :
    selectAsts graph d ~ graph.filter (fun p => x15_selPkg d p || x15_selMod d p) := by
  rw [x15_selectAsts_eq]
  have h := List.filter_append_perm (x15_selPkg d) (graph.filter (fun p => x15_selPkg d p || x15_selMod d p))
  rw [List.filter_filter, List.filter_filter] at h
  have e1 : graph.filter (fun p => x15_selPkg d p && (x15_selPkg d p || x15_selMod d p)) = graph.filter (x15_selPkg d) := by
    apply List.filter_congr; intro p _; cases x15_selPkg d p <;> simp
  have e2 : graph.filter (fun p => (!x15_selPkg d p) && (x15_selPkg d p || x15_selMod d p)) = graph.filter (x15_selMod d) := by
    apply List.filter_congr; intro p _
    cases hp : x15_selPkg d p
    · simp
    · simp [x15_sel_disjoint d p hp]
  rw [e1, e2] at h
  exact h

end StubGen
