/-
Proof machinery for C13 (documentation): the one-entry docstring cache is transparent, and the
documentation-comment assembly of the generator is line for line.
-/
import StubGen.Model.Doc
import StubGen.Model.Gen
import StubGen.Proofs.Naming

namespace StubGen

/-! ## Part 1 — the cache invariant -/

/-- The cache invariant: whatever the cache holds for a qualified name is what the cache-less lookup
    returns for that name. -/
def Cache.Valid (root : GNode) (c : Cache) : Prop :=
  ∀ q, c.node = some q → lookupDoc root q = .ok c.doc

theorem Cache.valid_empty (root : GNode) : Cache.Valid root {} := by
  intro q h; cases h

theorem Cache.valid_store {root : GNode} {q : String} {d : Option GDoc} (h : lookupDoc root q = .ok d) :
    Cache.Valid root { node := some q, doc := d } := by
  intro q' hq'
  cases hq'
  exact h

/-- `getCached` unfolded into the two branches (miss-or-bypass / hit) -/
theorem getCached_cases (root : GNode) (c : Cache) (q : String) :
    (getCached root c q = (match lookupDoc root q with
        | .error e => .error e
        | .ok d => .ok (d, { node := some q, doc := d })))
    ∨ (c.node = some q ∧ getCached root c q = .ok (c.doc, c)) := by
  unfold getCached
  by_cases h : (c.node != some q || pyEndsWith q "__init__") = true
  · left; simp only [h, if_true]; rfl
  · right
    simp only [h, Bool.false_eq_true, if_false, and_true]
    simp only [Bool.or_eq_true, bne_iff_ne, ne_eq, not_or, Decidable.not_not] at h
    exact h.1

theorem getCached_ok {root : GNode} {c c' : Cache} {q : String} {d : Option GDoc}
    (hv : Cache.Valid root c) (h : getCached root c q = .ok (d, c')) :
    lookupDoc root q = .ok d ∧ Cache.Valid root c' := by
  rcases getCached_cases root c q with h1 | ⟨hn, h1⟩
  · rw [h1] at h
    cases hl : lookupDoc root q with
    | error e => rw [hl] at h; cases h
    | ok d0 =>
      rw [hl] at h
      cases h
      exact ⟨rfl, Cache.valid_store hl⟩
  · rw [h1] at h
    cases h
    exact ⟨hv q hn, hv⟩

theorem getCached_error {root : GNode} {c : Cache} {q : String} {e : PyErr}
    (_hv : Cache.Valid root c) (h : getCached root c q = .error e) :
    lookupDoc root q = .error e := by
  rcases getCached_cases root c q with h1 | ⟨_, h1⟩
  · rw [h1] at h
    cases hl : lookupDoc root q with
    | error e0 => rw [hl] at h; cases h; rfl
    | ok d0 => rw [hl] at h; cases h
  · rw [h1] at h; cases h

theorem getCached_total {root : GNode} {c : Cache} {q : String} {d : Option GDoc}
    (hv : Cache.Valid root c) (h : lookupDoc root q = .ok d) :
    ∃ c', getCached root c q = .ok (d, c') := by
  rcases getCached_cases root c q with h1 | ⟨hn, h1⟩
  · rw [h1, h]; exact ⟨_, rfl⟩
  · have := hv q hn
    rw [h] at this
    cases this
    exact ⟨c, h1⟩

theorem getCached_transparent {root : GNode} {c : Cache} {q : String} (hv : Cache.Valid root c) :
    (getCached root c q).map Prod.fst = lookupDoc root q := by
  cases hg : getCached root c q with
  | error e => rw [getCached_error hv hg]; rfl
  | ok r =>
    obtain ⟨d, c'⟩ := r
    rw [(getCached_ok hv hg).1]; rfl

/-- the three facts about one cached access, packaged for the query proofs: either both fail with
    the same error, or the access returns exactly the looked-up docstring and a valid cache -/
theorem getCached_spec {root : GNode} {c : Cache} (q : String) (hv : Cache.Valid root c) :
    (∃ e, getCached root c q = .error e ∧ lookupDoc root q = .error e)
    ∨ (∃ d c', getCached root c q = .ok (d, c') ∧ lookupDoc root q = .ok d ∧ Cache.Valid root c') := by
  cases hg : getCached root c q with
  | error e => exact Or.inl ⟨e, rfl, getCached_error hv hg⟩
  | ok r =>
    obtain ⟨d, c'⟩ := r
    have := getCached_ok hv hg
    exact Or.inr ⟨d, c', rfl, this.1, this.2⟩

/-! ## Part 2 — the five queries against their cache-less specifications -/

/-- a query result agrees with its cache-less specification, and leaves a valid state -/
def Agrees {α : Type} (s : ParserState) (res : Except PyErr (α × ParserState)) (spec : Except PyErr α) : Prop :=
  match res with
  | .error e => spec = .error e
  | .ok (a, s') => spec = .ok a ∧ s'.root = s.root ∧ s'.style = s.style ∧ Cache.Valid s'.root s'.cache

theorem Agrees.map_fst {α : Type} {s : ParserState} {res : Except PyErr (α × ParserState)} {spec : Except PyErr α}
    (h : Agrees s res spec) : res.map Prod.fst = spec := by
  cases res with
  | error e => exact h.symm
  | ok r => obtain ⟨a, s'⟩ := r; exact h.1.symm

def paramRecord (m : List DocParam) : ParamDoc :=
  match m.getLast? with
  | none => {}
  | some p =>
    { type := match p.annotation with
        | none => none
        | some a => annToType a,
      defaultValue := p.default.getD "", description := pyStrip p.description "\n" }

def parameterDocSpec (root : GNode) (style : DocStyle) (functionQname parameterName parentClassQname : String) :
    Except PyErr ParamDoc :=
  let functionName := lastD "" (splitDot functionQname)
  let firstQ := if functionName == "__init__" && parentClassQname != ""
    then replaceChar parentClassQname '/' "." else functionQname
  match lookupDoc root firstQ with
  | .error e => .error e
  | .ok d =>
    let m := match d with
      | some d => matching d parameterName false
      | none => []
    if style == .numpy && m.isEmpty && functionName == "__init__" then
      match lookupDoc root functionQname with
      | .error e => .error e
      | .ok (some d2) => .ok (paramRecord (matching d2 parameterName false))
      | .ok none => .ok (paramRecord m)
    else .ok (paramRecord m)

theorem getParameterDocumentation_agrees (s : ParserState) (f p c : String) (hv : Cache.Valid s.root s.cache) :
    Agrees s (getParameterDocumentation s f p c) (parameterDocSpec s.root s.style f p c) := by
  unfold getParameterDocumentation parameterDocSpec
  simp only []
  generalize (if (lastD "" (splitDot f) == "__init__" && c != "") = true then replaceChar c '/' "." else f) = firstQ
  rcases getCached_spec firstQ hv with ⟨e, h1, h2⟩ | ⟨d, c1, h1, h2, hv1⟩
  · rw [h1, h2]; exact rfl
  · rw [h1, h2]
    cases d <;> simp only [] <;>
    · generalize (s.style == DocStyle.numpy && _ && lastD "" (splitDot f) == "__init__") = cond
      cases cond
      · simp only [Bool.false_eq_true, if_false, paramRecord]
        generalize List.getLast? _ = gl; cases gl <;> exact ⟨rfl, rfl, rfl, hv1⟩
      · simp only [if_true]
        rcases getCached_spec f hv1 with ⟨e, h3, h4⟩ | ⟨d2, c2, h3, h4, hv2⟩
        · rw [h3, h4]; exact rfl
        · rw [h3, h4]
          cases d2 <;> simp only [paramRecord] <;> generalize List.getLast? _ = gl <;> cases gl <;> exact ⟨rfl, rfl, rfl, hv2⟩


/-! ### attribute -/

def attrRecord (m : List DocParam) : AttrDoc :=
  match m.getLast? with
  | none => {}
  | some p =>
    { type := match p.annotation with
        | none => none
        | some a => annToType a,
      description := pyStrip p.description "\n" }

def attributeDocSpec (root : GNode) (style : DocStyle) (parentClassQname attributeName : String) :
    Except PyErr AttrDoc :=
  let parent := replaceChar parentClassQname '/' "."
  match lookupDoc root parent with
  | .error e => .error e
  | .ok d =>
    let m := match d with
      | some d => matching d attributeName true
      | none => []
    if style == .numpy && m.isEmpty then
      match lookupDoc root (parent ++ ".__init__") with
      | .error e => .error e
      | .ok (some d2) => .ok (attrRecord (matching d2 attributeName true))
      | .ok none => .ok (attrRecord m)
    else .ok (attrRecord m)

theorem getAttributeDocumentation_agrees (s : ParserState) (c a : String) (hv : Cache.Valid s.root s.cache) :
    Agrees s (getAttributeDocumentation s c a) (attributeDocSpec s.root s.style c a) := by
  unfold getAttributeDocumentation attributeDocSpec
  simp only []
  generalize replaceChar c '/' "." = parent
  rcases getCached_spec parent hv with ⟨e, h1, h2⟩ | ⟨d, c1, h1, h2, hv1⟩
  · rw [h1, h2]; exact rfl
  · rw [h1, h2]
    cases d <;> simp only [] <;>
    · generalize (s.style == DocStyle.numpy && _) = cond
      cases cond
      · simp only [Bool.false_eq_true, if_false, attrRecord]
        generalize List.getLast? _ = gl; cases gl <;> exact ⟨rfl, rfl, rfl, hv1⟩
      · simp only [if_true]
        rcases getCached_spec (parent ++ ".__init__") hv1 with ⟨e, h3, h4⟩ | ⟨d2, c2, h3, h4, hv2⟩
        · rw [h3, h4]; exact rfl
        · rw [h3, h4]
          cases d2 <;> simp only [attrRecord] <;> generalize List.getLast? _ = gl <;> cases gl <;>
            exact ⟨rfl, rfl, rfl, hv2⟩

/-! ### function, result, class -/

def functionDocSpec (root : GNode) (fullname : String) : Except PyErr Docstring :=
  match lookupDoc root fullname with
  | .error e => .error e
  | .ok d => .ok (docRecord d)

theorem getFunctionDocumentation_agrees (s : ParserState) (f : String) (hv : Cache.Valid s.root s.cache) :
    Agrees s (getFunctionDocumentation s f) (functionDocSpec s.root f) := by
  unfold getFunctionDocumentation functionDocSpec
  rcases getCached_spec f hv with ⟨e, h1, h2⟩ | ⟨d, c1, h1, h2, hv1⟩
  · rw [h1, h2]; exact rfl
  · rw [h1, h2]; exact ⟨rfl, rfl, rfl, hv1⟩

/-- the `@result` records read off a docstring -/
def resultRecords (style : DocStyle) : Option GDoc → List ResultDoc
  | none => []
  | some d =>
    match firstSection? (fun x => match x with | .returns rs => some rs | _ => none) d.parsed with
    | none => []
    | some rs =>
      if rs.isEmpty then []
      else if style == .numpy then
        rs.map fun r =>
          { type := match r.annotation with | some a => annToType a | none => none,
            description := pyStrip r.description "\n", name := r.name }
      else
        match rs with
        | [] => []
        | r :: _ =>
          let ann := if style == .google && r.annotationIsNone then r.nameAsAnnotation else r.annotation
          let ty := match ann with
            | some a => annToType a
            | none => none
          [{ type := ty, description := pyStrip r.description "\n", name := "" }]

def resultDocSpec (root : GNode) (style : DocStyle) (functionQname : String) : Except PyErr (List ResultDoc) :=
  match lookupDoc root functionQname with
  | .error e => .error e
  | .ok d => .ok (resultRecords style d)

theorem getResultDocumentation_agrees (s : ParserState) (f : String) (hv : Cache.Valid s.root s.cache) :
    Agrees s (getResultDocumentation s f) (resultDocSpec s.root s.style f) := by
  unfold getResultDocumentation resultDocSpec
  rcases getCached_spec f hv with ⟨e, h1, h2⟩ | ⟨d, c1, h1, h2, hv1⟩
  · rw [h1, h2]; exact rfl
  · rw [h1, h2]
    cases d with
    | none => exact ⟨rfl, rfl, rfl, hv1⟩
    | some d =>
      simp only [resultRecords]
      generalize firstSection? _ d.parsed = fs
      cases fs with
      | none => exact ⟨rfl, rfl, rfl, hv1⟩
      | some rs =>
        simp only []
        cases rs with
        | nil => exact ⟨rfl, rfl, rfl, hv1⟩
        | cons r rs =>
          simp only [List.isEmpty_cons, Bool.false_eq_true, if_false]
          by_cases hn : (s.style == DocStyle.numpy) = true
          · simp only [hn, if_true]; exact ⟨rfl, rfl, rfl, hv1⟩
          · simp only [hn, Bool.false_eq_true, if_false]; exact ⟨rfl, rfl, rfl, hv1⟩

def classDocSpec (root : GNode) (fullname : String) : Except PyErr Docstring :=
  match getGriffeNode root fullname with
  | .error e => .error e
  | .ok none => .error .typeError
  | .ok (some n) => .ok (docRecord n.docstring)

theorem getClassDocumentation_agrees (s : ParserState) (n : String) (hv : Cache.Valid s.root s.cache) :
    Agrees s (getClassDocumentation s n) (classDocSpec s.root n) := by
  unfold getClassDocumentation classDocSpec
  cases hg : getGriffeNode s.root n with
  | error e => exact rfl
  | ok r =>
    cases r with
    | none => exact rfl
    | some nd => exact ⟨rfl, rfl, rfl, hv⟩

/-- `getClassDocumentation` does not touch the cache at all -/
theorem getClassDocumentation_state {s s' : ParserState} {n : String} {d : Docstring}
    (h : getClassDocumentation s n = .ok (d, s')) : s' = s := by
  unfold getClassDocumentation at h
  split at h
  · cases h
  · cases h
  · cases h; rfl

/-- a result that agrees with a specification that only depends on `root` and `style` is the same
    from any two valid caches -/
theorem Agrees.irrelevant {α : Type} {s₁ s₂ : ParserState} {r₁ r₂ : Except PyErr (α × ParserState)}
    {spec : Except PyErr α} (h₁ : Agrees s₁ r₁ spec) (h₂ : Agrees s₂ r₂ spec) :
    r₁.map Prod.fst = r₂.map Prod.fst := by
  rw [h₁.map_fst, h₂.map_fst]

theorem Agrees.state {α : Type} {s s' : ParserState} {res : Except PyErr (α × ParserState)} {spec : Except PyErr α}
    {a : α} (h : Agrees s res spec) (hr : res = .ok (a, s')) :
    s'.root = s.root ∧ s'.style = s.style ∧ Cache.Valid s'.root s'.cache := by
  subst hr; exact h.2

theorem Agrees.map {α β : Type} {s : ParserState} {res : Except PyErr (α × ParserState)} {spec : Except PyErr α}
    (g : α → β) (h : Agrees s res spec) :
    Agrees s (res.map fun r => (g r.1, r.2)) (spec.map g) := by
  cases res with
  | error e => have h' : spec = .error e := h; subst h'; exact rfl
  | ok r =>
    obtain ⟨a, s'⟩ := r
    have h' : spec = .ok a := h.1
    subst h'
    exact ⟨rfl, h.2⟩

theorem Agrees.of_error {α : Type} {s : ParserState} {e : PyErr} {spec : Except PyErr α}
    (h : Agrees s (.error e) spec) : spec = .error e := h

theorem Agrees.of_ok {α : Type} {s s' : ParserState} {a : α} {spec : Except PyErr α}
    (h : Agrees s (.ok (a, s')) spec) :
    spec = .ok a ∧ s'.root = s.root ∧ s'.style = s.style ∧ Cache.Valid s'.root s'.cache := h

/- from here on `Agrees` is used through the lemmas above only (unfolding it on a concrete cache makes
   the elaborator evaluate the query) -/
attribute [irreducible] Agrees

/-! ## Part 3 — outcome lists -/

/-- cut a list of outcomes after its first error -/
def untilError {α : Type} : List (Except PyErr α) → List (Except PyErr α)
  | [] => []
  | .error e :: _ => [.error e]
  | .ok a :: rest => .ok a :: untilError rest

theorem untilError_map_getElem? {α β : Type} (g : α → Except PyErr β) (l : List α) (i : Nat)
    (r : Except PyErr β) (h : (untilError (l.map g))[i]? = some r) :
    ∃ q, l[i]? = some q ∧ r = g q := by
  induction l generalizing i with
  | nil => simp [untilError] at h
  | cons q l ih =>
    simp only [List.map_cons] at h
    cases hg : g q with
    | error e =>
      rw [hg] at h
      simp only [untilError] at h
      cases i with
      | zero => simp at h; exact ⟨q, by simp, by rw [← h, hg]⟩
      | succ i => simp at h
    | ok a =>
      rw [hg] at h
      simp only [untilError] at h
      cases i with
      | zero => simp at h; exact ⟨q, by simp, by rw [← h, hg]⟩
      | succ i =>
        simp only [List.getElem?_cons_succ] at h ⊢
        exact ih i h

theorem untilError_map_of_ok {α β : Type} (g : α → Except PyErr β) (l : List α)
    (h : ∀ q ∈ l, ∃ a, g q = .ok a) : untilError (l.map g) = l.map g := by
  induction l with
  | nil => rfl
  | cons q l ih =>
    obtain ⟨a, ha⟩ := h q (by simp)
    simp only [List.map_cons, ha, untilError]
    rw [ih (fun q' hq' => h q' (by simp [hq']))]

/-! ## Part 4 — documentation-comment assembly -/

theorem pySplit_ne_nil_d (s : String) (c : Char) : pySplit s c ≠ [] := by
  unfold pySplit
  intro h
  exact splitOnChar_ne_nil c s.toList (List.map_eq_nil_iff.mp h)

theorem splitLines_ne_nil (s : String) : splitLines s ≠ [] := pySplit_ne_nil_d s '\n'

/-- prefixing every further item with the separator is joining with the separator -/
theorem append_join_map_sep (sep : String) {α : Type} (g : α → String) (first : String) (rest : List α) :
    first ++ String.join (rest.map fun p => sep ++ g p) = joinWith sep (first :: rest.map g) := by
  induction rest generalizing first with
  | nil => simp [joinWith]
  | cons r rs ih =>
    simp only [List.map_cons, String.join_cons, joinWith]
    rw [← ih (g r)]
    simp only [String.append_assoc]

/-- the decoration of a continuation line of a description -/
def docLine (indent l : String) : String := if l ≠ "" then indent ++ " * " ++ l else indent ++ " *"

theorem descriptionPart_aux (d indent : String) (hne : splitLines (pyLstrip (pyRstrip d "\n") "\n") ≠ []) :
    descriptionPart d indent
      = joinWith "\n" ((splitLines (pyLstrip (pyRstrip d "\n") "\n")).head hne
          :: (splitLines (pyLstrip (pyRstrip d "\n") "\n")).tail.map (docLine indent)) ++ "\n" := by
  unfold descriptionPart
  dsimp only
  revert hne
  generalize splitLines (pyLstrip (pyRstrip d "\n") "\n") = ls
  intro hne
  cases ls with
  | nil => exact absurd rfl hne
  | cons first rest =>
    have hf : (fun part => if part != "" then "\n" ++ indent ++ " * " ++ part else "\n" ++ indent ++ " *")
        = fun p => "\n" ++ docLine indent p := by
      funext part
      by_cases h : part = "" <;> simp [docLine, h, String.append_assoc]
    simp only [List.head_cons, List.tail_cons]
    rw [hf, append_join_map_sep]

theorem descriptionPart_eq (d indent : String) :
    descriptionPart d indent
      = joinWith "\n" ((splitLines (pyLstrip (pyRstrip d "\n") "\n")).head (splitLines_ne_nil _)
          :: (splitLines (pyLstrip (pyRstrip d "\n") "\n")).tail.map (docLine indent)) ++ "\n" :=
  descriptionPart_aux d indent _

theorem sdsDocstringDescription_eq (d indent : String) :
    sdsDocstringDescription d indent
      = if d = "" then "" else indent ++ "/**\n" ++ indent ++ " * " ++ descriptionPart d indent ++ indent ++ " */\n" := by
  unfold sdsDocstringDescription
  by_cases h : d = "" <;> simp [h]

theorem sdsDocstringDescription_eq_empty_iff (d indent : String) :
    sdsDocstringDescription d indent = "" ↔ d = "" := by
  rw [sdsDocstringDescription_eq]
  by_cases h : d = ""
  · simp [h]
  · simp [h]

/-! ### `@result` lines -/

/-- the name under which the `i`-th documented result `rd` of `docs` is listed: its own name, or
    `result_n` where `n` counts the unnamed documented results up to and including it, from `k` -/
def resultLabel (k : Nat) (docs : List ResultDoc) (i : Nat) (rd : ResultDoc) : String :=
  if rd.name ≠ "" then rd.name else resultName (k + (docs.take i).countP (fun r => r.name == ""))

/-- one `@result` entry: the description's lines, continuation lines behind ` * ` -/
def resultLine (safe : Bool) (indent name description : String) : String :=
  indent ++ " * @result " ++ convertName name safe ++ " "
    ++ joinWith ("\n" ++ indent ++ " * ") (splitLines description) ++ "\n"

theorem resultDocLines_eq (safe : Bool) (indent : String) (k : Nat) (rds : List ResultDoc) :
    resultDocLines safe indent k rds
      = String.join ((rds.filter (fun r => r.description != "")).mapIdx fun i rd =>
          resultLine safe indent (resultLabel k (rds.filter (fun r => r.description != "")) i rd) rd.description) := by
  induction rds generalizing k with
  | nil => simp [resultDocLines]
  | cons rd rest ih =>
    unfold resultDocLines
    by_cases hd : rd.description = ""
    · simp only [hd, bne_self_eq_false, Bool.false_eq_true, if_false, List.filter_cons]
      exact ih k
    · have hd' : (rd.description != "") = true := by simpa using hd
      simp only [hd', if_true, List.filter_cons, List.mapIdx_cons, String.join_cons]
      by_cases hn : rd.name = ""
      · simp only [hn, bne_self_eq_false, Bool.false_eq_true, if_false]
        rw [ih (k + 1)]
        simp only [resultLine, resultLabel, hn, ne_eq, not_true_eq_false, if_false, List.take_zero,
          List.countP_nil, Nat.add_zero, String.append_assoc, List.take_succ_cons, List.countP_cons,
          beq_self_eq_true, if_true]
        congr 8
        funext i r
        simp only [Nat.add_assoc, Nat.add_comm 1]
      · have hn' : (rd.name != "") = true := by simpa using hn
        simp only [hn', if_true]
        rw [ih k]
        simp only [resultLine, resultLabel, hn, ne_eq, not_false_eq_true, if_true, String.append_assoc,
          List.take_succ_cons, List.countP_cons, beq_iff_eq, if_false, Nat.add_zero]

/-! ### examples -/

/-- the code line an example line contributes: lines starting with `>>>` or `...`, the marker
    replaced by `//` (`str.replace`: every occurrence); other lines contribute nothing -/
def exampleCodeLine (part : String) : Option String :=
  if pyStartsWith part ">>>" then some (pyReplace part ">>>" "//")
  else if pyStartsWith part "..." then some (pyReplace part "..." "//")
  else none

theorem join_map_filterMap {α β : Type} (f : α → String) (g : α → Option β) (h : β → String)
    (hf : ∀ a, f a = match g a with | some b => h b | none => "") (l : List α) :
    String.join (l.map f) = String.join ((l.filterMap g).map h) := by
  induction l with
  | nil => rfl
  | cons a l ih =>
    simp only [List.map_cons, String.join_cons, List.filterMap_cons, hf a]
    cases g a with
    | none => simp only [String.empty_append]; exact ih
    | some b => simp only [List.map_cons, String.join_cons, ih]

theorem exampleText_eq (indent ex : String) :
    exampleText indent ex
      = indent ++ " * @example\n" ++ indent ++ " * pipeline example {\n"
        ++ String.join (((splitLines ex).filterMap exampleCodeLine).map fun l => indent ++ " *     " ++ l ++ "\n")
        ++ indent ++ " * }\n" := by
  unfold exampleText
  rw [join_map_filterMap _ exampleCodeLine (fun l => indent ++ " *     " ++ l ++ "\n")]
  intro part
  unfold exampleCodeLine
  by_cases h1 : pyStartsWith part ">>>" = true
  · simp only [h1, if_true]
  · by_cases h2 : pyStartsWith part "..." = true
    · simp only [h1, h2, if_true, Bool.false_eq_true, if_false]
    · simp only [h1, h2, Bool.false_eq_true, if_false]

/-! `str.replace` on a line that carries the marker at its start only -/

theorem splitOnStrAux_skip (sep : List Char) (pre rest : List Char) :
    splitOnStrAux sep pre.length (pre ++ rest) = splitOnStrAux sep 0 rest := by
  induction pre with
  | nil => rfl
  | cons c pre ih =>
    simp only [List.length_cons, List.cons_append]
    rw [splitOnStrAux]
    exact ih

theorem splitOnStrAux_of_not_infix (sep cs : List Char) (h : isInfixOfL sep cs = false) :
    splitOnStrAux sep 0 cs = [cs] := by
  induction cs with
  | nil => rfl
  | cons c cs ih =>
    simp only [isInfixOfL, Bool.or_eq_false_iff] at h
    unfold splitOnStrAux
    simp only [h.1, Bool.false_eq_true, if_false, ih h.2]

theorem isPrefixOfL_append (p rest : List Char) : isPrefixOfL p (p ++ rest) = true := by
  induction p with
  | nil => rfl
  | cons c p ih => simp [isPrefixOfL, ih]

theorem splitOnStrAux_prefix_once (sep rest : List Char) (hne : sep ≠ []) (h : isInfixOfL sep rest = false) :
    splitOnStrAux sep 0 (sep ++ rest) = [[], rest] := by
  cases sep with
  | nil => exact absurd rfl hne
  | cons c sep' =>
    have hp := isPrefixOfL_append (c :: sep') rest
    simp only [List.cons_append] at hp ⊢
    unfold splitOnStrAux
    simp only [hp, if_true, List.length_cons, Nat.add_sub_cancel]
    rw [splitOnStrAux_skip, splitOnStrAux_of_not_infix _ _ h]

theorem pyReplace_prefix_once (part m r : String) (rest : List Char) (hm : m ≠ "")
    (hpart : part.toList = m.toList ++ rest) (hno : isInfixOfL m.toList rest = false) :
    pyReplace part m r = r ++ String.ofList rest := by
  have hml : m.toList ≠ [] := fun h => hm (String.toList_eq_nil_iff.mp h)
  have he : m.isEmpty = false := by
    cases hh : m.isEmpty
    · rfl
    · exact absurd (String.isEmpty_iff.mp hh) hm
  unfold pyReplace pySplitStr
  simp only [he, Bool.false_eq_true, if_false, hpart, splitOnStrAux_prefix_once _ _ hml hno, List.map_cons,
    List.map_nil, joinWith]
  simp

/-! ### the four blocks of a documentation comment -/

def descBlock (description indent : String) : String :=
  if description = "" then "" else indent ++ " * " ++ descriptionPart description indent

def paramBlock (safe : Bool) (indent : String) (params : List Parameter) : String :=
  String.join ((params.filter fun p => p.doc.description != "").map fun p =>
    indent ++ " * @param " ++ convertName p.name safe ++ " " ++ descriptionPart p.doc.description indent)

def exampleBlock (indent : String) (examples : List String) : String :=
  joinWith (indent ++ " *\n") (examples.map (exampleText indent))

/-- the separator line, present exactly when there is something before and something after -/
def sepIf (indent before after : String) : String :=
  if before ≠ "" ∧ after ≠ "" then indent ++ " *\n" else ""

/-- the assembly of `_create_sds_docstring` over abstract blocks -/
def assemble (sep D P R : String) (exs : List String) : String :=
  let full := D
  let P' := if P != "" && full != "" then sep ++ P else P
  let full := full ++ P'
  let R' := if R != "" && full != "" then sep ++ R else R
  let full := full ++ R'
  let full := if full != "" && !exs.isEmpty then full ++ sep else full
  full ++ joinWith sep exs

theorem assemble_eq (indent D P R : String) (exs : List String)
    (hE : joinWith (indent ++ " *\n") exs = "" ↔ exs = []) :
    assemble (indent ++ " *\n") D P R exs
      = D ++ sepIf indent D P ++ P ++ sepIf indent (D ++ P) R ++ R
          ++ sepIf indent (D ++ P ++ R) (joinWith (indent ++ " *\n") exs) ++ joinWith (indent ++ " *\n") exs := by
  unfold assemble sepIf
  by_cases hx : exs = []
  · subst hx
    by_cases hD : D = "" <;> by_cases hP : P = "" <;> by_cases hR : R = "" <;>
      simp [hD, hP, hR, joinWith, String.append_assoc]
  · have hx' : exs.isEmpty = false := by simpa using hx
    have hj : joinWith (indent ++ " *\n") exs ≠ "" := fun h => hx (hE.mp h)
    by_cases hD : D = "" <;> by_cases hP : P = "" <;> by_cases hR : R = "" <;>
      simp [hD, hP, hR, hx', hj, String.append_assoc]

theorem assemble_eq_join (indent D P R : String) (exs : List String)
    (hE : joinWith (indent ++ " *\n") exs = "" ↔ exs = []) :
    assemble (indent ++ " *\n") D P R exs
      = joinWith (indent ++ " *\n") ([D, P, R, joinWith (indent ++ " *\n") exs].filter (· ≠ "")) := by
  unfold assemble
  by_cases hx : exs = []
  · subst hx
    by_cases hD : D = "" <;> by_cases hP : P = "" <;> by_cases hR : R = "" <;>
      simp [hD, hP, hR, joinWith, String.append_assoc]
  · have hx' : exs.isEmpty = false := by simpa using hx
    have hj : joinWith (indent ++ " *\n") exs ≠ "" := fun h => hx (hE.mp h)
    by_cases hD : D = "" <;> by_cases hP : P = "" <;> by_cases hR : R = "" <;>
      simp [hD, hP, hR, hx', hj, joinWith, String.append_assoc]

theorem joinWith_eq_empty_iff (sep : String) (l : List String) (h : ∀ a ∈ l, a ≠ "") :
    joinWith sep l = "" ↔ l = [] := by
  cases l with
  | nil => simp [joinWith]
  | cons a l =>
    have ha := h a (by simp)
    cases l with
    | nil => simp [joinWith, ha]
    | cons b l => simp [joinWith, ha]

theorem exampleText_ne_empty (indent ex : String) : exampleText indent ex ≠ "" := by
  unfold exampleText
  simp

theorem filterMap_ite_none {α β : Type} (c : α → Bool) (f : α → β) (l : List α) :
    l.filterMap (fun a => if c a = true then none else some (f a)) = (l.filter fun a => !c a).map f := by
  induction l with
  | nil => rfl
  | cons a l ih =>
    by_cases h : c a = true
    · simp [h, ih]
    · simp [h, ih]

theorem ite_bne_empty {α : Type} (X : String) (a b : α) :
    (if (X != "") = true then a else b) = if X = "" then b else a := by
  by_cases h : X = "" <;> simp [h]

theorem sdsDocstring_eq_assemble (safe : Bool) (desc indent : String) (params : List Parameter)
    (resultDocs : List ResultDoc) (examples : List String) :
    sdsDocstring safe desc indent params resultDocs examples
      = (if assemble (indent ++ " *\n") (descBlock desc indent) (paramBlock safe indent params)
              (resultDocLines safe indent 1 resultDocs) (examples.map (exampleText indent)) = "" then ""
         else indent ++ "/**\n" ++ assemble (indent ++ " *\n") (descBlock desc indent) (paramBlock safe indent params)
              (resultDocLines safe indent 1 resultDocs) (examples.map (exampleText indent)) ++ indent ++ " */\n") := by
  have hD : (if desc != "" then indent ++ " * " ++ descriptionPart desc indent else "") = descBlock desc indent := by
    unfold descBlock; by_cases h : desc = "" <;> simp [h]
  have hP : String.join (params.filterMap fun p =>
      if p.doc.description == "" then none
      else some (indent ++ " * @param " ++ convertName p.name safe ++ " " ++ descriptionPart p.doc.description indent))
      = paramBlock safe indent params := by
    unfold paramBlock
    rw [filterMap_ite_none (fun p : Parameter => p.doc.description == "")]
    rfl
  unfold sdsDocstring
  dsimp only
  rw [hD, hP]
  generalize descBlock desc indent = D
  generalize paramBlock safe indent params = P
  generalize resultDocLines safe indent 1 resultDocs = R
  generalize List.map (exampleText indent) examples = exs
  unfold assemble
  dsimp only
  rw [ite_bne_empty]
  simp only [String.append_assoc]

theorem exampleBlock_eq_empty_iff (indent : String) (examples : List String) :
    exampleBlock indent examples = "" ↔ examples = [] := by
  unfold exampleBlock
  rw [joinWith_eq_empty_iff]
  · simp
  · intro a ha
    obtain ⟨ex, _, rfl⟩ := List.mem_map.mp ha
    exact exampleText_ne_empty indent ex

theorem descBlock_eq_empty_iff (desc indent : String) : descBlock desc indent = "" ↔ desc = "" := by
  unfold descBlock
  by_cases h : desc = "" <;> simp [h]

theorem join_eq_empty_iff (l : List String) : String.join l = "" ↔ ∀ a ∈ l, a = "" := by
  induction l with
  | nil => simp
  | cons a l ih => simp [String.join_cons, ih]

theorem paramBlock_eq_empty_iff (safe : Bool) (indent : String) (params : List Parameter) :
    paramBlock safe indent params = "" ↔ ∀ p ∈ params, p.doc.description = "" := by
  unfold paramBlock
  rw [join_eq_empty_iff]
  constructor
  · intro h p hp
    by_cases hd : p.doc.description = ""
    · exact hd
    · have := h _ (List.mem_map.mpr ⟨p, List.mem_filter.mpr ⟨hp, by simpa using hd⟩, rfl⟩)
      simp at this
  · intro h a ha
    obtain ⟨p, hp, rfl⟩ := List.mem_map.mp ha
    have := List.mem_filter.mp hp
    have h1 := h p this.1
    have h2 := this.2
    simp [h1] at h2

theorem resultDocLines_eq_empty_iff (safe : Bool) (indent : String) (k : Nat) (rds : List ResultDoc) :
    resultDocLines safe indent k rds = "" ↔ ∀ r ∈ rds, r.description = "" := by
  induction rds generalizing k with
  | nil => simp [resultDocLines]
  | cons rd rest ih =>
    unfold resultDocLines
    by_cases hd : rd.description = ""
    · simp [hd, ih]
    · simp [hd]

/-- (c) the documentation comment as a concatenation of its blocks -/
theorem sdsDocstring_blocks_eq (safe : Bool) (desc indent : String) (params : List Parameter)
    (resultDocs : List ResultDoc) (examples : List String) :
    sdsDocstring safe desc indent params resultDocs examples
      = if descBlock desc indent = "" ∧ paramBlock safe indent params = ""
            ∧ resultDocLines safe indent 1 resultDocs = "" ∧ exampleBlock indent examples = "" then ""
        else indent ++ "/**\n"
          ++ descBlock desc indent
          ++ sepIf indent (descBlock desc indent) (paramBlock safe indent params)
          ++ paramBlock safe indent params
          ++ sepIf indent (descBlock desc indent ++ paramBlock safe indent params) (resultDocLines safe indent 1 resultDocs)
          ++ resultDocLines safe indent 1 resultDocs
          ++ sepIf indent (descBlock desc indent ++ paramBlock safe indent params ++ resultDocLines safe indent 1 resultDocs)
               (exampleBlock indent examples)
          ++ exampleBlock indent examples
          ++ indent ++ " */\n" := by
  have hE : joinWith (indent ++ " *\n") (examples.map (exampleText indent)) = "" ↔ examples.map (exampleText indent) = [] := by
    have := exampleBlock_eq_empty_iff indent examples
    unfold exampleBlock at this
    rw [this]; simp
  rw [sdsDocstring_eq_assemble, assemble_eq _ _ _ _ _ hE]
  unfold exampleBlock
  generalize descBlock desc indent = D
  generalize paramBlock safe indent params = P
  generalize resultDocLines safe indent 1 resultDocs = R
  generalize joinWith (indent ++ " *\n") (examples.map (exampleText indent)) = E
  by_cases h : D = "" ∧ P = "" ∧ R = "" ∧ E = ""
  · obtain ⟨rfl, rfl, rfl, rfl⟩ := h
    simp [sepIf]
  · have h' : ¬ (D ++ sepIf indent D P ++ P ++ sepIf indent (D ++ P) R ++ R ++ sepIf indent (D ++ P ++ R) E ++ E = "") := by
      intro he
      simp only [String.append_eq_empty_iff] at he
      exact h ⟨he.1.1.1.1.1.1, he.1.1.1.1.2, he.1.1.2, he.2⟩
    rw [if_neg h', if_neg h]
    simp only [String.append_assoc]

theorem sdsDocstring_blocks_join_eq (safe : Bool) (desc indent : String) (params : List Parameter)
    (resultDocs : List ResultDoc) (examples : List String) :
    sdsDocstring safe desc indent params resultDocs examples
      = if joinWith (indent ++ " *\n") ([descBlock desc indent, paramBlock safe indent params,
            resultDocLines safe indent 1 resultDocs, exampleBlock indent examples].filter (· ≠ "")) = "" then ""
        else indent ++ "/**\n"
          ++ joinWith (indent ++ " *\n") ([descBlock desc indent, paramBlock safe indent params,
            resultDocLines safe indent 1 resultDocs, exampleBlock indent examples].filter (· ≠ ""))
          ++ indent ++ " */\n" := by
  have hE : joinWith (indent ++ " *\n") (examples.map (exampleText indent)) = "" ↔ examples.map (exampleText indent) = [] := by
    have := exampleBlock_eq_empty_iff indent examples
    unfold exampleBlock at this
    rw [this]; simp
  rw [sdsDocstring_eq_assemble, assemble_eq_join _ _ _ _ _ hE]
  rfl

/-- the comment is empty iff there is nothing to document -/
theorem sdsDocstring_eq_empty_iff (safe : Bool) (desc indent : String) (params : List Parameter)
    (resultDocs : List ResultDoc) (examples : List String) :
    sdsDocstring safe desc indent params resultDocs examples = ""
      ↔ desc = "" ∧ (∀ p ∈ params, p.doc.description = "") ∧ (∀ r ∈ resultDocs, r.description = "") ∧ examples = [] := by
  have hiff : (descBlock desc indent = "" ∧ paramBlock safe indent params = ""
      ∧ resultDocLines safe indent 1 resultDocs = "" ∧ exampleBlock indent examples = "")
      ↔ (desc = "" ∧ (∀ p ∈ params, p.doc.description = "") ∧ (∀ r ∈ resultDocs, r.description = "") ∧ examples = []) := by
    rw [descBlock_eq_empty_iff, paramBlock_eq_empty_iff, resultDocLines_eq_empty_iff, exampleBlock_eq_empty_iff]
  rw [sdsDocstring_blocks_eq, ← hiff]
  by_cases h : descBlock desc indent = "" ∧ paramBlock safe indent params = ""
      ∧ resultDocLines safe indent 1 resultDocs = "" ∧ exampleBlock indent examples = ""
  · rw [if_pos h]; exact iff_of_true rfl h
  · rw [if_neg h]; refine iff_of_false ?_ h; simp

/-! ### the comment depends on the element's own docstring fields only -/

theorem paramBlock_congr (safe : Bool) (indent : String) (ps ps' : List Parameter)
    (h : ps.map (fun p => (p.name, p.doc.description)) = ps'.map (fun p => (p.name, p.doc.description))) :
    paramBlock safe indent ps = paramBlock safe indent ps' := by
  have key : ∀ qs : List Parameter, paramBlock safe indent qs
      = String.join (((qs.map fun p => (p.name, p.doc.description)).filter fun x => x.2 != "").map fun x =>
          indent ++ " * @param " ++ convertName x.1 safe ++ " " ++ descriptionPart x.2 indent) := by
    intro qs
    unfold paramBlock
    rw [List.filter_map, List.map_map]
    rfl
  rw [key ps, key ps', h]

theorem resultDocLines_congr (safe : Bool) (indent : String) (k : Nat) (rs rs' : List ResultDoc)
    (h : rs.map (fun r => (r.name, r.description)) = rs'.map (fun r => (r.name, r.description))) :
    resultDocLines safe indent k rs = resultDocLines safe indent k rs' := by
  induction rs generalizing rs' k with
  | nil =>
    cases rs' with
    | nil => rfl
    | cons r' rs' => simp at h
  | cons r rs ih =>
    cases rs' with
    | nil => simp at h
    | cons r' rs' =>
      simp only [List.map_cons, List.cons.injEq, Prod.mk.injEq] at h
      obtain ⟨⟨hn, hd⟩, ht⟩ := h
      unfold resultDocLines
      rw [hn, hd]
      split
      · split; simp only [ih _ _ ht]
      · exact ih _ _ ht

theorem sdsDocstring_congr (safe : Bool) (indent desc : String) (ps ps' : List Parameter)
    (rs rs' : List ResultDoc) (exs : List String)
    (hp : ps.map (fun p => (p.name, p.doc.description)) = ps'.map (fun p => (p.name, p.doc.description)))
    (hr : rs.map (fun r => (r.name, r.description)) = rs'.map (fun r => (r.name, r.description))) :
    sdsDocstring safe desc indent ps rs exs = sdsDocstring safe desc indent ps' rs' exs := by
  rw [sdsDocstring_eq_assemble, sdsDocstring_eq_assemble, paramBlock_congr safe indent ps ps' hp,
    resultDocLines_congr safe indent 1 rs rs' hr]

/-- without parameters, results and examples the comment is the plain description comment -/
theorem sdsDocstring_description_only (safe : Bool) (desc indent : String) :
    sdsDocstring safe desc indent [] [] [] = sdsDocstringDescription desc indent := by
  rw [sdsDocstring_blocks_eq, sdsDocstringDescription_eq]
  by_cases h : desc = ""
  · simp [descBlock, paramBlock, resultDocLines, exampleBlock, joinWith, h]
  · simp [descBlock, paramBlock, resultDocLines, exampleBlock, joinWith, sepIf, h, String.append_assoc]

/-! ### splitting a joined list gives the list back -/

theorem splitOnChar_append_sep_d (sep : Char) (l rest : List Char) (h : sep ∉ l) :
    splitOnChar sep (l ++ sep :: rest) = l :: splitOnChar sep rest := by
  induction l with
  | nil =>
    simp only [List.nil_append]
    rw [splitOnChar]
    split
    · rename_i h'; exact absurd h' (splitOnChar_ne_nil sep rest)
    · rename_i p ps h'; simp [h']
  | cons c l ih =>
    simp only [List.mem_cons, not_or] at h
    simp only [List.cons_append]
    rw [splitOnChar, ih h.2]
    have : ¬ c = sep := fun e => h.1 e.symm
    simp [this]

/-- `joinWith` on character lists -/
def joinL_d (sep : List Char) : List (List Char) → List Char
  | [] => []
  | [a] => a
  | a :: as => a ++ sep ++ joinL_d sep as

theorem toList_joinWith_d (sep : String) (ls : List String) :
    (joinWith sep ls).toList = joinL_d sep.toList (ls.map String.toList) := by
  induction ls with
  | nil => rfl
  | cons a ls ih =>
    cases ls with
    | nil => rfl
    | cons b ls =>
      simp only [joinWith, String.toList_append, ih, List.map_cons, joinL_d]

theorem splitOnChar_joinL_d (sep : Char) (ls : List (List Char)) (hne : ls ≠ []) (h : ∀ l ∈ ls, sep ∉ l) :
    splitOnChar sep (joinL_d [sep] ls) = ls := by
  induction ls with
  | nil => exact absurd rfl hne
  | cons a ls ih =>
    cases ls with
    | nil => exact splitOnChar_of_not_mem sep a (h a (by simp))
    | cons b ls =>
      simp only [joinL_d, List.append_assoc, List.singleton_append]
      rw [splitOnChar_append_sep_d sep a _ (h a (by simp))]
      rw [ih (by simp) (fun l hl => h l (by simp [hl]))]

/-- `sep.join(ls).split(sep) == ls` for a one-character separator that occurs in no item -/
theorem pySplit_joinWith_d (c : Char) (sep : String) (hsep : sep.toList = [c]) (ls : List String) (hne : ls ≠ [])
    (h : ∀ l ∈ ls, c ∉ l.toList) : pySplit (joinWith sep ls) c = ls := by
  unfold pySplit
  rw [toList_joinWith_d, hsep, splitOnChar_joinL_d c _ (by simpa using hne)]
  · simp [List.map_map, Function.comp_def]
  · intro l hl
    obtain ⟨s, hs, rfl⟩ := List.mem_map.mp hl
    exact h s hs

theorem mem_pySplit_not_sep (s : String) (c : Char) : ∀ l ∈ pySplit s c, c ∉ l.toList := by
  intro l hl
  unfold pySplit at hl
  obtain ⟨p, hp, rfl⟩ := List.mem_map.mp hl
  rw [String.toList_ofList]
  exact mem_splitOnChar_not_sep c s.toList p hp

theorem joinWith_cons_cons (sep a b : String) (l : List String) :
    joinWith sep (a :: b :: l) = a ++ sep ++ joinWith sep (b :: l) := by
  simp [joinWith]

theorem joinWith_append (sep : String) (l₁ l₂ : List String) (h₁ : l₁ ≠ []) (h₂ : l₂ ≠ []) :
    joinWith sep (l₁ ++ l₂) = joinWith sep l₁ ++ sep ++ joinWith sep l₂ := by
  induction l₁ with
  | nil => exact absurd rfl h₁
  | cons a l₁ ih =>
    cases l₁ with
    | nil =>
      cases l₂ with
      | nil => exact absurd rfl h₂
      | cons b l₂ => simp [joinWith]
    | cons b l₁ =>
      simp only [List.cons_append, joinWith_cons_cons] at ih ⊢
      rw [ih (by simp)]
      simp only [String.append_assoc]

theorem append_joinWith_cons (sep a b : String) (l : List String) :
    a ++ joinWith sep (b :: l) = joinWith sep ((a ++ b) :: l) := by
  cases l with
  | nil => simp [joinWith]
  | cons c l => simp only [joinWith_cons_cons, String.append_assoc]

/-- the lines of a description as they appear in the comment -/
def descriptionLines (d indent : String) : List String :=
  (splitLines (pyLstrip (pyRstrip d "\n") "\n")).head (splitLines_ne_nil _)
    :: (splitLines (pyLstrip (pyRstrip d "\n") "\n")).tail.map (docLine indent)

theorem descriptionPart_eq_join (d indent : String) :
    descriptionPart d indent = joinWith "\n" (descriptionLines d indent ++ [""]) := by
  rw [descriptionPart_eq, joinWith_append _ _ _ (by simp [descriptionLines]) (by simp)]
  simp [joinWith, descriptionLines]

theorem not_mem_toList_append {c : Char} {a b : String} (ha : c ∉ a.toList) (hb : c ∉ b.toList) :
    c ∉ (a ++ b).toList := by
  simp [String.toList_append, ha, hb]

theorem mem_splitLines_no_newline (s : String) : ∀ l ∈ splitLines s, '\n' ∉ l.toList :=
  mem_pySplit_not_sep s '\n'

theorem docLine_no_newline (indent l : String) (hi : '\n' ∉ indent.toList) (hl : '\n' ∉ l.toList) :
    '\n' ∉ (docLine indent l).toList := by
  have h1 : '\n' ∉ " * ".toList := by decide
  have h2 : '\n' ∉ " *".toList := by decide
  unfold docLine
  split
  · exact not_mem_toList_append (not_mem_toList_append hi h1) hl
  · exact not_mem_toList_append hi h2

theorem head_tail_no_newline (indent : String) (ls : List String) (hne : ls ≠ [])
    (h : ∀ l ∈ ls, '\n' ∉ l.toList) (hi : '\n' ∉ indent.toList) :
    ∀ l ∈ ls.head hne :: ls.tail.map (docLine indent), '\n' ∉ l.toList := by
  intro l hl
  simp only [List.mem_cons, List.mem_map] at hl
  rcases hl with rfl | ⟨x, hx, rfl⟩
  · exact h _ (List.head_mem _)
  · exact docLine_no_newline indent x hi (h x (List.mem_of_mem_tail hx))

theorem descriptionLines_no_newline (d indent : String) (hi : '\n' ∉ indent.toList) :
    ∀ l ∈ descriptionLines d indent, '\n' ∉ l.toList :=
  head_tail_no_newline indent _ _ (mem_splitLines_no_newline _) hi

/-- line for line: the lines of the description part are the description's lines, decorated, in order -/
theorem splitLines_descriptionPart (d indent : String) (hi : '\n' ∉ indent.toList) :
    splitLines (descriptionPart d indent) = descriptionLines d indent ++ [""] := by
  rw [descriptionPart_eq_join]
  apply pySplit_joinWith_d '\n' "\n" (by decide) _ (by simp)
  intro l hl
  simp only [List.mem_append, List.mem_singleton] at hl
  rcases hl with hl | rfl
  · exact descriptionLines_no_newline d indent hi l hl
  · decide

/-- the complete description-only comment, line by line -/
theorem splitLines_sdsDocstringDescription (d indent : String) (hd : d ≠ "") (hi : '\n' ∉ indent.toList) :
    splitLines (sdsDocstringDescription d indent)
      = (indent ++ "/**")
        :: (indent ++ " * " ++ (splitLines (pyLstrip (pyRstrip d "\n") "\n")).head (splitLines_ne_nil _))
        :: ((splitLines (pyLstrip (pyRstrip d "\n") "\n")).tail.map (docLine indent) ++ [indent ++ " */", ""]) := by
  have hlines := descriptionLines_no_newline d indent hi
  have hjoin : sdsDocstringDescription d indent
      = joinWith "\n" ((indent ++ "/**")
        :: (indent ++ " * " ++ (splitLines (pyLstrip (pyRstrip d "\n") "\n")).head (splitLines_ne_nil _))
        :: ((splitLines (pyLstrip (pyRstrip d "\n") "\n")).tail.map (docLine indent) ++ [indent ++ " */", ""])) := by
    rw [sdsDocstringDescription_eq, if_neg hd, descriptionPart_eq_join]
    unfold descriptionLines
    generalize (splitLines (pyLstrip (pyRstrip d "\n") "\n")).head (splitLines_ne_nil _) = F
    generalize (splitLines (pyLstrip (pyRstrip d "\n") "\n")).tail.map (docLine indent) = R
    have e1 : "/**\n" = "/**" ++ "\n" := by decide
    have e2 : " */\n" = " */" ++ "\n" := by decide
    rw [joinWith_cons_cons, ← append_joinWith_cons, ← List.cons_append,
      joinWith_append _ (F :: R) [""] (by simp) (by simp),
      joinWith_append _ (F :: R) [indent ++ " */", ""] (by simp) (by simp), e1, e2]
    simp only [joinWith, String.append_assoc, String.append_empty]
  rw [hjoin]
  apply pySplit_joinWith_d '\n' "\n" (by decide) _ (by simp)
  have h1 : '\n' ∉ "/**".toList := by decide
  have h2 : '\n' ∉ " * ".toList := by decide
  have h3 : '\n' ∉ " */".toList := by decide
  have h4 : '\n' ∉ "".toList := by decide
  intro l hl
  simp only [List.mem_cons, List.mem_append, List.mem_nil_iff, or_false] at hl
  rcases hl with rfl | rfl | hl | rfl | rfl
  · exact not_mem_toList_append hi h1
  · exact not_mem_toList_append (not_mem_toList_append hi h2) (hlines _ (by simp [descriptionLines]))
  · exact hlines _ (by simp only [descriptionLines, List.mem_cons]; exact Or.inr hl)
  · exact not_mem_toList_append hi h3
  · exact h4

end StubGen

